#!/bin/bash
# collect_refac.sh <n> [prefix] [dir] — verify (build, vet, tests) each refactoring of a finished agent's worktree /tmp/wt/R<n> and store it under /verif/refactorings/<prefix><n>-<x>/
export GOFLAGS=-mod=mod GOPROXY=off GOSUMDB=off GOTOOLCHAIN=local
n=$1; pre=${2:-S}; sub=${3:-_refac2}; wt=/tmp/wt/${4:-R}$n
for x in a b c d; do
  d=$wt/$sub/$x; [ -f $d/patch.diff ] || { echo "$pre$n-$x: no patch"; continue; }
  (cd $wt && git checkout -q -- . && git apply $d/patch.diff) || { echo "$pre$n-$x: APPLY FAILED"; continue; }
  if (cd $wt && go build ./... && go vet ./... && go test -count=1 ./... ) > /tmp/collect_$n$x.log 2>&1; then
    mkdir -p /verif/refactorings/$pre$n-$x; cp $d/patch.diff /verif/refactorings/$pre$n-$x/; [ -f $d/notes.md ] && cp $d/notes.md /verif/refactorings/$pre$n-$x/
    echo "$pre$n-$x: ok ($(grep -c '^[+-][^+-]' $d/patch.diff) changed lines)"
  else echo "$pre$n-$x: TESTS FAIL"; tail -3 /tmp/collect_$n$x.log; fi
  (cd $wt && git checkout -q -- .)
done
