#!/bin/bash
# seedcheck.sh <bin> <property|all> <dir-with-patch.diff>... : apply each patch to a scratch worktree and run the checker there.
BIN=$1; PROP=$2; shift 2
for d in "$@"; do
  wt=$(dirname $(dirname "$d")); [ -d "$wt/.git" ] || [ -f "$wt/.git" ] || wt=/tmp/wt/scratch
  ( cd $wt && git checkout -q -- . && git apply "$d/patch.diff" ) || { echo "$d: APPLY FAILED"; continue; }
  out=$($BIN -repo $wt -property $PROP -evidence /tmp/seed-ev.json 2>&1 | grep '^VIOLATED\|^UNDECIDED' | grep -v 'R8-recursion')
  n=$(echo -n "$out" | grep -c .)
  echo "== $d : $n findings"
  echo "$out" | cut -c1-260 | head -4
  ( cd $wt && git checkout -q -- . )
done
