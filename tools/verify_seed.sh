#!/bin/bash
# verify_seed.sh <worktree> <seed-dir> : confirm a seeded change independently.
# prints: build vet tests demo_with demo_without  (each ok/FAIL)
export GOFLAGS=-mod=mod GOPROXY=off GOSUMDB=off GOTOOLCHAIN=local
wt=$1; sd=$2
cd $wt || exit 2
git checkout -q -- . ; git clean -fdq -e _seed
place=$(head -1 $sd/demo_test.go | grep -o 'pkg/[a-z/]*' | head -1); place=${place%/}
[ -d "$wt/$place" ] || { echo "cannot find placement ($place)"; exit 2; }
res=""
git apply $sd/patch.diff || { echo "apply failed"; exit 2; }
go build ./... >/dev/null 2>&1 && res="$res build=ok" || res="$res build=FAIL"
go vet ./... >/dev/null 2>&1 && res="$res vet=ok" || res="$res vet=FAIL"
go test -count=1 ./... >/dev/null 2>&1 && res="$res tests=pass" || res="$res tests=FAIL"
cp $sd/demo_test.go $wt/$place/zz_demo_test.go
timeout 120 go test -count=1 -run 'Demo|demo|Seed' ./$place >/tmp/demo_with.log 2>&1 && res="$res demo_with_change=PASS(unexpected)" || res="$res demo_with_change=fails"
git checkout -q -- .
timeout 120 go test -count=1 -run 'Demo|demo|Seed' ./$place >/tmp/demo_without.log 2>&1 && res="$res demo_without_change=passes" || res="$res demo_without_change=FAILS(unexpected)"
rm -f $wt/$place/zz_demo_test.go
git checkout -q -- . ; git clean -fdq -e _seed
echo "$sd:$res"
