#!/bin/bash
# collect_seed.sh <nn> [e f] — verify the two seeds of a finished round-5 agent (/tmp/wt/T<nn>/_seed/{a,b}), run the
# property's quick check on each, and store them as /verif/seeded/C<nn>-<e|f>/ (patch, demo, notes, meta.json)
export GOFLAGS=-mod=mod GOPROXY=off GOSUMDB=off GOTOOLCHAIN=local
nn=$1; l1=${2:-e}; l2=${3:-f}; wt=/tmp/wt/T$nn; BIN=${SC_BIN:-/tmp/sc_dev}
i=0
for x in a b; do
  i=$((i+1)); lab=$l1; [ $i -eq 2 ] && lab=$l2
  d=$wt/_seed/$x; id=C$nn-$lab
  [ -f $d/patch.diff ] || { echo "$id: no patch"; continue; }
  v=$(/verif/tools/verify_seed.sh $wt $d 2>&1 | grep -v WARNING | tail -1)
  okv=0; echo "$v" | grep -q "build=ok vet=ok tests=pass demo_with_change=fails demo_without_change=passes" && okv=1
  t=$(mktemp -d /tmp/cs.XXXX); (cd /repo && git archive HEAD | tar -x -C $t); (cd $t && patch -p1 -s < $d/patch.diff)
  out=$($BIN -property C$nn -tier quick -repo $t -evidence $t/ev.json 2>&1)
  nv=$(echo "$out" | grep -c '^VIOLATED'); nu=$(echo "$out" | grep -c '^UNDECIDED')
  first=$(echo "$out" | grep '^VIOLATED\|^UNDECIDED' | head -2 | cut -c1-260)
  rm -rf $t
  echo "$id verified=$okv violated=$nv undecided=$nu"; echo "   $v" | cut -c1-200; echo "$first" | sed 's/^/   /'
  if [ $okv -eq 1 ]; then
    mkdir -p /verif/seeded/$id; cp $d/patch.diff $d/demo_test.go /verif/seeded/$id/; [ -f $d/notes.md ] && cp $d/notes.md /verif/seeded/$id/
    python3 - "$id" "C$nn" "$nv" "$nu" "${ROUND:-3}" <<'PY'
import json,sys,re
id,prop,nv,nu,rnd=sys.argv[1],sys.argv[2],int(sys.argv[3]),int(sys.argv[4]),int(sys.argv[5])
notes=open('/verif/seeded/%s/notes.md'%id).read() if True else ''
m={"id":id,"round":rnd,"breaks_property":prop,
   "needs_to_manifest":"see notes.md",
   "author":"independent sub-agent (round %d of seeding: asked for plausible maintainer changes that avoid the obvious guard)" % rnd + ", given only the property text and a scratch worktree of /repo",
   "confirmed_by_me":{"cmd":"tools/verify_seed.sh <scratch worktree> <seed dir>","result":"build=ok vet=ok existing tests pass with the change; demo fails with the change; demo passes without it"},
   "reported_as":{"violated":nv,"undecided":nu}}
json.dump(m,open('/verif/seeded/%s/meta.json'%id,'w'),indent=1)
PY
  fi
done
