#!/usr/bin/env python3
"""mut.py PROP FILE FIND REPLACE  -- run the checker on an in-memory rewrite of /repo/FILE.
Prints only the verdict lines. Used while developing rules; the committed
self test is in checker/selftest.go + variants/."""
import json, subprocess, sys, tempfile, os
prop, f, find, repl = sys.argv[1:5]
binp = os.environ.get("SC", "/verif/bin/secscheck")
path = os.path.join("/repo", f)
s = open(path).read()
if s.count(find) < 1:
    print("FIND TEXT NOT PRESENT"); sys.exit(3)
s2 = s.replace(find, repl, 1)
with tempfile.NamedTemporaryFile("w", suffix=".json", delete=False) as t:
    json.dump({path: s2}, t)
r = subprocess.run([binp, "-property", prop, "-overlay", t.name, "-evidence", "/tmp/mut-ev.json"], capture_output=True, text=True)
os.unlink(t.name)
out = [l for l in r.stdout.splitlines() if l.startswith(("VIOLATED", "UNDECIDED", "KNOWN"))]
print("exit", r.returncode, "|", len(out), "failing")
for l in out[:6]: print("  ", l[:330])
if r.stderr.strip(): print(r.stderr[:500])
