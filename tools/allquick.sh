#!/bin/bash
# allquick.sh [repo] — run every claimed property's quick check in parallel, evidence to a scratch dir
REPO="${1:-/repo}"; OUT=$(mktemp -d /tmp/aq.XXXX)
for p in C01 C02 C03 C04 C05 C06 C07 C08 C09 C11 C12 C13 C14 C15 C16 C17 C18 C19; do
  ( s=$(date +%s.%N); /verif/bin/secscheck -property $p -tier quick -repo "$REPO" -evidence $OUT/$p.json > $OUT/$p.log 2>&1; rc=$?; e=$(date +%s.%N)
    printf "%s rc=%d %.1fs %s\n" $p $rc $(echo "$e - $s" | bc) "$(grep -c 'VIOLATION\|UNDECIDED' $OUT/$p.log)" ) &
done; wait
echo "logs: $OUT"
