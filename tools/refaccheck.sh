#!/bin/bash
# refaccheck.sh <worktree> <refac-dir> : apply a behaviour-preserving patch and run every property's quick check on it.
export GOFLAGS=-mod=mod GOPROXY=off GOSUMDB=off GOTOOLCHAIN=local
wt=$1; d=$2
cd $wt && git checkout -q -- . && git apply $d/patch.diff || { echo "$d: APPLY FAILED"; exit; }
t=$(go build ./... 2>&1 && go test -count=1 ./... >/dev/null 2>&1 && echo pass || echo FAIL)
tot=0; out=""
for p in C01 C02 C03 C04 C05 C06 C07 C08 C09 C11 C12 C13 C14 C15 C16 C17 C18 C19; do
  o=$(/verif/bin/secscheck -repo $wt -property $p -evidence /tmp/refac-ev.json 2>&1 | grep '^VIOLATED\|^UNDECIDED')
  if [ -n "$o" ]; then out="$out
[$p] $(echo "$o" | cut -c1-300 | head -3)"; tot=$((tot+1)); fi
done
echo "== $d tests=$t properties_alarming=$tot$out"
git checkout -q -- .
