#!/bin/bash
# refacall.sh [filter] — run the stored refactorings (quiet variants) against every property; prints false alarms
F="${1:-refactorings}"; OUT=$(mktemp -d /tmp/ra.XXXX)
for p in C01 C02 C03 C04 C05 C06 C07 C08 C09 C11 C12 C13 C14 C15 C16 C17 C18 C19; do
  SC_SELFTEST_ONLY="$F" /verif/bin/secscheck -property $p -tier thorough -repo /repo -evidence $OUT/$p.json > $OUT/$p.log 2>&1
  python3 - $OUT/$p.json $p <<'PY'
import json,sys
e=json.load(open(sys.argv[1]))
def find(o):
    if isinstance(o,dict):
        if 'results' in o and isinstance(o['results'],list): return o['results']
        for v in o.values():
            r=find(v)
            if r: return r
    if isinstance(o,list):
        for v in o:
            r=find(v)
            if r: return r
for l in (find(e) or []):
    if 'FALSE-ALARM' in l or 'MISSED' in l: print(sys.argv[2], l[:330])
PY
done
echo "logs: $OUT"
