#!/bin/bash
# seedround.sh <prop>... : for finished agents' worktrees /tmp/wt/<prop>: verify both seeds and run the property's check on them
for id in "$@"; do
  for x in a b; do
    d=/tmp/wt/$id/_seed/$x
    [ -f $d/patch.diff ] || { echo "$id-$x: no patch"; continue; }
    /verif/tools/verify_seed.sh /tmp/wt/$id $d 2>&1 | grep -v WARNING
    /verif/tools/seedcheck.sh /tmp/sc $id $d 2>&1 | grep -v '^$' | grep -v WARNING | cut -c1-330 | head -4
  done
done
