#!/bin/bash
# refone.sh <refactoring-id> <property>... — run one stored refactoring against some properties with the dev binary (default /tmp/sc_dev)
BIN=${SC_BIN:-/tmp/sc_dev}; id=$1; shift
for p in "$@"; do
  SC_SELFTEST_ONLY=refactorings/$id $BIN -property $p -tier thorough -evidence /tmp/refone.json 2>&1 | grep "UNDECIDED\|^VIOLATED" | cut -c1-600 | sed "s/^/[$p] /"
done
