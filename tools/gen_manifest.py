#!/usr/bin/env python3
"""Regenerates MANIFEST.json from tools/manifest_table.json (claimed checks) —
every property of properties.jsonl that is not in the table is listed under
not_applicable with the reason given in the table's "not_applicable" map."""
import json, sys
tbl = json.load(open('/verif/tools/manifest_table.json'))
props = [json.loads(l)['id'] for l in open('/verif/properties.jsonl')]
checks = []
for pid in props:
    c = tbl['checks'].get(pid)
    if not c: continue
    checks.append({
        "property_id": pid,
        "quick_cmd": f"./run.sh {pid} quick",
        "thorough_cmd": f"./run.sh {pid} thorough",
        "evidence_file": f"/verif/evidence/{pid}.json",
        "replay_cmd_template": f"./run.sh {pid} quick   # replay file {{path}} holds the failing obligation; the rule is re-evaluated on /repo's current tree",
        "engine": "secscheck",
        "level_claimed": {"category": "other", "text": c["level_text"], "design_ref": c.get("design_ref", "DESIGN.md §5 " + pid)},
        "level_note": c["level_note"],
        "technique": c["technique"],
    })
na = [{"property_id": pid, "reason": tbl['not_applicable'][pid]} for pid in props if pid not in tbl['checks']]
missing = [pid for pid in props if pid not in tbl['checks'] and pid not in tbl['not_applicable']]
assert not missing, missing
m = {
 "version": 1,
 "setup_cmd": "cd /verif/checker && GOFLAGS=-mod=mod GOPROXY=off GOSUMDB=off GOTOOLCHAIN=local GOWORK=off CGO_ENABLED=0 go build -o /verif/bin/secscheck . && mkdir -p /verif/evidence",
 "hooks": {"guard": "verif", "enable": "none needed: static analysis reads /repo's source as is; no hook commits exist",
           "baseline_off_cmd": "cd /repo && GOFLAGS=-mod=mod GOPROXY=off go test -count=1 ./...", "source_commits": [], "add_only": True},
 "engines": [{"name": "secscheck", "path": "/verif/checker", "serves_properties": [c["property_id"] for c in checks],
              "kind_free_text": "repository-specific static analyser (go/packages + go/types + go/ssa + call graph): three-valued SSA evaluation for guard denotation, dataflow/dominance/effect rules, table cross-checks"}],
 "checks": checks,
 "not_applicable": na,
 "notes": tbl.get("notes", ""),
}
json.dump(m, open('/verif/MANIFEST.json', 'w'), indent=1)
print(len(checks), "checks;", len(na), "not applicable")
