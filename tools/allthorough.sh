#!/bin/bash
# allthorough.sh — run every claimed property's thorough check (sequentially; each uses parallel jobs), evidence to a scratch dir
OUT=$(mktemp -d /tmp/at.XXXX)
for p in C01 C02 C03 C04 C05 C06 C07 C08 C09 C11 C12 C13 C14 C15 C16 C17 C18 C19; do
  s=$(date +%s); /verif/bin/secscheck -property $p -tier thorough -repo /repo -evidence $OUT/$p.json > $OUT/$p.log 2>&1; rc=$?; e=$(date +%s)
  echo "$p rc=$rc $((e-s))s"; grep "UNDECIDED\|^VIOLATED" $OUT/$p.log | cut -c1-420
done
echo "logs: $OUT"
