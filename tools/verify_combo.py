#!/usr/bin/env python3
# verify_combo.py — for every variant of variants/on_refactorings.json: build the refactored tree, apply the edit,
# and report whether it still builds, vets and passes the library's test suite (a breaking change that the tests do not see).
import json, os, shutil, subprocess, sys, tempfile
env=dict(os.environ, GOFLAGS='-mod=mod', GOPROXY='off', GOSUMDB='off', GOTOOLCHAIN='local')
V=json.load(open('/verif/variants/on_refactorings.json'))
only=sys.argv[1] if len(sys.argv)>1 else ''
for v in V:
    if only and only not in v['id']: continue
    d=tempfile.mkdtemp(prefix='combo.')
    try:
        subprocess.run('cd /repo && git archive HEAD | tar -x -C '+d, shell=True, check=True)
        subprocess.run(['patch','-p1','-s','-i','/verif/refactorings/%s/patch.diff'%v['base']], cwd=d, check=True)
        edits=[(v['file'],v['find'],v['replace'])]+[(e['file'],e['find'],e['replace']) for e in v.get('edits',[])]
        ok=True
        for f,a,b in edits:
            p=os.path.join(d,f); s=open(p).read()
            if a not in s: print(v['id'],'FIND-MISSING',f); ok=False; break
            open(p,'w').write(s.replace(a,b,1))
        if not ok: continue
        r=subprocess.run('go build ./... && go vet ./... && go test -count=1 ./...', shell=True, cwd=d, env=env, capture_output=True, text=True)
        print(v['id'], 'tests-pass' if r.returncode==0 else 'FAILS: '+(r.stdout+r.stderr).strip().splitlines()[-1][:200] if (r.stdout+r.stderr).strip() else 'FAILS')
    finally:
        shutil.rmtree(d, ignore_errors=True)
