#!/bin/bash
# refquick.sh <dir-with-patch.diff>... — apply each patch to a scratch copy of /repo's HEAD and run every property's quick check on it (in parallel); prints the alarms
BIN=${SC_BIN:-/verif/bin/secscheck}
for d in "$@"; do
  t=$(mktemp -d /tmp/rq.XXXX); (cd /repo && git archive HEAD | tar -x -C $t)
  (cd $t && patch -p1 -s < $d/patch.diff) || { echo "== $d APPLY FAILED"; rm -rf $t; continue; }
  for p in C01 C02 C03 C04 C05 C06 C07 C08 C09 C11 C12 C13 C14 C15 C16 C17 C18 C19; do
    ( $BIN -repo $t -property $p -evidence $t/ev_$p.json 2>&1 | grep '^VIOLATED\|^UNDECIDED' | cut -c1-${W:-300} | head -${N:-3} | sed "s/^/[$p] /" > $t/out_$p.txt ) &
  done; wait
  n=$(cat $t/out_*.txt | cut -d' ' -f1 | sort -u | wc -l)
  echo "== $d properties_alarming=$n"; cat $t/out_*.txt
  rm -rf $t
done
