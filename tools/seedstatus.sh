#!/bin/bash
# seedstatus.sh — for every seeded change: how its own property's quick check reports it (VIOLATED / UNDECIDED / missed)
work=$(mktemp -d /tmp/ss.XXXX)
one() {
  d=$1; id=$(basename $d); prop=$(python3 -c "import json;print(json.load(open('$d/meta.json'))['breaks_property'])")
  t=$work/$id; mkdir -p $t; (cd /repo && git archive HEAD | tar -x -C $t)
  (cd $t && patch -p1 -s < $d/patch.diff) || { echo "$id APPLY-FAILED"; rm -rf $t; return; }
  out=$(/verif/bin/secscheck -property $prop -tier quick -repo $t -evidence $t/ev.json 2>&1)
  v=$(echo "$out" | grep -c '^VIOLATED'); u=$(echo "$out" | grep -c '^UNDECIDED')
  first=$(echo "$out" | grep '^VIOLATED\|^UNDECIDED' | head -1 | cut -c1-150)
  echo "$id $prop violated=$v undecided=$u | $first"
  rm -rf $t
}
export -f one; export work
ls -d /verif/seeded/*/ | xargs -P 10 -I{} bash -c 'one {}' | sort
rm -rf $work
