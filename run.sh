#!/bin/bash
# run.sh <property> <quick|thorough>  — decide one property on /repo's current tree.
# Rebuilds the checker when its sources are newer than the binary; the checker
# itself reloads and re-analyses /repo on every invocation.
set -u
cd "$(dirname "$0")"
export GOFLAGS=-mod=mod GOPROXY=off GOSUMDB=off GOTOOLCHAIN=local GOWORK=off CGO_ENABLED=0
unset GOWORK_FILE 2>/dev/null
BIN=/verif/bin/secscheck
need=0
[ -x "$BIN" ] || need=1
if [ $need -eq 0 ] && [ -n "$(find checker -name '*.go' -newer "$BIN" -print -quit 2>/dev/null)" ]; then need=1; fi
if [ $need -eq 1 ]; then
  mkdir -p /verif/bin
  (cd checker && go build -o "$BIN" .) || { echo "checker build failed" >&2; exit 2; }
fi
mkdir -p /verif/evidence
PROP="${1:?property id}"; TIER="${2:-quick}"
exec "$BIN" -property "$PROP" -tier "$TIER" -repo "${VERIF_REPO:-/repo}" -evidence "/verif/evidence/$PROP.json"
