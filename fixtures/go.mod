module fixtures

go 1.16
