// Package concatloop: examples for rule R6b.
package concatloop

import "strings"

func badAccumulate(bs []byte) string {
	var s string
	for _, b := range bs {
		s += string(rune(b))
	}
	return s
}

func goodConvert(bs []byte) string { return string(bs) }

func goodBuilder(bs []byte) string {
	var sb strings.Builder
	for _, b := range bs {
		sb.WriteByte(b)
	}
	return sb.String()
}

func goodOnce(a, b string) string { return a + b }
