// Package byterune: examples for rule R10a.
package byterune

import (
	"strings"
	"unicode"
)

func badTrimBytes(s string) string {
	i := len(s)
	for i > 0 && unicode.IsSpace(rune(s[i-1])) {
		i--
	}
	return s[:i]
}

func badByteSlice(b []byte) bool { return unicode.IsLetter(rune(b[0])) }

func goodRunes(s string) int {
	n := 0
	for _, r := range s {
		if unicode.IsSpace(r) {
			n++
		}
	}
	return n
}

func goodTrim(s string) string { return strings.TrimRight(s, " \t\r\n") }
