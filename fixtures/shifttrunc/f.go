// Package shifttrunc: positive and negative examples for rule R4.
package shifttrunc

func badByteShift(bs []byte) int {
	n := 0
	for i, b := range bs {
		n += int(b << (uint(len(bs)-i-1) * 8)) // shifted as a byte, widened afterwards
	}
	return n
}

func badUint16(x uint16) uint64 { return uint64(x << 8) }

func goodWidenFirst(bs []byte) int {
	n := 0
	for i, b := range bs {
		n += int(b) << (uint(len(bs)-i-1) * 8)
	}
	return n
}

func goodSameWidth(b byte) byte { return b << 1 }

func goodMask(b byte) int { return int(b<<0) + int(b>>2) }
