// Package gostmt: examples for the goroutine ban (R12-I5, R7).
package gostmt

func badSpawn(c chan int) {
	go func() { c <- 1 }()
}

func goodInline(c chan int) {
	f := func() { c <- 1 }
	f()
}
