package main

import (
	"fmt"
	"go/types"
	"sort"
	"strings"

	"golang.org/x/tools/go/ssa"
)

// R13b who-may-allocate — a node is only ever allocated by its own factory.
//
// The duplicate-name refusal, the type switch and the size limit live in the
// factories (checkRep cannot see a duplicate once the names are in a map), so
// a node built anywhere else bypasses them.
func ruleNodeAllocSites(p *Prog, r *Report) {
	const rule = "R13b-alloc-site"
	allowed := map[string][]string{
		"ListNode": {"NewListNode"}, "ASCIINode": {"NewASCIINode", "NewASCIINodeVariable"}, "BinaryNode": {"NewBinaryNode"},
		"BooleanNode": {"NewBooleanNode"}, "IntNode": {"NewIntNode"}, "UintNode": {"NewUintNode"}, "FloatNode": {"NewFloatNode"},
	}
	seen := map[string]int{}
	for _, fn := range p.Funcs {
		for _, b := range fn.Blocks {
			for _, instr := range b.Instrs {
				al, ok := instr.(*ssa.Alloc)
				if !ok {
					continue
				}
				n := namedStruct(al.Type())
				if n == nil || n.Obj().Pkg() == nil || n.Obj().Pkg().Name() != "ast" {
					continue
				}
				facs, isNode := allowed[n.Obj().Name()]
				if !isNode {
					continue
				}
				seen[n.Obj().Name()]++
				okSite := false
				for _, f := range facs {
					if fn.Name() == f && fn.Signature.Recv() == nil {
						okSite = true
					}
				}
				key := fmt.Sprintf("%s:%s:alloc(%s)", rule, FnName(fn), n.Obj().Name())
				if okSite {
					r.ok(rule, key, p.Pos(al.Pos()), "allocated by its factory")
				} else {
					r.bad(rule, key, p.Pos(al.Pos()), fmt.Sprintf("%s builds a %s itself instead of going through %s: the factory's argument checks (accepted types, duplicate variable names, the 16,777,215-byte limit) do not run on this path", FnName(fn), n.Obj().Name(), strings.Join(facs, "/")))
				}
			}
		}
	}
	var names []string
	for n := range allowed {
		names = append(names, n)
	}
	sort.Strings(names)
	for _, n := range names {
		if seen[n] == 0 {
			r.unk(rule, rule+":none:"+n, "", "no allocation of "+n+" found at all")
		}
	}
	r.Floor(rule, 8)
}

// R28 format-const — data is never used as a format string.
func ruleFormatConst(p *Prog, r *Report) {
	const rule = "R28-format"
	n := 0
	var isConstAtAllCallers func(fn *ssa.Function, idx int, depth int) (bool, string)
	isConstAtAllCallers = func(fn *ssa.Function, idx int, depth int) (bool, string) {
		node := p.CG.Nodes[fn]
		if node == nil || len(node.In) == 0 || depth > 2 {
			return false, "no known caller"
		}
		for _, e := range node.In {
			if e.Site == nil {
				return false, "unknown call site"
			}
			args := e.Site.Common().Args
			if idx >= len(args) {
				return false, "argument missing"
			}
			switch a := args[idx].(type) {
			case *ssa.Const:
			case *ssa.Parameter:
				caller := e.Site.Parent()
				ci := -1
				for i, q := range caller.Params {
					if q == a {
						ci = i
					}
				}
				if ok, why := isConstAtAllCallers(caller, ci, depth+1); !ok {
					return false, why
				}
			default:
				return false, fmt.Sprintf("%s passes a computed string as format (%s)", FnName(e.Site.Parent()), p.Pos(e.Site.Pos()))
			}
		}
		return true, ""
	}
	for _, fn := range p.Funcs {
		k := 0
		for _, b := range fn.Blocks {
			for _, instr := range b.Instrs {
				c, ok := instr.(*ssa.Call)
				if !ok {
					continue
				}
				sc := c.Common().StaticCallee()
				if sc == nil || sc.Pkg == nil || sc.Pkg.Pkg.Path() != "fmt" {
					continue
				}
				fi := -1
				switch sc.Name() {
				case "Sprintf", "Printf", "Errorf":
					fi = 0
				case "Fprintf":
					fi = 1
				}
				if fi < 0 {
					continue
				}
				n++
				k++
				key := fmt.Sprintf("%s:%s:%s#%d", rule, FnName(fn), sc.Name(), k)
				switch a := c.Common().Args[fi].(type) {
				case *ssa.Const:
					r.ok(rule, key, p.Pos(c.Pos()), "constant format string")
				case *ssa.Parameter:
					pi := -1
					for i, q := range fn.Params {
						if q == a {
							pi = i
						}
					}
					if ok, why := isConstAtAllCallers(fn, pi, 0); ok {
						r.ok(rule, key, p.Pos(c.Pos()), "format is a parameter that every caller supplies as a constant")
					} else {
						r.bad(rule, key, p.Pos(c.Pos()), "the format string of fmt."+sc.Name()+" is not a constant: "+why+" — a '%' in the data is interpreted as a verb")
					}
				default:
					r.bad(rule, key, p.Pos(c.Pos()), fmt.Sprintf("the format string of fmt.%s is a computed value (%s): text that contains '%%' is mangled (\"100%%\" prints as \"100%%!(NOVERB)\")", sc.Name(), a.Name()))
				}
			}
		}
	}
	r.Floor(rule, 20)
}

// R29 literal-source — each numeric item parser reads its literals with one
// strconv function only (an F item through ParseFloat, …), and hands the
// factory that result.
func ruleLiteralSource(p *Prog, r *Report) {
	const rule = "R29-literal-source"
	want := map[string]string{"parseFloat": "ParseFloat", "parseInt": "ParseInt", "parseUint": "ParseUint", "parseBinary": "ParseInt"}
	var fns []string
	for f := range want {
		fns = append(fns, f)
	}
	sort.Strings(fns)
	for _, name := range fns {
		key := rule + ":sml." + name
		fromDispatcher := func() {
			// another name or shape: decide from the dispatcher, per keyword
			kws := map[string][]string{"parseFloat": {"F4", "F8"}, "parseInt": {"I1", "I2", "I4", "I8"}, "parseUint": {"U1", "U2", "U4", "U8"}, "parseBinary": {"B"}}[name]
			used := map[string]bool{}
			okAll := true
			for _, kw := range kws {
				calls, ok := keywordCalls(p, kw)
				if !ok {
					okAll = false
				}
				for _, c := range calls {
					if strings.HasPrefix(c.callee, "strconv.") && c.in != "parseDataItemSize" {
						used[strings.TrimPrefix(c.callee, "strconv.")] = true
					}
				}
			}
			var l []string
			for u := range used {
				l = append(l, u)
			}
			sort.Strings(l)
			switch {
			case !okAll:
				r.unk(rule, key, "", "neither (*parser)."+name+" nor an evaluable dispatcher found")
			case len(l) == 1 && l[0] == want[name]:
				r.ok(rule, key, "", fmt.Sprintf("evaluated from the dispatcher for the keywords %v: literals are read by strconv.%s only", kws, want[name]))
			default:
				r.bad(rule, key, "", fmt.Sprintf("literals of this item type are read by strconv.%s; the item's values must come from strconv.%s alone (an extra integer path loses -0 and exponent forms, an extra float path loses integer precision)", strings.Join(l, " and "), want[name]))
			}
		}
		if p.Func("sml", "(*parser)."+name) == nil {
			fromDispatcher()
			continue
		}
		fn := p.MustFunc(r, "sml", "(*parser)."+name)
		if fn == nil {
			continue
		}
		used := map[string]bool{}
		var walk func(f *ssa.Function, d int)
		seen := map[*ssa.Function]bool{}
		walk = func(f *ssa.Function, d int) {
			if f == nil || seen[f] || d > 2 || f.Blocks == nil {
				return
			}
			seen[f] = true
			for _, a := range f.AnonFuncs {
				walk(a, d) // a conversion closure handed to a shared loop
			}
			for _, b := range f.Blocks {
				for _, instr := range b.Instrs {
					if c, ok := instr.(*ssa.Call); ok {
						if sc := c.Common().StaticCallee(); sc != nil {
							if sc.Pkg != nil && sc.Pkg.Pkg.Path() == "strconv" && (strings.HasPrefix(sc.Name(), "Parse") || sc.Name() == "Atoi") {
								used[sc.Name()] = true
							} else if InModule(sc) && sc.Pkg.Pkg.Name() == "sml" && !strings.HasPrefix(sc.Name(), "parse"+"DataItem") && sc.Name() != "getDataItemValueTokens" && sc.Name() != "errorf" {
								if sc.Signature.Recv() == nil || d == 0 {
									walk(sc, d+1)
								}
							}
						}
					}
				}
			}
		}
		walk(fn, 0)
		var l []string
		for u := range used {
			l = append(l, u)
		}
		sort.Strings(l)
		if len(l) == 0 {
			// no conversion found below the function by reading it: evaluate
			fromDispatcher()
			continue
		}
		if len(l) == 1 && l[0] == want[name] {
			r.ok(rule, key, p.Pos(fn.Pos()), "literals are read by strconv."+want[name]+" only")
		} else {
			r.bad(rule, key, p.Pos(fn.Pos()), fmt.Sprintf("literals of this item type are read by strconv.%s; the item's values must come from strconv.%s alone (an extra integer path loses -0 and exponent forms, an extra float path loses integer precision)", strings.Join(l, " and "), want[name]))
		}
	}
	r.Floor(rule, 4)
}

// R19b — only the error and EOF states end the token stream.
func ruleTerminateCallers(p *Prog, r *Report) {
	const rule = "R19b-terminate"
	term := p.MustFunc(r, "sml", "(*lexer).terminate")
	if term == nil {
		return
	}
	node := p.CG.Nodes[term]
	n := 0
	var bad []string
	if node != nil {
		for _, e := range node.In {
			if e.Caller.Func == nil {
				continue
			}
			n++
			cn := e.Caller.Func.Name()
			if cn != "errorf" && cn != "lexEOF" {
				bad = append(bad, FnName(e.Caller.Func)+" ("+p.Pos(e.Site.Pos())+")")
			}
		}
	}
	// direct closes of the channel elsewhere
	for _, fn := range p.PkgFuncs("sml") {
		if fn == term {
			continue
		}
		for _, b := range fn.Blocks {
			for _, instr := range b.Instrs {
				if c, ok := instr.(*ssa.Call); ok {
					if bi, ok := c.Common().Value.(*ssa.Builtin); ok && bi.Name() == "close" {
						bad = append(bad, FnName(fn)+" closes the channel itself ("+p.Pos(c.Pos())+")")
					}
				}
			}
		}
	}
	key := rule + ":sml.(*lexer).terminate:callers"
	switch {
	case len(bad) > 0:
		r.bad(rule, key, p.Pos(term.Pos()), "the token stream is ended by "+strings.Join(uniq(bad), ", ")+" without a positioned error or EOF token having been sent: the parser then sees a synthesized token at line 0, column 0")
	case n < 2:
		r.unk(rule, key, p.Pos(term.Pos()), fmt.Sprintf("only %d callers of terminate found, errorf and lexEOF were confirmed by reading", n))
	default:
		r.ok(rule, key, p.Pos(term.Pos()), "terminate is called only by errorf and lexEOF, each of which sends a positioned token first")
	}
}

var _ = types.Typ
