package main

import (
	"fmt"
	"go/types"
	"sort"
	"strings"

	"golang.org/x/tools/go/ssa"
)

// R8b-fanout: a function that walks the item tree under construction
// (recursion over pkg/ast nodes, reachable from a Parse: Variables, ToBytes,
// String, FillVariables … and their helpers) may descend into a child at most
// once on any path through its body, loops counted once. Both parsers build
// lists bottom-up and validate every list they build, so a walk that enters
// each child twice costs 2^depth calls: three characters (two bytes) of input
// per level double the work, which is a hang for a text of a hundred bytes.
//
// Decided on the call graph and the control-flow graph: the recursive cycles
// outside the parser package that Parse reaches; per function of a cycle, the
// largest number of call sites that can re-enter the cycle along an acyclic
// path (back edges removed). A dynamic call through the ItemNode interface
// re-enters the cycle when one of the methods it can reach is on it; an
// implementation is ruled out where the call is dominated by the failing side
// of a type test of the receiver for that implementation (the default arm of a
// type switch).
func ruleFanout(entryPkg string) func(p *Prog, r *Report) {
	return func(p *Prog, r *Report) {
		const rule = "R8b-fanout"
		entry := p.MustFunc(r, entryPkg, "Parse")
		if entry == nil {
			return
		}
		// callees per call site, with type-test narrowing
		calleesAt := func(f *ssa.Function) map[ssa.CallInstruction][]*ssa.Function {
			out := map[ssa.CallInstruction][]*ssa.Function{}
			n := p.CG.Nodes[f]
			if n == nil {
				return out
			}
			for _, e := range n.Out {
				c := e.Callee.Func
				if e.Site == nil || !InModule(c) || c.Blocks == nil {
					continue
				}
				if excludedByTypeTest(e.Site, c) {
					continue
				}
				dup := false
				for _, x := range out[e.Site] {
					if x == c {
						dup = true
					}
				}
				if !dup {
					out[e.Site] = append(out[e.Site], c)
				}
			}
			return out
		}
		siteMemo := map[*ssa.Function]map[ssa.CallInstruction][]*ssa.Function{}
		sites := func(f *ssa.Function) map[ssa.CallInstruction][]*ssa.Function {
			if m, ok := siteMemo[f]; ok {
				return m
			}
			m := calleesAt(f)
			siteMemo[f] = m
			return m
		}
		succ := func(f *ssa.Function) []*ssa.Function {
			seen := map[*ssa.Function]bool{}
			var out []*ssa.Function
			for _, cs := range sites(f) {
				for _, c := range cs {
					if !seen[c] {
						seen[c] = true
						out = append(out, c)
					}
				}
			}
			// closures made by f run on its behalf
			for _, a := range f.AnonFuncs {
				if !seen[a] {
					seen[a] = true
					out = append(out, a)
				}
			}
			sort.Slice(out, func(i, j int) bool { return out[i].String() < out[j].String() })
			return out
		}
		reach := map[*ssa.Function]bool{}
		var dfs func(f *ssa.Function)
		dfs = func(f *ssa.Function) {
			if reach[f] {
				return
			}
			reach[f] = true
			for _, c := range succ(f) {
				dfs(c)
			}
		}
		dfs(entry)
		// Tarjan
		index, low := map[*ssa.Function]int{}, map[*ssa.Function]int{}
		on := map[*ssa.Function]bool{}
		var stack []*ssa.Function
		idx := 0
		var sccs [][]*ssa.Function
		var strong func(v *ssa.Function)
		strong = func(v *ssa.Function) {
			index[v], low[v] = idx, idx
			idx++
			stack = append(stack, v)
			on[v] = true
			for _, w := range succ(v) {
				if _, ok := index[w]; !ok {
					strong(w)
					if low[w] < low[v] {
						low[v] = low[w]
					}
				} else if on[w] && index[w] < low[v] {
					low[v] = index[w]
				}
			}
			if low[v] == index[v] {
				var comp []*ssa.Function
				for {
					w := stack[len(stack)-1]
					stack = stack[:len(stack)-1]
					on[w] = false
					comp = append(comp, w)
					if w == v {
						break
					}
				}
				self := false
				for _, w := range succ(v) {
					if w == v {
						self = true
					}
				}
				if len(comp) > 1 || self {
					sccs = append(sccs, comp)
				}
			}
		}
		var fl []*ssa.Function
		for f := range reach {
			fl = append(fl, f)
		}
		sort.Slice(fl, func(i, j int) bool { return fl[i].String() < fl[j].String() })
		for _, f := range fl {
			if _, ok := index[f]; !ok {
				strong(f)
			}
		}
		n := 0
		for _, comp := range sccs {
			inPkg := false
			in := map[*ssa.Function]bool{}
			for _, f := range comp {
				in[f] = true
				if f.Pkg != nil && f.Pkg.Pkg.Name() == entryPkg {
					inPkg = true
				}
			}
			if inPkg {
				continue // the parser's own descent consumes input at every call; R8 speaks about it
			}
			sort.Slice(comp, func(i, j int) bool { return comp[i].String() < comp[j].String() })
			for _, f := range comp {
				n++
				key := rule + ":" + entryPkg + ":" + FnName(f)
				cnt, path := maxReentries(f, sites(f), in)
				if cnt >= 2 {
					r.bad(rule, key, p.Pos(f.Pos()), fmt.Sprintf("%s walks the item tree recursively and can descend %d times on one path through its body (%s): every nesting level multiplies the work, 2^depth calls for lists nested in each other, and %s.Parse validates every list it builds — a text of ~100 bytes does not return",
						FnName(f), cnt, strings.Join(path, ", then "), entryPkg))
				} else {
					r.ok(rule, key, p.Pos(f.Pos()), fmt.Sprintf("%s is on a recursive walk of the built item tree reachable from %s.Parse; on every acyclic path through its body at most %d call site re-enters the walk (dynamic calls narrowed by dominating type tests)", FnName(f), entryPkg, cnt))
				}
			}
		}
		if n == 0 {
			r.ok(rule, rule+":"+entryPkg+":no-walk", p.Pos(entry.Pos()), "no recursive walk of built items is reachable from "+entryPkg+".Parse")
		}
	}
}

// excludedByTypeTest: the call is an interface method call on a value v, c is
// the method of a concrete type T, and the call's block is dominated by the
// failing edge of `_, ok := v.(T)`.
func excludedByTypeTest(site ssa.CallInstruction, c *ssa.Function) bool {
	cc := site.Common()
	if !cc.IsInvoke() || c.Signature.Recv() == nil {
		return false
	}
	recvT := c.Signature.Recv().Type()
	v := cc.Value
	refs := v.Referrers()
	if refs == nil {
		return false
	}
	blk := site.Block()
	for _, ref := range *refs {
		ta, ok := ref.(*ssa.TypeAssert)
		if !ok || !ta.CommaOk || ta.X != v || !types.Identical(ta.AssertedType, recvT) {
			continue
		}
		// find `if extract(ta,1)`
		tr := ta.Referrers()
		if tr == nil {
			continue
		}
		for _, u := range *tr {
			ex, ok := u.(*ssa.Extract)
			if !ok || ex.Index != 1 || ex.Referrers() == nil {
				continue
			}
			for _, w := range *ex.Referrers() {
				iff, ok := w.(*ssa.If)
				if !ok || iff.Cond != ex {
					continue
				}
				els := iff.Block().Succs[1]
				if len(els.Preds) == 1 && els.Dominates(blk) {
					return true
				}
			}
		}
	}
	return false
}

// maxReentries: the largest number of call sites re-entering the cycle `in`
// on an acyclic path through f (back edges, found by a depth-first search
// from the entry block, are dropped), and the sites of such a path.
func maxReentries(f *ssa.Function, sites map[ssa.CallInstruction][]*ssa.Function, in map[*ssa.Function]bool) (int, []string) {
	if len(f.Blocks) == 0 {
		return 0, nil
	}
	type hit struct{ desc string }
	per := map[*ssa.BasicBlock][]hit{}
	for _, b := range f.Blocks {
		for _, instr := range b.Instrs {
			ci, ok := instr.(ssa.CallInstruction)
			if !ok {
				continue
			}
			re := false
			var names []string
			for _, c := range sites[ci] {
				if in[c] {
					re = true
					names = append(names, FnName(c))
				}
			}
			// a closure of the cycle made here and called through a value is
			// counted where it is called; MakeClosure itself is no call
			if re {
				sort.Strings(names)
				pos := f.Prog.Fset.Position(ci.Pos())
				per[b] = append(per[b], hit{fmt.Sprintf("line %d -> %s", pos.Line, strings.Join(names, "|"))})
			}
		}
	}
	// back edges by DFS
	state := map[*ssa.BasicBlock]int{}
	back := map[[2]*ssa.BasicBlock]bool{}
	var walk func(b *ssa.BasicBlock)
	walk = func(b *ssa.BasicBlock) {
		state[b] = 1
		for _, s := range b.Succs {
			switch state[s] {
			case 0:
				walk(s)
			case 1:
				back[[2]*ssa.BasicBlock{b, s}] = true
			}
		}
		state[b] = 2
	}
	walk(f.Blocks[0])
	// a back edge b->h continues where the loop of h is left: the natural loop
	// of h is what reaches a latch without passing h; its exits replace the
	// back edge, so that two loops one after the other lie on one path
	loopOf := map[*ssa.BasicBlock]map[*ssa.BasicBlock]bool{}
	for e := range back {
		b, h := e[0], e[1]
		l := loopOf[h]
		if l == nil {
			l = map[*ssa.BasicBlock]bool{h: true}
			loopOf[h] = l
		}
		var up func(x *ssa.BasicBlock)
		up = func(x *ssa.BasicBlock) {
			if l[x] {
				return
			}
			l[x] = true
			for _, q := range x.Preds {
				up(q)
			}
		}
		up(b)
	}
	succs := func(b *ssa.BasicBlock) []*ssa.BasicBlock {
		var out []*ssa.BasicBlock
		for _, s := range b.Succs {
			if !back[[2]*ssa.BasicBlock{b, s}] {
				out = append(out, s)
				continue
			}
			l := loopOf[s]
			for _, x := range f.Blocks {
				if !l[x] {
					continue
				}
				for _, y := range x.Succs {
					if !l[y] {
						out = append(out, y)
					}
				}
			}
		}
		return out
	}
	memo := map[*ssa.BasicBlock]int{}
	onPath := map[*ssa.BasicBlock]bool{}
	next := map[*ssa.BasicBlock]*ssa.BasicBlock{}
	var best func(b *ssa.BasicBlock) int
	best = func(b *ssa.BasicBlock) int {
		if v, ok := memo[b]; ok {
			return v
		}
		if onPath[b] {
			return 0
		}
		onPath[b] = true
		m := -1
		for _, s := range succs(b) {
			if v := best(s); v > m {
				m = v
				next[b] = s
			}
		}
		if m < 0 {
			m = 0
		}
		onPath[b] = false
		memo[b] = m + len(per[b])
		return memo[b]
	}
	total := best(f.Blocks[0])
	var path []string
	seenB := map[*ssa.BasicBlock]bool{}
	for b := f.Blocks[0]; b != nil && !seenB[b]; b = next[b] {
		seenB[b] = true
		for _, h := range per[b] {
			path = append(path, h.desc)
		}
	}
	return total, path
}
