package main

// Guard denotation (rule engine R14).
//
// A DomainSpec names a function, the subjects whose admissible values the
// property fixes (a parameter, a receiver field, the elements or the length
// of a slice, ...) and an independent predicate Accept stating the domain.
// CheckDomain decides whether the function returns for exactly the accepted
// values: the value space of every subject is cut into cells by all integer
// constants that occur in the function and its module callees, by the
// constants the function was observed to compare the subject with, and by the
// constants of the specification; one representative per cell (and its
// neighbours) is bound to the subject and the function is evaluated three-
// valued (interp.go). For a subject that is only ever compared with
// constants the truth of every guard is constant on a cell, so agreement on
// all representatives is agreement on all values.

import (
	"fmt"
	"go/types"
	"math"
	"math/big"
	"sort"
	"strings"

	"golang.org/x/tools/go/ssa"
)

type SubjKind int

const (
	SParam SubjKind = iota // a scalar parameter
	SPath                  // a scalar memory cell reachable from a pointer parameter: "p0.stream"
	SElem                  // the elements of the slice or string at a path / parameter: "p0.values", "p1"
	SLen                   // the length of the slice at a path / parameter
	SCall                  // result #Index of the Ord-th static call of Callee in the function
	SValue                 // an SSA value selected by Pick
	SRange                 // the rune of the Ord-th range-over-string loop in the function
)

type Subj struct {
	Name   string
	Kind   SubjKind
	Param  int
	Path   string
	Type   types.Type                         // value type (integer bounds, float, string)
	Dyn    types.Type                         // SElem over interface elements: the dynamic type to bind
	Extra  []Val                              // additional representatives
	Callee string                             // SCall: "strconv.Atoi", "(*sml.lexer).peek"
	Ord    int                                // SCall / SRange: which occurrence (source order)
	Index  int                                // SCall: result index (-1: the single result)
	Pick   func(fn *ssa.Function) []ssa.Value // SValue
	NoReps bool                               // use only Extra as representatives
	NonNeg bool                               // the subject is a length: no negative representatives
}

type DomainSpec struct {
	Rule   string
	Key    string
	Fn     *ssa.Function
	Subjs  []Subj
	Consts []int64                // boundary constants of the specification
	Strs   []string               // string constants of the specification
	Env    map[string]Val         // further path bindings (e.g. "p0.byteSize")
	Init   map[string]Val         // initial contents of input memory the function may overwrite
	Args   map[int]Val            // further parameter bindings
	Accept func(v []Val) bool     // the specification: are these subject values admissible?
	What   string                 // human description of the domain
	Bind   func(in *Interp)       // optional extra setup
	Want   func(v []Val) []string // optional: expected properties of returned value (not used yet)
	// Survive overrides "some return is reachable" as the meaning of acceptance.
	Survive func(out Outcome, in *Interp) bool
	// Sink switches to sink mode: a tuple is refused when it reaches a sink
	// call that is not reached by every tuple (a diagnostic specific to it).
	Sink func(callee *ssa.Function) bool
	// PreBind installs further bindings for every run (after subjects).
	PreBind func(in *Interp, tuple []Val)
}

type DomainResult struct {
	Tuples   int
	Mismatch []string
	Opaque   []string
	Stuck    []string
	Cuts     int
}

var typInt = types.Typ[types.Int]

// moduleConsts collects the integer and string literals of fn and of the
// module functions it can statically reach.
func moduleConsts(fn *ssa.Function) (ints []*big.Int, strs []string) {
	seen := map[*ssa.Function]bool{}
	var visit func(f *ssa.Function, d int)
	visit = func(f *ssa.Function, d int) {
		if f == nil || seen[f] || f.Blocks == nil || !InModule(f) || d > 6 {
			return
		}
		seen[f] = true
		for _, b := range f.Blocks {
			for _, in := range b.Instrs {
				var ops []*ssa.Value
				for _, op := range in.Operands(ops) {
					if op == nil || *op == nil {
						continue
					}
					if c, ok := (*op).(*ssa.Const); ok {
						v := constVal(c)
						if v.K == KInt {
							ints = append(ints, v.I)
						} else if v.K == KStr {
							strs = append(strs, v.S)
						} else if v.K == KFloat && v.F == math.Trunc(v.F) && math.Abs(v.F) < 1e18 {
							ints = append(ints, big.NewInt(int64(v.F)))
						}
					}
				}
				if c, ok := in.(ssa.CallInstruction); ok {
					if callee := c.Common().StaticCallee(); callee != nil {
						visit(callee, d+1)
					}
				}
			}
		}
		for _, an := range f.AnonFuncs {
			visit(an, d+1)
		}
	}
	visit(fn, 0)
	return
}

func intReps(t types.Type, cuts []*big.Int, sizes types.Sizes) []*big.Int {
	lo, hi, ok := TypeBounds(t, sizes)
	set := map[string]*big.Int{}
	add := func(i *big.Int) {
		if ok && (i.Cmp(lo) < 0 || i.Cmp(hi) > 0) {
			return
		}
		set[i.String()] = i
	}
	for _, c := range cuts {
		for d := int64(-2); d <= 2; d++ {
			add(new(big.Int).Add(c, big.NewInt(d)))
		}
	}
	if ok {
		for d := int64(0); d <= 2; d++ {
			add(new(big.Int).Add(lo, big.NewInt(d)))
			add(new(big.Int).Sub(hi, big.NewInt(d)))
		}
	}
	for d := int64(-2); d <= 2; d++ {
		add(big.NewInt(d))
	}
	out := make([]*big.Int, 0, len(set))
	for _, v := range set {
		out = append(out, v)
	}
	sort.Slice(out, func(i, j int) bool { return out[i].Cmp(out[j]) < 0 })
	return out
}

func floatReps(t types.Type) []float64 {
	m32, m64 := float64(math.MaxFloat32), math.MaxFloat64
	reps := []float64{0, 1, -1, 0.5, 255, 256, 1e10, -1e10,
		m32, -m32, math.Nextafter(m32, math.Inf(1)), -math.Nextafter(m32, math.Inf(1)),
		math.Nextafter(m32, 0), 2 * m32, -2 * m32, float64(math.SmallestNonzeroFloat32), math.SmallestNonzeroFloat64,
		m64, -m64, math.Nextafter(m64, 0), math.Inf(1), math.Inf(-1), math.NaN()}
	if b, ok := t.Underlying().(*types.Basic); ok && b.Kind() == types.Float32 {
		var out []float64
		seen := map[uint64]bool{}
		for _, f := range reps {
			g := float64(float32(f))
			k := math.Float64bits(g)
			if !seen[k] {
				seen[k] = true
				out = append(out, g)
			}
		}
		return out
	}
	return reps
}

func strReps(lits []string) []string {
	set := map[string]bool{"": true, " ": true, "x": true}
	for _, s := range lits {
		if len(s) > 12 {
			continue
		}
		set[s] = true
		set[s+" "] = true
		set[strings.ToLower(s)] = true
		if len(s) > 0 {
			set[s[:len(s)-1]] = true
		}
	}
	var out []string
	for s := range set {
		out = append(out, s)
	}
	sort.Strings(out)
	return out
}

func valOfType(t types.Type, i *big.Int) Val {
	return Val{K: KInt, I: i, Dep: true}
}

// defaultArgs names pointer and slice parameters so that memory reachable from
// them can be bound by path ("p0.stream", "p1[*]").
func defaultArgs(fn *ssa.Function) []Val {
	args := make([]Val, len(fn.Params))
	for i, p := range fn.Params {
		switch p.Type().Underlying().(type) {
		case *types.Pointer:
			args[i] = Val{K: KPtr, S: fmt.Sprintf("p%d", i)}
		case *types.Slice:
			args[i] = Val{K: KSlice, S: fmt.Sprintf("p%d", i), Len: -1}
		case *types.Map:
			args[i] = Val{K: KPtr, S: fmt.Sprintf("p%d", i)}
		case *types.Struct:
			// a struct passed by value: its fields are read as input memory p<i>.f
			args[i] = Val{K: KAgg, S: fmt.Sprintf("p%d", i), Agg: map[string]cell{}}
		default:
			args[i] = top
		}
	}
	return args
}

// elemSites finds the places where fn reads "the current element" while
// iterating over the slice or string designated by path: a load through an
// induction-variable index, or the value of a range-over-string step.
func elemSites(p *Prog, fn *ssa.Function, args []Val, env map[string]Val, path string) []ssa.Value {
	in := NewInterp(p)
	for k, v := range env {
		in.PathBind[k] = v
	}
	out := in.Run(fn, args, nil)
	fr := out.Frame
	var sites []ssa.Value
	for _, b := range fn.Blocks {
		for _, instr := range b.Instrs {
			switch x := instr.(type) {
			case *ssa.UnOp:
				ia, ok := x.X.(*ssa.IndexAddr)
				if !ok || !isInduction(ia.Index) {
					continue
				}
				base := fr.evalAnywhere(ia.X)
				if (base.K == KSlice || base.K == KPtr) && base.S == path {
					sites = append(sites, x)
				}
			case *ssa.Extract:
				nx, ok := x.Tuple.(*ssa.Next)
				if !ok || x.Index != 2 || !nx.IsString {
					continue
				}
				rg, ok := nx.Iter.(*ssa.Range)
				if !ok {
					continue
				}
				if ld, ok := rg.X.(*ssa.UnOp); ok {
					a := fr.evalAnywhere(ld.X)
					if a.K == KPtr && a.S == path {
						sites = append(sites, x)
					}
				} else if prm, ok := rg.X.(*ssa.Parameter); ok {
					for i, q := range fn.Params {
						if q == prm && fmt.Sprintf("p%d", i) == path {
							sites = append(sites, x)
						}
					}
				}
			}
		}
	}
	return sites
}

// evalAnywhere evaluates a value regardless of whether its block was visited.
func (fr *frame) evalAnywhere(v ssa.Value) Val {
	if r := fr.eval(v); r.K != KBot {
		return r
	}
	saveBlocks := fr.blocks
	fr.blocks = map[*ssa.BasicBlock]bool{}
	fr.memo = map[ssa.Value]Val{}
	r := fr.eval(v)
	fr.blocks = saveBlocks
	return r
}

// isInduction reports whether v is a loop induction variable: a phi (or a phi
// plus constant) whose incoming values are a constant and itself plus a
// constant.
func isInduction(v ssa.Value) bool {
	if b, ok := v.(*ssa.BinOp); ok {
		if _, isC := b.Y.(*ssa.Const); isC {
			v = b.X
		}
	}
	if c, ok := v.(*ssa.Convert); ok {
		v = c.X
	}
	phi, ok := v.(*ssa.Phi)
	if !ok {
		return false
	}
	hasConst, hasStep := false, false
	for _, e := range phi.Edges {
		switch x := e.(type) {
		case *ssa.Const:
			hasConst = true
		case *ssa.BinOp:
			if _, isC := x.Y.(*ssa.Const); isC && (x.X == ssa.Value(phi)) {
				hasStep = true
			}
		}
	}
	return hasConst && hasStep
}

// callSites returns the static calls of the named callee in fn, in source
// order, followed by those in the module functions fn calls (two levels), so
// that a literal conversion moved into a helper is still found.
func callSites(fn *ssa.Function, callee string) []*ssa.Call {
	var out []*ssa.Call
	seen := map[*ssa.Function]bool{}
	var walk func(f *ssa.Function, d int)
	walk = func(f *ssa.Function, d int) {
		if f == nil || seen[f] || f.Blocks == nil || d > 2 {
			return
		}
		seen[f] = true
		var here []*ssa.Call
		var next []*ssa.Function
		for _, b := range f.Blocks {
			for _, instr := range b.Instrs {
				if c, ok := instr.(*ssa.Call); ok {
					if sc := c.Common().StaticCallee(); sc != nil {
						if FnName(sc) == callee || calleeFullName(sc) == callee {
							here = append(here, c)
						} else if InModule(sc) && sc.Pkg == fn.Pkg && sc.Signature.Recv() == nil {
							next = append(next, sc) // package-level helpers only: methods are the grammar's own structure
						}
					}
				}
			}
		}
		sort.Slice(here, func(i, j int) bool { return here[i].Pos() < here[j].Pos() })
		out = append(out, here...)
		for _, n := range next {
			walk(n, d+1)
		}
	}
	walk(fn, 0)
	return out
}

func calleeFullName(f *ssa.Function) string {
	if f.Pkg == nil {
		return f.Name()
	}
	if f.Signature.Recv() != nil {
		return FnName(f)
	}
	return f.Pkg.Pkg.Path() + "." + f.Name()
}

// stringRangeSites returns the rune values of the range-over-string loops of fn.
func stringRangeSites(fn *ssa.Function) []ssa.Value {
	var out []ssa.Value
	for _, b := range fn.Blocks {
		for _, instr := range b.Instrs {
			if ex, ok := instr.(*ssa.Extract); ok && ex.Index == 2 {
				if nx, ok := ex.Tuple.(*ssa.Next); ok && nx.IsString {
					out = append(out, ex)
				}
			}
		}
	}
	sort.Slice(out, func(i, j int) bool { return out[i].Pos() < out[j].Pos() })
	return out
}

// CheckDomain evaluates the spec and reports one obligation.
func CheckDomain(p *Prog, r *Report, spec DomainSpec) DomainResult {
	var res DomainResult
	pos := p.Pos(spec.Fn.Pos())
	sizes := types.SizesFor("gc", "amd64")
	codeInts, codeStrs := moduleConsts(spec.Fn)
	cuts := append([]*big.Int{}, codeInts...)
	for _, c := range spec.Consts {
		cuts = append(cuts, big.NewInt(c))
	}
	args0 := defaultArgs(spec.Fn)
	for i, v := range spec.Args {
		args0[i] = v
	}

	// resolve the SSA values that stand for each subject
	bindSites := make([][]ssa.Value, len(spec.Subjs)) // bound in whole-function runs
	type region struct {
		site ssa.Value
		subj int
	}
	var regions []region
	regionSubj := -1
	for si, s := range spec.Subjs {
		switch s.Kind {
		case SElem:
			path := s.Path
			if path == "" {
				path = fmt.Sprintf("p%d", s.Param)
			}
			env := map[string]Val{}
			for k, v := range spec.Env {
				env[k] = v
			}
			if strings.Contains(path, ".") {
				env[path] = Val{K: KSlice, S: path, Len: -1}
			}
			for _, st := range elemSites(p, spec.Fn, args0, env, path) {
				regions = append(regions, region{st, si})
			}
			regionSubj = si
		case SRange:
			sites := stringRangeSites(spec.Fn)
			if s.Ord < len(sites) {
				regions = append(regions, region{sites[s.Ord], si})
			}
			regionSubj = si
		case SCall:
			cs := callSites(spec.Fn, s.Callee)
			if s.Ord >= len(cs) {
				r.unk(spec.Rule, spec.Key, pos, fmt.Sprintf("call #%d of %s not found in %s", s.Ord, s.Callee, FnName(spec.Fn)))
				return res
			}
			call := cs[s.Ord]
			if s.Index < 0 {
				bindSites[si] = []ssa.Value{call}
			} else if refs := call.Referrers(); refs != nil {
				for _, ref := range *refs {
					if ex, ok := ref.(*ssa.Extract); ok && ex.Index == s.Index {
						bindSites[si] = append(bindSites[si], ex)
					}
				}
			}
			if len(bindSites[si]) == 0 {
				r.unk(spec.Rule, spec.Key, pos, fmt.Sprintf("result %d of call #%d of %s is not used in %s", s.Index, s.Ord, s.Callee, FnName(spec.Fn)))
				return res
			}
		case SValue:
			bindSites[si] = s.Pick(spec.Fn)
			if len(bindSites[si]) == 0 {
				r.unk(spec.Rule, spec.Key, pos, "the value designated as "+s.Name+" was not found in "+FnName(spec.Fn))
				return res
			}
		}
	}
	if regionSubj >= 0 && len(regions) == 0 {
		r.unk(spec.Rule, spec.Key, pos, "no iteration over "+spec.Subjs[regionSubj].Name+" found in "+FnName(spec.Fn)+": the guard on the elements is missing or has a shape the rule does not recognise")
		return res
	}

	observed := map[string]*big.Int{}
	type evalOut struct {
		tuple    []Val
		survives bool
		sinks    map[string]bool // sink calls reached, each in the activation (call string) it was reached in
		opaque   []string
		stuck    []string
	}
	var outs []evalOut
	for iter := 0; iter < 4; iter++ {
		reps := make([][]Val, len(spec.Subjs))
		for si, s := range spec.Subjs {
			if !s.NoReps {
				switch {
				case isFloatType(s.Type):
					for _, f := range floatReps(s.Type) {
						reps[si] = append(reps[si], Val{K: KFloat, F: f, Dep: true})
					}
				case isStringType(s.Type):
					for _, str := range strReps(append(append([]string{}, codeStrs...), spec.Strs...)) {
						reps[si] = append(reps[si], Val{K: KStr, S: str, Dep: true})
					}
				case isIntType(s.Type):
					all := append([]*big.Int{}, cuts...)
					for _, o := range observed {
						all = append(all, o)
					}
					for _, i := range intReps(s.Type, all, sizes) {
						if s.NonNeg && (i.Sign() < 0 || i.BitLen() > 47) {
							// a length: never negative, and no object in a 48-bit
							// address space has more than 2^47 elements
							continue
						}
						reps[si] = append(reps[si], valOfType(s.Type, i))
					}
				default:
					if b, ok := s.Type.Underlying().(*types.Basic); ok && b.Info()&types.IsBoolean != 0 {
						reps[si] = []Val{{K: KBool, B: false, Dep: true}, {K: KBool, B: true, Dep: true}}
					}
				}
			}
			for _, e := range s.Extra {
				e.Dep = true
				reps[si] = append(reps[si], e)
			}
			if len(reps[si]) == 0 {
				r.unk(spec.Rule, spec.Key, pos, "no representatives for subject "+s.Name)
				return res
			}
		}
		outs = nil
		newCut := false
		tuple := make([]Val, len(spec.Subjs))
		var rec func(k int)
		rec = func(k int) {
			if k < len(spec.Subjs) {
				for _, v := range reps[k] {
					tuple[k] = v
					rec(k + 1)
				}
				return
			}
			eo := evalOut{tuple: append([]Val{}, tuple...), sinks: map[string]bool{}}
			mk := func() (*Interp, []Val) {
				in := NewInterp(p)
				in.CutSink = func(c *big.Int) {
					if _, ok := observed[c.String()]; !ok {
						observed[c.String()] = c
						newCut = true
					}
				}
				args := append([]Val{}, args0...)
				for kk, vv := range spec.Env {
					in.PathBind[kk] = vv
				}
				for kk, vv := range spec.Init {
					in.InitBind[kk] = vv
				}
				bound := map[ssa.Value]Val{}
				for si, s := range spec.Subjs {
					v := tuple[si]
					path := s.Path
					if path == "" && (s.Kind == SElem || s.Kind == SLen) {
						path = fmt.Sprintf("p%d", s.Param)
					}
					switch s.Kind {
					case SParam:
						args[s.Param] = v
					case SPath:
						in.PathBind[path] = v
					case SLen:
						if strings.Contains(path, ".") {
							in.PathBind[path] = Val{K: KSlice, S: path, Len: -1}
						}
						in.PathBind["len("+path+")"] = v
					case SElem:
						if strings.Contains(path, ".") && !isStringType(fieldTypeOfPath(spec.Fn, path)) {
							in.PathBind[path] = Val{K: KSlice, S: path, Len: -1}
						}
					case SCall, SValue:
						for _, site := range bindSites[si] {
							bound[site] = v
						}
					}
				}
				if len(bound) > 0 {
					in.Bind = func(v ssa.Value, fr *frame) (Val, bool) {
						b, ok := bound[v]
						return b, ok
					}
				}
				if spec.Bind != nil {
					spec.Bind(in)
				}
				if spec.PreBind != nil {
					spec.PreBind(in, tuple)
				}
				if spec.Sink != nil {
					// a diagnostic call is identified together with the activation
					// it sits in: the same errorf inside a shared helper is a
					// different diagnostic for each call of the helper
					in.Marks = map[string]bool{}
					prev := in.OnCall
					in.OnCall = func(call *ssa.Call, callee *ssa.Function, a []Val, fr *frame) {
						if spec.Sink(callee) {
							in.Marks[fmt.Sprintf("%s@%s:%d", fr.ctx, FnName(fr.fn), call.Pos())] = true
						}
						if prev != nil {
							prev(call, callee, a, fr)
						}
					}
				}
				return in, args
			}
			collectSinks := func(in *Interp) {
				if spec.Sink == nil {
					return
				}
				for k := range in.Marks {
					eo.sinks[k] = true
				}
			}
			if regionSubj < 0 {
				in, args := mk()
				out := in.Run(spec.Fn, args, nil)
				eo.survives = out.CanReturn
				if spec.Survive != nil {
					eo.survives = spec.Survive(out, in)
				}
				collectSinks(in)
				if in.OpaqueSubject {
					eo.opaque = in.OpaqueAt
				}
				eo.stuck = in.Stuck
			} else {
				eo.survives = true
				for _, rg := range regions {
					s := spec.Subjs[rg.subj]
					ev := tuple[rg.subj]
					if s.Dyn != nil {
						inner := ev
						ev = Val{K: KIface, T: s.Dyn, Inner: &inner, Dep: true}
					}
					site := rg.site
					in, args := mk()
					o1 := in.Run(spec.Fn, args, nil) // phase 1: whole function, element unbound
					outer := o1.Frame.Vals()
					prev := in.Bind
					in.Bind = func(v ssa.Value, fr *frame) (Val, bool) {
						if v == site {
							return ev, true
						}
						if prev != nil {
							return prev(v, fr)
						}
						return Val{}, false
					}
					in.OpaqueSubject, in.OpaqueAt = false, nil
					blk := site.(ssa.Instruction).Block()
					o2 := in.RunOuter(spec.Fn, args, blk, outer)
					ok := o2.CanReturn || o2.Frame.reentered
					if spec.Survive != nil {
						ok = spec.Survive(o2, in)
					}
					if !ok {
						eo.survives = false
					}
					collectSinks(in)
					if in.OpaqueSubject {
						eo.opaque = append(eo.opaque, in.OpaqueAt...)
					}
					eo.stuck = append(eo.stuck, in.Stuck...)
				}
			}
			outs = append(outs, eo)
		}
		rec(0)
		if !newCut {
			break
		}
	}
	// sink mode: a tuple is refused when it reaches a diagnostic not common to all tuples
	if spec.Sink != nil {
		common := map[string]int{}
		for _, eo := range outs {
			for s := range eo.sinks {
				common[s]++
			}
		}
		for i := range outs {
			outs[i].survives = true
			for s := range outs[i].sinks {
				if common[s] < len(outs) {
					outs[i].survives = false
				}
			}
		}
	}
	res.Tuples = len(outs)
	for _, eo := range outs {
		res.Stuck = append(res.Stuck, eo.stuck...)
		want := spec.Accept(eo.tuple)
		if eo.survives == want {
			continue
		}
		var parts []string
		for si, s := range spec.Subjs {
			parts = append(parts, s.Name+"="+eo.tuple[si].String())
		}
		verb, exp := "accepts", "must be refused"
		if !eo.survives {
			verb = "always refuses"
		}
		if want {
			exp = "must be accepted"
		}
		msg := fmt.Sprintf("%s: %s %s but %s (domain: %s)", strings.Join(parts, ", "), FnName(spec.Fn), verb, exp, spec.What)
		if len(eo.opaque) > 0 {
			res.Opaque = append(res.Opaque, msg+" [a guard on the subject could not be evaluated at "+strings.Join(uniq(eo.opaque), ",")+"]")
		} else {
			res.Mismatch = append(res.Mismatch, msg)
		}
	}
	res.Cuts = len(observed)
	detail := fmt.Sprintf("%s refuses exactly the complement of {%s}: %d representative tuples (cells cut by %d code constants, %d observed comparisons, %d spec constants) all agree",
		FnName(spec.Fn), spec.What, res.Tuples, len(codeInts), len(observed), len(spec.Consts))
	switch {
	case len(res.Stuck) > 0:
		r.unk(spec.Rule, spec.Key, pos, "evaluation got stuck at "+strings.Join(uniq(res.Stuck), ","))
	case len(res.Mismatch) > 0:
		r.bad(spec.Rule, spec.Key, pos, strings.Join(firstN(res.Mismatch, 4), "; "))
	case len(res.Opaque) > 0:
		r.unk(spec.Rule, spec.Key, pos, strings.Join(firstN(res.Opaque, 3), "; "))
	default:
		r.ok(spec.Rule, spec.Key, pos, detail)
	}
	return res
}

func fieldTypeOfPath(fn *ssa.Function, path string) types.Type {
	// path "p<i>.<field>"
	var idx int
	var field string
	if n, _ := fmt.Sscanf(strings.Replace(path, ".", " ", 1), "p%d %s", &idx, &field); n != 2 || idx >= len(fn.Params) {
		return types.Typ[types.Invalid]
	}
	st := derefStruct(fn.Params[idx].Type())
	if st == nil {
		return types.Typ[types.Invalid]
	}
	for i := 0; i < st.NumFields(); i++ {
		if st.Field(i).Name() == field {
			return st.Field(i).Type()
		}
	}
	return types.Typ[types.Invalid]
}

func uniq(s []string) []string {
	m := map[string]bool{}
	var out []string
	for _, x := range s {
		if !m[x] {
			m[x] = true
			out = append(out, x)
		}
	}
	sort.Strings(out)
	return out
}

func firstN(s []string, n int) []string {
	if len(s) > n {
		return append(append([]string{}, s[:n]...), fmt.Sprintf("(+%d more)", len(s)-n))
	}
	return s
}

// extraSizes: where a rule evaluates a function on inputs of a few small
// sizes (a bounded unrolling), the sizes must not stay below a constant the
// function itself compares or computes with - a guard such as i < 64 would
// otherwise never be seen from its other side. It returns, for every integer
// constant c of the function's own code with 2 <= c <= 110, the sizes c+1 and
// c+2 (at most eight values).
func extraSizes(fn *ssa.Function) []int {
	seen := map[int]bool{}
	var out []int
	for _, b := range fn.Blocks {
		for _, in := range b.Instrs {
			var ops []*ssa.Value
			for _, op := range in.Operands(ops) {
				if op == nil || *op == nil {
					continue
				}
				c, ok := (*op).(*ssa.Const)
				if !ok {
					continue
				}
				v := constVal(c)
				if v.K != KInt || !v.I.IsInt64() {
					continue
				}
				n := v.I.Int64()
				if n < 2 || n > 110 {
					continue
				}
				for _, s := range []int{int(n) + 1, int(n) + 2} {
					if !seen[s] {
						seen[s] = true
						out = append(out, s)
					}
				}
			}
		}
	}
	sort.Ints(out)
	if len(out) > 8 {
		out = out[len(out)-8:]
	}
	return out
}
