package main

import (
	"os"
	"fmt"
	"go/constant"
	"go/types"
	"sort"
	"strconv"
	"strings"
	"unicode"

	"golang.org/x/tools/go/ssa"
)

func isParserErrorf(f *ssa.Function) bool { return FnName(f) == "(*sml.parser).errorf" }
func isLexerErrorf(f *ssa.Function) bool  { return FnName(f) == "(*sml.lexer).errorf" }

// bindErrNil makes the error result of the given call evaluate to nil, so
// that a domain query looks at syntactically valid literals only.
func bindErrNil(fn *ssa.Function, callee string, ord int) func(in *Interp, tuple []Val) {
	return func(in *Interp, tuple []Val) {
		cs := callSites(fn, callee)
		if ord >= len(cs) {
			return
		}
		call := cs[ord]
		prev := in.Bind
		in.Bind = func(v ssa.Value, fr *frame) (Val, bool) {
			if ex, ok := v.(*ssa.Extract); ok && ex.Tuple == ssa.Value(call) && ex.Index == 1 {
				return Val{K: KNil}, true
			}
			if prev != nil {
				return prev(v, fr)
			}
			return Val{}, false
		}
	}
}

// R14-sml — the parser diagnoses exactly the literals outside the item's range.
func ruleDomainSML(p *Prog, r *Report) {
	const rule = "R14-sml"
	if fn := p.MustFunc(r, "sml", "(*parser).parseBinary"); fn != nil && len(callSites(fn, "strconv.ParseInt")) == 0 {
		literalByEvaluation(p, r, rule, rule+":sml.parseBinary:literal", fn, "NewBinaryNode", 0, 255)
	} else if fn != nil {
		CheckDomain(p, r, DomainSpec{Rule: rule, Key: rule + ":sml.parseBinary:literal", Fn: fn, Sink: isParserErrorf,
			Subjs:   []Subj{{Name: "binary literal", Kind: SCall, Callee: "strconv.ParseInt", Ord: 0, Index: 0, Type: types.Typ[types.Int64]}},
			PreBind: bindErrNil(fn, "strconv.ParseInt", 0),
			Consts:  []int64{0, 255, 256}, What: "0 <= literal <= 255",
			Accept: func(v []Val) bool { return inRange(v[0], 0, 255) }})
	}
	if fn := p.MustFunc(r, "sml", "(*parser).parseASCII"); fn != nil {
		if len(callSites(fn, "strconv.ParseUint")) == 0 {
			literalByEvaluation(p, r, rule, rule+":sml.parseASCII:code", fn, "NewASCIINode", 0, 127)
		} else {
			CheckDomain(p, r, DomainSpec{Rule: rule, Key: rule + ":sml.parseASCII:code", Fn: fn, Sink: isParserErrorf,
				Subjs:   []Subj{{Name: "ASCII character code", Kind: SCall, Callee: "strconv.ParseUint", Ord: 0, Index: 0, Type: types.Typ[types.Uint64]}},
				PreBind: bindErrNil(fn, "strconv.ParseUint", 0),
				Consts:  []int64{0, 127, 128, 255, 256, 321, 65535, 65536}, What: "code <= 127",
				Accept: func(v []Val) bool { return inRange(v[0], 0, 127) }})
		}
		if len(stringRangeSites(fn)) == 0 {
			quotedRuneByEvaluation(p, r, rule, fn)
		} else {
			CheckDomain(p, r, DomainSpec{Rule: rule, Key: rule + ":sml.parseASCII:quoted-rune", Fn: fn, Sink: isParserErrorf,
				Subjs:  []Subj{{Name: "rune of a quoted string", Kind: SRange, Ord: 0, Type: types.Typ[types.Rune]}},
				Consts: []int64{0, 127, 128, 255, 256, 0xFFFD}, What: "rune <= 127",
				Accept: func(v []Val) bool { return v[0].K == KInt && v[0].I.Cmp(newBig(127)) <= 0 }})
		}
	}
	if fn := p.MustFunc(r, "sml", "(*parser).parseStreamFunctionCode"); fn != nil && streamFunctionByEvaluation(p, r, rule, fn) {
		// decided by evaluation
	} else if fn != nil {
		CheckDomain(p, r, DomainSpec{Rule: rule, Key: rule + ":sml.parseStreamFunctionCode:stream", Fn: fn, Sink: isParserErrorf,
			Subjs:  []Subj{{Name: "stream code", Kind: SCall, Callee: "strconv.Atoi", Ord: 0, Index: 0, Type: typInt}},
			Consts: []int64{0, 127, 128}, What: "0 <= stream <= 127",
			Accept: func(v []Val) bool { return inRange(v[0], 0, 127) }})
		CheckDomain(p, r, DomainSpec{Rule: rule, Key: rule + ":sml.parseStreamFunctionCode:function", Fn: fn, Sink: isParserErrorf,
			Subjs:  []Subj{{Name: "function code", Kind: SCall, Callee: "strconv.Atoi", Ord: 1, Index: 0, Type: typInt}},
			Consts: []int64{0, 255, 256}, What: "0 <= function <= 255",
			Accept: func(v []Val) bool { return inRange(v[0], 0, 255) }})
	}
	// a number must not be followed by a letter, digit or underscore
	if fn := p.MustFunc(r, "sml", "lexNumber"); fn != nil {
		cls := []int64{-1, ' ', '0', '9', 'A', 'F', 'Z', '_', 'a', 'b', 'f', 'o', 'x', 'z', '>', '.', 0xAA, 0xB5, 0xC0, 0xD7, 0xF7, 0x2B0, 0x660, 0x669, 0x6F0, 0x966, 0x4E00, 0xFF10}
		// by evaluation first: the number "1e5" (nothing of the number syntax can
		// follow its exponent digits but more digits) followed by each class
		// representative and by every ASCII character
		ttErr, okE := smlConst(p, "tokenTypeError")
		key := rule + ":sml.lexNumber:terminator"
		evaluated := okE
		var wrong []string
		reps := append([]int64{}, cls...)
		for c := int64(0); c < 128; c++ {
			reps = append(reps, c)
		}
		for _, c := range reps {
			if !evaluated {
				break
			}
			if c >= '0' && c <= '9' {
				continue
			}
			text := "1e5"
			if c >= 0 {
				text += string(rune(c)) + " "
			}
			res, ok := lexRun(p, fn, text, 0, "lexMessageText")
			if !ok || len(res.toks) != 1 {
				evaluated = false
				break
			}
			refuse := c >= 0 && (c == '_' || unicode.IsLetter(rune(c)) || unicode.IsDigit(rune(c)))
			isErr := res.toks[0].typ == ttErr
			switch {
			case refuse && !isErr:
				wrong = append(wrong, fmt.Sprintf("a number followed by %#U is accepted (token %q)", rune(c), res.toks[0].val))
			case !refuse && isErr:
				wrong = append(wrong, fmt.Sprintf("a number followed by %#U is refused (%s)", rune(c), res.toks[0].val))
			case !refuse && res.toks[0].val != "1e5":
				wrong = append(wrong, fmt.Sprintf("the number 1e5 followed by %#U is read as %q", rune(c), res.toks[0].val))
			}
		}
		if evaluated {
			if len(wrong) > 0 {
				r.bad(rule, key, p.Pos(fn.Pos()), strings.Join(firstN(uniq(wrong), 4), "; "))
			} else {
				r.ok(rule, key, p.Pos(fn.Pos()), fmt.Sprintf("evaluated on %d following characters (all ASCII and representatives of the Unicode letter and digit classes): a number is refused exactly when a letter, digit or underscore follows it", len(reps)))
			}
		} else {
			CheckDomain(p, r, DomainSpec{Rule: rule, Key: rule + ":sml.lexNumber:terminator", Fn: fn, Sink: isLexerErrorf,
				Subjs:  []Subj{{Name: "rune after the number", Kind: SCall, Callee: "(*sml.lexer).peek", Ord: 0, Index: -1, Type: types.Typ[types.Rune]}},
				Consts: cls, What: "the rune after a number is not a letter, digit or underscore",
				Accept: func(v []Val) bool {
					c := rune(v[0].I.Int64())
					return !(c == '_' || unicode.IsLetter(c) || unicode.IsDigit(c))
				}})
		}
	}
	ellipsisNumbering(p, r, rule)
	r.Floor(rule, 6)
}

// ellipsisNumbering: the parser numbers the ellipses of a message in the order
// they appear in the text ("...[0]" is the first ellipsis token), also when a
// list with an ellipsis of its own follows the ellipsis of the enclosing list.
// The item lexer and the item parser are evaluated on such texts; the strings
// handed to NewListNode are compared with the order of appearance.
func ellipsisNumbering(p *Prog, r *Report, rule string) {
	key := rule + ":sml.parseList:ellipsis-numbering"
	fn := p.Func("sml", "(*parser).parseDataItem")
	if fn == nil {
		r.unk(rule, key, "", "(*parser).parseDataItem not found")
		return
	}
	pos := p.Pos(fn.Pos())
	type want struct{ outer, inner string }
	cases := []struct {
		text string
		// the ellipsis string each NewListNode call must receive, in call order
		// (inner lists are built before the list that holds them)
		lists []string
	}{
		{`<L <A x> ... <L <A y> ...>>`, []string{"...[1]", "...[0]"}},
		{`<L <L <A y> ...> <A x> ...>`, []string{"...[0]", "...[1]"}},
		{`<L <A v1> ... <L <A v2> ... <L <A v3> ...>>>`, []string{"...[2]", "...[1]", "...[0]"}},
	}
	var bad, undec []string
	for _, c := range cases {
		toks, ok := lexAll(p, "lexMessageText", c.text+" .", 200)
		if !ok {
			undec = append(undec, fmt.Sprintf("the text %q could not be lexed by evaluation", c.text))
			continue
		}
		obs, diags, ok := parseRun(p, fn, toks, 4)
		if !ok {
			undec = append(undec, fmt.Sprintf("the item parser could not be evaluated on %q", c.text))
			continue
		}
		var got []string
		for _, o := range obs {
			if o.factory != "NewListNode" {
				continue
			}
			e := "-"
			for _, v := range o.elems {
				if v.K == KIface && v.Inner != nil && v.Inner.K == KStr && strings.HasPrefix(v.Inner.S, "...") {
					e = v.Inner.S
				}
			}
			got = append(got, e)
		}
		if len(diags) > 0 {
			bad = append(bad, fmt.Sprintf("%s is diagnosed: %v", c.text, diags))
		} else if strings.Join(got, " ") != strings.Join(c.lists, " ") {
			bad = append(bad, fmt.Sprintf("in %s the lists are built (innermost first) with the ellipses %v, expected %v: an ellipsis must be numbered by its place in the text", c.text, got, c.lists))
		}
	}
	switch {
	case len(bad) > 0:
		r.bad(rule, key, pos, strings.Join(firstN(bad, 2), "; "))
	case len(undec) > 0:
		r.unk(rule, key, pos, strings.Join(firstN(undec, 2), "; "))
	default:
		r.ok(rule, key, pos, fmt.Sprintf("the lexer and the item parser evaluated on %d nested lists with two and three ellipses: every ellipsis is numbered by its place in the text, whether the nested list comes before or after the enclosing list's ellipsis", len(cases)))
	}
}

func smlConst(p *Prog, name string) (int64, bool) {
	obj := p.Pkgs["sml"].Types.Scope().Lookup(name)
	c, ok := obj.(*types.Const)
	if !ok {
		return 0, false
	}
	v, ok := constant.Int64Val(c.Val())
	return v, ok
}

// R1e-sml — the SML type keywords are dispatched to the factory and element
// width of the same item format, numbers are read with that width, and the
// lexer classifies exactly the 14 keywords (and T/F) as such.
func ruleSMLTables(p *Prog, r *Report) {
	const rule = "R1e-sml"
	fn := p.MustFunc(r, "sml", "(*parser).parseDataItem")
	ttType, ok1 := smlConst(p, "tokenTypeDataItemType")
	ttBool, ok2 := smlConst(p, "tokenTypeBool")
	ttVar, ok3 := smlConst(p, "tokenTypeVariable")
	if !ok1 || !ok2 || !ok3 {
		r.unk(rule, "anchor:sml.tokenType constants", "", "tokenTypeDataItemType/Bool/Variable not found")
		return
	}
	if fn != nil {
		accept := p.Func("sml", "(*parser).accept")
		pick := func(f *ssa.Function) []ssa.Value {
			var out []ssa.Value
			for _, b := range f.Blocks {
				for _, instr := range b.Instrs {
					fld, ok := instr.(*ssa.Field)
					if !ok {
						continue
					}
					st, ok := fld.X.Type().Underlying().(*types.Struct)
					if !ok || st.Field(fld.Field).Name() != "val" {
						continue
					}
					ex, ok := fld.X.(*ssa.Extract)
					if !ok {
						continue
					}
					call, ok := ex.Tuple.(*ssa.Call)
					if !ok || call.Common().StaticCallee() != accept || len(call.Common().Args) < 2 {
						continue
					}
					if c, ok := call.Common().Args[1].(*ssa.Const); ok {
						if v := constVal(c); v.K == KInt && v.I.Int64() == ttType {
							out = append(out, fld)
						}
					}
				}
			}
			// the token is usually copied into a local first: t := accept(...); t.val
			for _, b := range f.Blocks {
				for _, instr := range b.Instrs {
					st, ok := instr.(*ssa.Store)
					if !ok {
						continue
					}
					ex, ok := st.Val.(*ssa.Extract)
					if !ok {
						continue
					}
					call, ok := ex.Tuple.(*ssa.Call)
					if !ok || call.Common().StaticCallee() != accept || len(call.Common().Args) < 2 {
						continue
					}
					c, ok := call.Common().Args[1].(*ssa.Const)
					if !ok {
						continue
					}
					if v := constVal(c); v.K != KInt || v.I.Int64() != ttType {
						continue
					}
					// loads of <local>.val
					for _, b2 := range f.Blocks {
						for _, i2 := range b2.Instrs {
							ld, ok := i2.(*ssa.UnOp)
							if !ok {
								continue
							}
							fa, ok := ld.X.(*ssa.FieldAddr)
							if !ok || fa.X != st.Addr {
								continue
							}
							if fv := fieldOf(fa); fv != nil && fv.Name() == "val" {
								out = append(out, ld)
							}
						}
					}
				}
			}
			return out
		}
		sites := pick(fn)
		if len(sites) == 0 {
			r.unk(rule, rule+":sml.parseDataItem:keyword", p.Pos(fn.Pos()), "the data item type token's value was not found in parseDataItem")
		} else {
			words := []string{}
			for _, f := range e5Formats {
				words = append(words, f.SML)
			}
			words = append(words, "X", "", "I3", "U", "BOOL", "F2", "LIST", "l", "a", "i2")
			var bad []string
			// through the parser harness first: '<', the type token with this
			// text, '>' handed to the item parser
			viaHarness := true
			for _, w := range words {
				calls, ok := keywordCalls(p, w)
				if !ok {
					viaHarness = false
					bad = nil
					break
				}
				got := map[string]bool{}
				for _, c := range calls {
					if !strings.HasPrefix(c.callee, "ast.") || c.callee == "ast.NewEmptyItemNode" {
						continue
					}
					bs := int64(0)
					if strings.HasSuffix(c.callee, "NewIntNode") || strings.HasSuffix(c.callee, "NewUintNode") || strings.HasSuffix(c.callee, "NewFloatNode") {
						bs = -1
						if len(c.args) > 0 && c.args[0].K == KInt {
							bs = c.args[0].I.Int64()
						}
					}
					got[fmt.Sprintf("%s/%d", strings.TrimPrefix(c.callee, "ast."), bs)] = true
				}
				var gl, want []string
				for g := range got {
					gl = append(gl, g)
				}
				sort.Strings(gl)
				for _, f := range e5Formats {
					if f.SML == w {
						want = append(want, fmt.Sprintf("%s/%d", f.Factory, f.ByteSz))
					}
				}
				if strings.Join(gl, ",") != strings.Join(want, ",") {
					bad = append(bad, fmt.Sprintf("an item of type %q builds %v, expected %v", w, gl, want))
				}
			}
			if viaHarness {
				key := rule + ":sml.parseDataItem:keyword->factory"
				if len(bad) > 0 {
					r.bad(rule, key, p.Pos(fn.Pos()), strings.Join(firstN(bad, 4), "; "))
				} else {
					r.ok(rule, key, p.Pos(fn.Pos()), "the item parser evaluated on '<', a type token, '>' for the 14 keywords and 10 other words: each keyword reaches exactly the factory and element width of its item format; other words reach none")
				}
				words = nil
			}
			for _, w := range words {
				in := NewInterp(p)
				in.Bind = func(v ssa.Value, fr *frame) (Val, bool) {
					for _, s := range sites {
						if v == s {
							return strVal(w), true
						}
					}
					return Val{}, false
				}
				got := map[string]bool{}
				in.OnCall = func(call *ssa.Call, callee *ssa.Function, args []Val, fr *frame) {
					if !isFactory(callee) {
						return
					}
					bs := int64(0)
					if len(callee.Params) > 0 && callee.Params[0].Name() == "byteSize" {
						bs = -1
						if len(args) > 0 && args[0].K == KInt {
							bs = args[0].I.Int64()
						}
					}
					got[fmt.Sprintf("%s/%d", callee.Name(), bs)] = true
				}
				in.Run(fn, defaultArgs(fn), nil)
				var gl []string
				for g := range got {
					gl = append(gl, g)
				}
				sort.Strings(gl)
				var want []string
				for _, f := range e5Formats {
					if f.SML == w {
						want = append(want, fmt.Sprintf("%s/%d", f.Factory, f.ByteSz))
						if w == "A" {
							want = append(want, "NewASCIINodeVariable/0")
						}
					}
				}
				sort.Strings(want)
				if strings.Join(gl, ",") != strings.Join(want, ",") {
					bad = append(bad, fmt.Sprintf("keyword %q builds %v, expected %v", w, gl, want))
				}
			}
			key := rule + ":sml.parseDataItem:keyword->factory"
			if viaHarness {
				// reported above
			} else if len(bad) > 0 {
				r.bad(rule, key, p.Pos(fn.Pos()), strings.Join(firstN(bad, 4), "; "))
			} else {
				r.ok(rule, key, p.Pos(fn.Pos()), "each of the 14 keywords reaches exactly the factory and element width of its item format; other words reach none")
			}
		}
	}
	// bitSize handed to strconv == 8 * element width; base 0
	for _, h := range []struct {
		fn, callee string
		widths     []int64
		bitArg     int
	}{{"parseInt", "ParseInt", []int64{1, 2, 4, 8}, 2}, {"parseUint", "ParseUint", []int64{1, 2, 4, 8}, 2}, {"parseFloat", "ParseFloat", []int64{4, 8}, 1}} {
		if p.Func("sml", "(*parser)."+h.fn) == nil {
			// the per-type parser has another name or shape (merged, split):
			// decide from the dispatcher, keyword by keyword
			bitSizeFromDispatcher(p, r, rule, h.fn, h.callee, h.widths, h.bitArg)
			continue
		}
		f := p.MustFunc(r, "sml", "(*parser)."+h.fn)
		if f == nil {
			continue
		}
		bi := paramIndex(f, "byteSize")
		for _, k := range h.widths {
			key := fmt.Sprintf("%s:sml.%s:bitSize:width=%d", rule, h.fn, k)
			if bi < 0 {
				r.unk(rule, key, p.Pos(f.Pos()), "parameter byteSize not found")
				continue
			}
			in := NewInterp(p)
			args := defaultArgs(f)
			args[bi] = int64Val(k)
			var probs []string
			seen, facSeen := false, false
			in.OnCall = func(call *ssa.Call, callee *ssa.Function, a []Val, fr *frame) {
				if !withinFn(fr.fn, f) { // f itself or a function literal of f (a conversion closure handed to a shared loop)
					return
				}
				if callee.Pkg != nil && callee.Pkg.Pkg.Path() == "strconv" && callee.Name() == h.callee {
					seen = true
					if !(a[h.bitArg].K == KInt && a[h.bitArg].I.Int64() == 8*k) {
						probs = append(probs, fmt.Sprintf("strconv.%s is called with bitSize %s for a %d-byte item (must be %d)", h.callee, a[h.bitArg], k, 8*k))
					}
					if h.bitArg == 2 && !(a[1].K == KInt && a[1].I.Sign() == 0) {
						probs = append(probs, fmt.Sprintf("strconv.%s is called with base %s: the 0x/0b/0o prefixes require base 0", h.callee, a[1]))
					}
				}
				if isFactory(callee) {
					facSeen = true
					if !(len(a) > 0 && a[0].K == KInt && a[0].I.Int64() == k) {
						probs = append(probs, fmt.Sprintf("%s is called with byteSize %s for a %d-byte item", callee.Name(), a[0], k))
					}
				}
			}
			in.Run(f, args, nil)
			switch {
			case !seen || !facSeen:
				// the conversion or the factory call sits where this run does not
				// see it (a helper, a closure run by a shared loop): decide from the
				// dispatcher for the keyword of this width
				bitSizeFromDispatcher(p, r, rule, h.fn, h.callee, []int64{k}, h.bitArg)
			case len(probs) > 0:
				r.bad(rule, key, p.Pos(f.Pos()), strings.Join(uniq(probs), "; "))
			default:
				r.ok(rule, key, p.Pos(f.Pos()), fmt.Sprintf("numbers are read with bitSize %d and the node is built with byteSize %d", 8*k, k))
			}
		}
	}
	// wrappers parseInt1 ... parseFloat8 pass their own width
	for _, f := range e5Formats {
		if f.ByteSz == 0 {
			continue
		}
		name := map[string]string{"IntNode": "parseInt", "UintNode": "parseUint", "FloatNode": "parseFloat"}[f.Node]
		_ = name
	}
	// lexer: which words are keywords
	if lf := p.MustFunc(r, "sml", "lexMessageText"); lf != nil {
		cs := callSites(lf, "strings.ToUpper")
		key := rule + ":sml.lexMessageText:keyword-class"
		if len(cs) == 0 {
			r.unk(rule, key, p.Pos(lf.Pos()), "no strings.ToUpper call found: the case-insensitive keyword classification has another shape")
		} else {
			site := cs[0]
			words := []string{"L", "A", "B", "BOOLEAN", "F4", "F8", "I1", "I2", "I4", "I8", "U1", "U2", "U4", "U8", "T", "F",
				"X", "I3", "U", "BOOL", "F2", "LIST", "TRUE", "FALSE", "W", "E", "H", "S1F1", "ABC_1"}
			type em struct {
				method string
				typ    int64
			}
			per := map[string]map[em]bool{}
			for _, w := range words {
				in := NewInterp(p)
				in.Bind = func(v ssa.Value, fr *frame) (Val, bool) {
					if v == ssa.Value(site) {
						return strVal(w), true
					}
					return Val{}, false
				}
				got := map[em]bool{}
				in.OnCall = func(call *ssa.Call, callee *ssa.Function, a []Val, fr *frame) {
					if fr.fn != lf || !strings.HasPrefix(callee.Name(), "emit") || len(a) < 2 || a[1].K != KInt {
						return
					}
					got[em{callee.Name(), a[1].I.Int64()}] = true
				}
				in.Run(lf, defaultArgs(lf), nil)
				per[w] = got
			}
			common := map[em]int{}
			for _, g := range per {
				for e := range g {
					common[e]++
				}
			}
			var bad []string
			for _, w := range words {
				var vary []string
				for e := range per[w] {
					if common[e] < len(words) {
						vary = append(vary, fmt.Sprintf("%s(%d)", e.method, e.typ))
					}
				}
				sort.Strings(vary)
				want := fmt.Sprintf("emit(%d)", ttVar)
				for _, f := range e5Formats {
					if f.SML == w {
						want = fmt.Sprintf("emitUppercase(%d)", ttType)
					}
				}
				if w == "T" || w == "F" {
					want = fmt.Sprintf("emitUppercase(%d)", ttBool)
				}
				if strings.Join(vary, ",") != want {
					bad = append(bad, fmt.Sprintf("word %q is emitted as %v, expected %s", w, vary, want))
				}
			}
			if len(bad) > 0 {
				r.bad(rule, key, p.Pos(lf.Pos()), strings.Join(firstN(bad, 4), "; "))
			} else {
				r.ok(rule, key, p.Pos(lf.Pos()), "exactly the 14 type keywords are emitted upper-cased as item types, T and F as booleans, every other word as a variable")
			}
		}
	}
	r.Floor(rule, 12)
}

// quotedRuneByEvaluation decides the quoted-rune obligation when parseASCII
// does not walk the string in a loop of its own (it may use strings.IndexFunc
// or a helper): the token list is bound to a single quoted string holding one
// rune - a representative of each cell cut out by 127/128 and the constants of
// the code - and the parser must report exactly the runes above 127, and hand
// the others to the node unchanged.
func quotedRuneByEvaluation(p *Prog, r *Report, rule string, fn *ssa.Function) {
	key := rule + ":sml.parseASCII:quoted-rune"
	pos := p.Pos(fn.Pos())
	ttQ, ok := smlConst(p, "tokenTypeQuotedString")
	toksCalls := callSites(fn, "(*sml.parser).getDataItemValueTokens")
	if !ok || len(toksCalls) != 1 {
		r.unk(rule, key, pos, "neither a loop over the runes of a quoted string nor a single call of getDataItemValueTokens found in parseASCII")
		return
	}
	reps := []rune{0, 1, 31, 32, 'a', '~', 126, 127, 128, 129, 255, 256, 0x7FF, 0x800, 0xFFFD, 0x10000, 0x10FFFF}
	var bad, undec []string
	for _, c := range reps {
		in := NewInterp(p)
		in.PathBind["toks[0].typ"] = int64Val(ttQ)
		in.PathBind["toks[0].val"] = strVal(`"` + string(c) + `"`)
		in.Bind = func(v ssa.Value, fr *frame) (Val, bool) {
			if v == ssa.Value(toksCalls[0]) {
				return Val{K: KSlice, S: "toks", Len: 1}, true
			}
			return Val{}, false
		}
		refused := false
		var built *Val
		in.OnCall = func(call *ssa.Call, callee *ssa.Function, a []Val, fr *frame) {
			if isParserErrorf(callee) {
				refused = true
			}
			if callee.Name() == "NewASCIINode" && fr.fn == fn && len(a) == 1 {
				v := a[0]
				built = &v
			}
		}
		in.Run(fn, defaultArgs(fn), nil)
		what := fmt.Sprintf("%#U", c)
		if len(in.Stuck) > 0 || in.OpaqueSubject {
			undec = append(undec, what+": evaluation stuck")
			continue
		}
		switch {
		case c > 127 && !refused:
			bad = append(bad, what+" inside a quoted string is accepted without a diagnostic")
		case c <= 127 && refused:
			bad = append(bad, what+" inside a quoted string is reported as an error")
		case c <= 127 && (built == nil || built.K != KStr):
			undec = append(undec, what+": the string handed to NewASCIINode could not be determined")
		case c <= 127 && built.S != string(c):
			bad = append(bad, fmt.Sprintf("the quoted string %q reaches the node as %q", string(c), built.S))
		}
	}
	switch {
	case len(bad) > 0:
		r.bad(rule, key, pos, strings.Join(firstN(bad, 4), "; "))
	case len(undec) > 0:
		r.unk(rule, key, pos, strings.Join(firstN(undec, 4), "; "))
	default:
		r.ok(rule, key, pos, fmt.Sprintf("evaluated on a quoted string of one rune for %d representatives around 127/128 and the UTF-8 length boundaries: exactly the runes above 127 are reported, every other rune reaches the node unchanged", len(reps)))
	}
}

// literalByEvaluation decides a number-literal obligation when the item parser
// does not call strconv itself (the conversion may sit in a helper): the token
// list is bound to one number token whose text denotes a representative of
// each cell around the bounds (in decimal, hexadecimal and with a sign), and
// the parser must report exactly the values outside [lo, hi] and hand the
// others to the factory unchanged.
func literalByEvaluation(p *Prog, r *Report, rule, key string, fn *ssa.Function, factory string, lo, hi int64) {
	pos := p.Pos(fn.Pos())
	if literalThroughItem(p, r, rule, key, pos, factory, lo, hi) {
		return
	}
	ttN, ok := smlConst(p, "tokenTypeNumber")
	toksCalls := callSites(fn, "(*sml.parser).getDataItemValueTokens")
	if !ok || len(toksCalls) != 1 {
		r.unk(rule, key, pos, "neither a direct strconv call nor a single call of getDataItemValueTokens found in "+FnName(fn))
		return
	}
	type lit struct {
		text string
		val  int64
	}
	var lits []lit
	for _, v := range []int64{lo - 65536, lo - 256, lo - 2, lo - 1, lo, lo + 1, (lo + hi) / 2, hi - 1, hi, hi + 1, hi + 2, 255, 256, 257, 321, hi + 256, 65535, 65536, 65536 + hi, 1 << 31, 1 << 32, (1 << 32) + hi} {
		lits = append(lits, lit{strconv.FormatInt(v, 10), v})
		if v >= 0 {
			lits = append(lits, lit{"0x" + strconv.FormatInt(v, 16), v})
			if factory != "NewASCIINode" { // a character code is an unsigned literal: no sign
				lits = append(lits, lit{"+" + strconv.FormatInt(v, 10), v})
			}
		}
	}
	var bad, undec []string
	for _, l := range lits {
		in := NewInterp(p)
		in.PathBind["toks[0].typ"] = int64Val(ttN)
		in.PathBind["toks[0].val"] = strVal(l.text)
		in.Bind = func(v ssa.Value, fr *frame) (Val, bool) {
			if v == ssa.Value(toksCalls[0]) {
				return Val{K: KSlice, S: "toks", Len: 1}, true
			}
			return Val{}, false
		}
		refused := false
		var built *Val
		in.OnCall = func(call *ssa.Call, callee *ssa.Function, a []Val, fr *frame) {
			if isParserErrorf(callee) {
				refused = true
			}
			if callee.Name() == factory && fr.fn == fn && len(a) >= 1 {
				arg := a[len(a)-1]
				if arg.K == KSlice && arg.Len == 1 {
					e := in.Elem(arg, 0, types.NewInterfaceType(nil, nil))
					if e.K == KIface && e.Inner != nil {
						e = *e.Inner
					}
					built = &e
				} else {
					built = &arg
				}
			}
		}
		in.Run(fn, defaultArgs(fn), nil)
		if len(in.Stuck) > 0 || in.OpaqueSubject {
			undec = append(undec, l.text+": evaluation stuck")
			continue
		}
		inside := l.val >= lo && l.val <= hi
		switch {
		case !inside && !refused:
			bad = append(bad, fmt.Sprintf("the literal %s (outside [%d, %d]) is accepted without a diagnostic", l.text, lo, hi))
		case inside && refused:
			bad = append(bad, fmt.Sprintf("the literal %s (inside [%d, %d]) is reported as an error", l.text, lo, hi))
		case inside && built == nil:
			undec = append(undec, l.text+": what reaches "+factory+" could not be determined")
		case inside && built.K == KStr && built.S != string(rune(l.val)):
			bad = append(bad, fmt.Sprintf("the literal %s reaches %s as %q", l.text, factory, built.S))
		case inside && built.K == KInt && built.I.Int64() != l.val:
			bad = append(bad, fmt.Sprintf("the literal %s reaches %s as %s", l.text, factory, built))
		case inside && built.K != KStr && built.K != KInt:
			undec = append(undec, l.text+": what reaches "+factory+" could not be determined ("+built.String()+")")
		}
	}
	switch {
	case len(bad) > 0:
		r.bad(rule, key, pos, strings.Join(firstN(bad, 4), "; "))
	case len(undec) > 0:
		r.unk(rule, key, pos, strings.Join(firstN(undec, 4), "; "))
	default:
		r.ok(rule, key, pos, fmt.Sprintf("evaluated on %d number tokens around the bounds and the byte/word boundaries, in decimal, hexadecimal and signed notation: exactly the values outside [%d, %d] are reported, the others reach %s unchanged", len(lits), lo, hi, factory))
	}
}

// kwCall is a call observed while the item dispatcher is evaluated for one keyword.
type kwCall struct {
	callee string // "strconv.ParseInt", "ast.NewIntNode", ...
	args   []Val
	in     string // the function the call stands in
}

// keywordCalls evaluates (*parser).parseDataItem with the accepted item-type
// token bound to the keyword and everything else unknown, and lists the
// strconv and factory calls reached below it - wherever the per-type parsing
// code lives. ok is false when the dispatcher or its token cannot be bound.
func keywordCalls(p *Prog, keyword string) (calls []kwCall, ok bool) {
	fn := p.Func("sml", "(*parser).parseDataItem")
	accept := p.Func("sml", "(*parser).accept")
	ttType, ok1 := smlConst(p, "tokenTypeDataItemType")
	if fn == nil || accept == nil || !ok1 {
		return nil, false
	}
	// first through the parser harness: the tokens '<', the item-type token
	// with this text, one number, '>' handed to the item parser
	if ttL, okL := smlConst(p, "tokenTypeLeftAngleBracket"); okL {
		ttR, okR := smlConst(p, "tokenTypeRightAngleBracket")
		ttN, okN := smlConst(p, "tokenTypeNumber")
		ttE, okE := smlConst(p, "tokenTypeEOF")
		if okR && okN && okE {
			toks := []lexTok{{typ: ttL, val: "<", line: 1, col: 1}, {typ: ttType, val: keyword, line: 1, col: 2}}
			numeric := len(keyword) == 2 && strings.ContainsAny(keyword[:1], "IUF") && strings.ContainsAny(keyword[1:], "1248")
			if numeric {
				toks = append(toks, lexTok{typ: ttN, val: "1", line: 1, col: 5})
			}
			toks = append(toks, lexTok{typ: ttR, val: ">", line: 1, col: 7}, lexTok{typ: ttE, val: "", line: 1, col: 8})
			if obs, dg, okRun := parseRun(p, fn, toks, 2); okRun {
				if dk := os.Getenv("SC_DEBUG_KW"); dk != "" && dk == keyword {
					fmt.Fprintf(os.Stderr, "keyword %q: diags=%q obs=%d\n", keyword, dg, len(obs))
					for _, o := range obs {
						fmt.Fprintf(os.Stderr, "   %s %v\n", o.factory, o.args)
					}
				}
				for _, o := range obs {
					name := o.factory
					if !strings.HasPrefix(name, "strconv.") {
						name = "ast." + name
					}
					calls = append(calls, kwCall{name, o.args, ""})
				}
				return calls, true
			}
		}
	}
	in := NewInterp(p)
	bound := false
	tok := Val{K: KAgg, S: "typetok", Agg: map[string]cell{".typ": {V: int64Val(ttType)}, ".val": {V: strVal(keyword)}}}
	in.Bind = func(v ssa.Value, fr *frame) (Val, bool) {
		c, isCall := v.(*ssa.Call)
		if !isCall || c.Common().StaticCallee() != accept || len(c.Common().Args) < 2 {
			return Val{}, false
		}
		if k, isConst := c.Common().Args[1].(*ssa.Const); isConst {
			if cv := constVal(k); cv.K == KInt && cv.I.Int64() == ttType {
				bound = true
				return Val{K: KTuple, Elems: []Val{tok, boolVal(true)}}, true
			}
		}
		return Val{}, false
	}
	in.OnCall = func(call *ssa.Call, callee *ssa.Function, a []Val, fr *frame) {
		if callee.Pkg == nil {
			return
		}
		switch {
		case callee.Pkg.Pkg.Path() == "strconv" && (strings.HasPrefix(callee.Name(), "Parse") || callee.Name() == "Atoi"):
			calls = append(calls, kwCall{"strconv." + callee.Name(), append([]Val{}, a...), fr.fn.Name()})
		case isFactory(callee):
			calls = append(calls, kwCall{"ast." + callee.Name(), append([]Val{}, a...), fr.fn.Name()})
		}
	}
	in.Run(fn, defaultArgs(fn), nil)
	if !bound || len(in.Stuck) > 0 {
		return nil, false
	}
	return calls, true
}

// bitSizeFromDispatcher decides the bitSize obligations of one numeric family
// (I, U or F) from the calls the dispatcher reaches for each of its keywords.
func bitSizeFromDispatcher(p *Prog, r *Report, rule, family, callee string, widths []int64, bitArg int) {
	prefix := map[string]string{"parseInt": "I", "parseUint": "U", "parseFloat": "F"}[family]
	pos := ""
	if fn := p.Func("sml", "(*parser).parseDataItem"); fn != nil {
		pos = p.Pos(fn.Pos())
	}
	for _, k := range widths {
		key := fmt.Sprintf("%s:sml.%s:bitSize:width=%d", rule, family, k)
		calls, ok := keywordCalls(p, fmt.Sprintf("%s%d", prefix, k))
		if !ok {
			r.unk(rule, key, pos, "neither (*parser)."+family+" nor an evaluable dispatcher (*parser).parseDataItem found")
			continue
		}
		var probs []string
		seen, facSeen := false, false
		for _, c := range calls {
			switch {
			case c.in == "parseDataItemSize":
			case c.callee == "strconv."+callee:
				seen = true
				a := c.args
				if !(len(a) > bitArg && a[bitArg].K == KInt && a[bitArg].I.Int64() == 8*k) {
					probs = append(probs, fmt.Sprintf("strconv.%s is called with bitSize %s for a %d-byte item (must be %d)", callee, a[bitArg], k, 8*k))
				}
				if bitArg == 2 && !(a[1].K == KInt && a[1].I.Sign() == 0) {
					probs = append(probs, fmt.Sprintf("strconv.%s is called with base %s: the 0x/0b/0o prefixes require base 0", callee, a[1]))
				}
			case strings.HasPrefix(c.callee, "ast."):
				facSeen = true
				if !(len(c.args) > 0 && c.args[0].K == KInt && c.args[0].I.Int64() == k) && c.callee != "ast.NewEmptyItemNode" {
					probs = append(probs, fmt.Sprintf("%s is called with byteSize %s for a %d-byte item", c.callee, c.args[0], k))
				}
			}
		}
		switch {
		case !seen || !facSeen:
			r.unk(rule, key, pos, "the strconv call or the factory call was not reached from the dispatcher")
		case len(probs) > 0:
			r.bad(rule, key, pos, strings.Join(uniq(probs), "; "))
		default:
			r.ok(rule, key, pos, fmt.Sprintf("evaluated from the dispatcher for the keyword %s%d: numbers are read with bitSize %d and the node is built with byteSize %d", prefix, k, 8*k, k))
		}
	}
}

// streamFunctionByEvaluation: parseStreamFunctionCode evaluated on the token
// S<s>F<f> for stream and function codes at and around both limits and for
// numbers no int holds: a code inside its range is returned as written and
// not diagnosed; one outside is diagnosed. Reports false when an evaluation
// does not decide (the guard rule over the conversion results is used then).
func streamFunctionByEvaluation(p *Prog, r *Report, rule string, fn *ssa.Function) bool {
	ttSF, ok1 := smlConst(p, "tokenTypeStreamFunction")
	ttEOF, ok2 := smlConst(p, "tokenTypeEOF")
	if !ok1 || !ok2 {
		return false
	}
	codes := []string{"0", "1", "7", "64", "126", "127", "128", "129", "200", "254", "255", "256", "257", "1000", "007", "0128", "4294967296", "9223372036854775807", "9223372036854775808", "99999999999999999999999"}
	num := func(s string) (int64, bool) {
		v, err := strconv.ParseInt(s, 10, 64)
		return v, err == nil
	}
	var badS, badF []string
	n := 0
	run := func(sc, fc string) bool {
		toks := []lexTok{{typ: ttSF, val: "S" + sc + "F" + fc, line: 1, col: 1}, {typ: ttEOF, val: "", line: 1, col: 9}}
		_, diags, rets, ok := parseRunRet(p, fn, toks, 2)
		if !ok || len(rets) != 1 || len(rets[0]) < 2 || rets[0][0].K != KInt || rets[0][1].K != KInt {
			return false
		}
		n++
		sv, sFits := num(sc)
		fv, fFits := num(fc)
		sIn := sFits && sv >= 0 && sv <= 127
		fIn := fFits && fv >= 0 && fv <= 255
		want := 0
		if !sIn {
			want++
		}
		if !fIn {
			want++
		}
		text := "S" + sc + "F" + fc
		if sIn && rets[0][0].I.Int64() != sv {
			badS = append(badS, fmt.Sprintf("%s: the stream code is read as %s", text, rets[0][0]))
		}
		if fIn && rets[0][1].I.Int64() != fv {
			badF = append(badF, fmt.Sprintf("%s: the function code is read as %s", text, rets[0][1]))
		}
		if len(diags) != want {
			msg := fmt.Sprintf("%s: %d diagnostics %v, expected %d (stream in [0,127]: %v, function in [0,255]: %v)", text, len(diags), diags, want, sIn, fIn)
			if sIn == fIn || !sIn {
				badS = append(badS, msg)
			}
			if sIn == fIn || !fIn {
				badF = append(badF, msg)
			}
		}
		return true
	}
	for _, c := range codes {
		if !run(c, "1") || !run("1", c) {
			return false
		}
	}
	if !run("128", "256") || !run("127", "255") || !run("99999999999999999999999", "99999999999999999999999") {
		return false
	}
	for i, part := range []struct {
		name string
		bad  []string
		what string
	}{{"stream", badS, "0 <= stream <= 127"}, {"function", badF, "0 <= function <= 255"}} {
		_ = i
		key := rule + ":sml.parseStreamFunctionCode:" + part.name
		if len(part.bad) > 0 {
			r.bad(rule, key, p.Pos(fn.Pos()), strings.Join(firstN(uniq(part.bad), 3), "; "))
		} else {
			r.ok(rule, key, p.Pos(fn.Pos()), fmt.Sprintf("evaluated on %d stream/function tokens with codes at and around the limits, with leading zeros, and with numbers no int holds: a code is diagnosed exactly when outside %s, and one inside is returned as written", n, part.what))
		}
	}
	return true
}

// literalThroughItem decides a literal-range obligation through the item
// parser: <KW literal> is lexed and parsed for literals around the bounds and
// the byte/word boundaries in decimal, hexadecimal and signed notation; the
// literal must be diagnosed exactly when outside [lo, hi] and otherwise reach
// the factory unchanged. Reports false when an evaluation does not decide.
func literalThroughItem(p *Prog, r *Report, rule, key, pos, factory string, lo, hi int64) bool {
	item := p.Func("sml", "(*parser).parseDataItem")
	kw := map[string]string{"NewBinaryNode": "B", "NewASCIINode": "A"}[factory]
	if item == nil || kw == "" {
		return false
	}
	type lit struct {
		text string
		val  int64
	}
	var lits []lit
	for _, v := range []int64{lo - 65536, lo - 256, lo - 2, lo - 1, lo, lo + 1, (lo + hi) / 2, hi - 1, hi, hi + 1, hi + 2, 255, 256, 257, 321, hi + 256, 65535, 65536, 65536 + hi, 1 << 31, 1 << 32, (1 << 32) + hi} {
		lits = append(lits, lit{strconv.FormatInt(v, 10), v})
		if v >= 0 {
			lits = append(lits, lit{"0x" + strconv.FormatInt(v, 16), v})
			if factory != "NewASCIINode" { // a character code is an unsigned literal: no sign
				lits = append(lits, lit{"+" + strconv.FormatInt(v, 10), v})
			}
		}
	}
	var bad []string
	for _, l := range lits {
		toks, ok := lexAll(p, "lexMessageText", "<"+kw+" "+l.text+">", 100)
		if !ok {
			return false
		}
		obs, diags, ok := parseRun(p, item, toks, 2)
		if !ok {
			return false
		}
		inside := l.val >= lo && l.val <= hi
		refused := len(diags) > 0
		switch {
		case !inside && !refused:
			bad = append(bad, fmt.Sprintf("the literal %s (outside [%d, %d]) is accepted without a diagnostic", l.text, lo, hi))
		case inside && refused:
			bad = append(bad, fmt.Sprintf("the literal %s (inside [%d, %d]) is reported as an error", l.text, lo, hi))
		case inside:
			var built *Val
			for i := range obs {
				if obs[i].factory != factory {
					continue
				}
				if len(obs[i].elems) == 1 {
					e := obs[i].elems[0]
					if e.K == KIface && e.Inner != nil {
						e = *e.Inner
					}
					built = &e
				} else if len(obs[i].args) == 1 {
					built = &obs[i].args[0]
				}
			}
			switch {
			case built == nil:
				return false
			case built.K == KStr && built.S != string(rune(l.val)):
				bad = append(bad, fmt.Sprintf("the literal %s reaches %s as %q", l.text, factory, built.S))
			case built.K == KInt && built.I.Int64() != l.val:
				bad = append(bad, fmt.Sprintf("the literal %s reaches %s as %s", l.text, factory, built))
			case built.K != KStr && built.K != KInt:
				return false
			}
		}
	}
	if len(bad) > 0 {
		r.bad(rule, key, pos, strings.Join(firstN(bad, 4), "; "))
	} else {
		r.ok(rule, key, pos, fmt.Sprintf("the item parser evaluated on <%s n> for %d number literals around the bounds and the byte/word boundaries, in decimal, hexadecimal and signed notation: exactly the values outside [%d, %d] are reported, the others reach %s unchanged", kw, len(lits), lo, hi, factory))
	}
	return true
}
