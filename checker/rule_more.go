package main

import (
	"fmt"
	"go/token"
	"go/types"
	"math"
	"math/big"
	"os"
	"regexp"
	"sort"
	"strconv"
	"strings"
	"unicode"

	"golang.org/x/tools/go/ssa"
)

// R16b payload — what each node appends per element.
func rulePayload(p *Prog, r *Report) {
	const rule = "R16b-payload"
	// Boolean: 1 for true, 0 for false
	if fn := p.MustFunc(r, "ast", "(*BooleanNode).ToBytes"); fn != nil {
		key := rule + ":ast.(*BooleanNode).ToBytes"
		if d, decided, good := payloadByEvaluation(p, fn, "bool"); decided {
			if good {
				r.ok(rule, key, p.Pos(fn.Pos()), d)
			} else {
				r.bad(rule, key, p.Pos(fn.Pos()), d)
			}
			goto binary
		}
		{
			sites := elemSites(p, fn, defaultArgs(fn), map[string]Val{"p0.values": {K: KSlice, S: "p0.values", Len: -1}, "len(p0.variables)": int64Val(0)}, "p0.values")
			if len(sites) != 1 {
				r.unk(rule, key, p.Pos(fn.Pos()), "the element loop was not found")
			} else {
				got := map[bool]string{}
				for _, b := range []bool{false, true} {
					in := NewInterp(p)
					in.PathBind["len(p0.variables)"] = int64Val(0)
					in.PathBind["p0.values"] = Val{K: KSlice, S: "p0.values", Len: -1}
					o1 := in.Run(fn, defaultArgs(fn), nil)
					outer := o1.Frame.Vals()
					in.ResetHeap()
					bb := b
					site := sites[0]
					in.Bind = func(v ssa.Value, fr *frame) (Val, bool) {
						if v == site {
							return Val{K: KBool, B: bb, Dep: true}, true
						}
						return Val{}, false
					}
					var emitted []string
					in.OnAppend = func(call *ssa.Call, a1 Val, elems []Val, fr *frame) {
						if fr.fn == fn && inLoop(call.Block()) {
							for _, e := range elems {
								emitted = append(emitted, e.String())
							}
							if elems == nil {
								emitted = append(emitted, "?")
							}
						}
					}
					in.RunOuter(fn, defaultArgs(fn), site.(ssa.Instruction).Block(), outer)
					got[b] = strings.Join(uniq(emitted), ",")
				}
				if got[false] == "0" && got[true] == "1" {
					r.ok(rule, key, p.Pos(fn.Pos()), "each element is emitted as 1 (true) or 0 (false)")
				} else {
					r.bad(rule, key, p.Pos(fn.Pos()), fmt.Sprintf("a boolean is emitted as %q for false and %q for true; E5 requires 0 and 1", got[false], got[true]))
				}
			}
		}
	}
binary:
	// Binary and ASCII: byte(element)
	for _, c := range []struct{ typ, path, want string }{{"BinaryNode", "p0.values", `^byte\(v\)$`}, {"ASCIINode", "p0.value", `^byte\(v\)$`}} {
		fn := p.MustFunc(r, "ast", "(*"+c.typ+").ToBytes")
		if fn == nil {
			continue
		}
		key := rule + ":ast.(*" + c.typ + ").ToBytes"
		kind := "byte"
		if c.typ == "ASCIINode" {
			kind = "string"
		}
		if d, decided, good := payloadByEvaluation(p, fn, kind); decided {
			if good {
				r.ok(rule, key, p.Pos(fn.Pos()), d)
			} else {
				r.bad(rule, key, p.Pos(fn.Pos()), d)
			}
			continue
		}
		env := map[string]Val{"len(p0.variables)": int64Val(0), "p0.isValue": boolVal(true)}
		var sites []ssa.Value
		if c.typ == "ASCIINode" {
			sites = stringRangeSites(fn)
		} else {
			env["p0.values"] = Val{K: KSlice, S: "p0.values", Len: -1}
			sites = elemSites(p, fn, defaultArgs(fn), env, c.path)
		}
		if len(sites) != 1 {
			r.unk(rule, key, p.Pos(fn.Pos()), "the element loop was not found")
			continue
		}
		in := symInterp(p)
		for k, v := range env {
			in.PathBind[k] = v
		}
		o1 := in.Run(fn, defaultArgs(fn), nil)
		outer := o1.Frame.Vals()
		in.ResetHeap()
		site := sites[0]
		in.Bind = func(v ssa.Value, fr *frame) (Val, bool) {
			if v == site {
				return symVal("v", true), true
			}
			return Val{}, false
		}
		var emitted []string
		in.OnAppend = func(call *ssa.Call, a1 Val, elems []Val, fr *frame) {
			if fr.fn == fn && inLoop(call.Block()) {
				for _, e := range elems {
					emitted = append(emitted, e.String())
				}
				if elems == nil {
					emitted = append(emitted, "?")
				}
			}
		}
		in.RunOuter(fn, defaultArgs(fn), site.(ssa.Instruction).Block(), outer)
		e := strings.Join(uniq(emitted), ",")
		if regexp.MustCompile(c.want).MatchString(e) {
			r.ok(rule, key, p.Pos(fn.Pos()), "each element v is emitted as byte(v)")
		} else {
			r.bad(rule, key, p.Pos(fn.Pos()), "each element v must be emitted as the single byte byte(v); the loop appends "+e)
		}
	}
	// List: the children's encodings, in order
	if fn := p.MustFunc(r, "ast", "(*ListNode).ToBytes"); fn != nil {
		key := rule + ":ast.(*ListNode).ToBytes"
		in := symInterp(p)
		in.PathBind["len(p0.variables)"] = int64Val(0)
		var paths []string
		in.OnAppend = func(call *ssa.Call, a1 Val, elems []Val, fr *frame) {
			if fr.fn == fn && inLoop(call.Block()) {
				paths = append(paths, a1.S)
			}
		}
		in.Run(fn, defaultArgs(fn), nil)
		asc := false
		for _, b := range fn.Blocks {
			for _, instr := range b.Instrs {
				if ia, ok := instr.(*ssa.IndexAddr); ok && isInduction(ia.Index) {
					asc = ascendingInduction(ia.Index)
				}
			}
		}
		if len(paths) == 1 && regexp.MustCompile(`^p0\.values\[\*\]\.ToBytes\(\)$`).MatchString(paths[0]) && asc {
			r.ok(rule, key, p.Pos(fn.Pos()), "the encodings of the children are appended in index order")
		} else {
			r.bad(rule, key, p.Pos(fn.Pos()), fmt.Sprintf("a list must append each child's ToBytes() in index order; the loop appends %v (ascending: %v)", paths, asc))
		}
	}
	r.Floor(rule, 4)
}

// ascendingInduction: the induction variable starts at a constant <= 0 and steps by +1.
func ascendingInduction(v ssa.Value) bool {
	if b, ok := v.(*ssa.BinOp); ok {
		if _, isC := b.Y.(*ssa.Const); isC {
			v = b.X
		}
	}
	phi, ok := v.(*ssa.Phi)
	if !ok {
		return false
	}
	okInit, okStep := false, false
	for _, e := range phi.Edges {
		switch x := e.(type) {
		case *ssa.Const:
			if c := constVal(x); c.K == KInt && c.I.Sign() <= 0 {
				okInit = true
			}
		case *ssa.BinOp:
			if c, isC := x.Y.(*ssa.Const); isC && x.Op == token.ADD && constVal(c).K == KInt && constVal(c).I.Int64() == 1 {
				okStep = true
			}
		}
	}
	return okInit && okStep
}

// R5b — every successful payload branch of the decoder advances the position
// by exactly the declared length it consumed.
func rulePosAdvance(p *Prog, r *Report) {
	const rule = "R5b-advance"
	type site struct {
		fn   string
		what string
	}
	check := func(fnName string, lengthOf func(fn *ssa.Function) ssa.Value, wantFactories []string) {
		fn := p.MustFunc(r, "hsms", "(*parser)."+fnName)
		if fn == nil {
			return
		}
		length := lengthOf(fn)
		if length == nil {
			r.unk(rule, rule+":hsms."+fnName, p.Pos(fn.Pos()), "the declared length value was not found")
			return
		}
		for _, b := range fn.Blocks {
			for _, instr := range b.Instrs {
				call, ok := instr.(*ssa.Call)
				if !ok {
					continue
				}
				sc := call.Common().StaticCallee()
				if sc == nil || !isFactory(sc) {
					continue
				}
				match := false
				for _, w := range wantFactories {
					if sc.Name() == w {
						match = true
					}
				}
				if !match {
					continue
				}
				key := fmt.Sprintf("%s:hsms.%s:%s", rule, fnName, sc.Name())
				// a store pos = pos + length dominating the factory call (same block before it, or a dominating block)
				adv := false
				for _, sb := range fn.Blocks {
					for si, sin := range sb.Instrs {
						st, ok := sin.(*ssa.Store)
						if !ok {
							continue
						}
						f := fieldOf(st.Addr)
						if f == nil || f.Name() != "pos" {
							continue
						}
						bo, ok := st.Val.(*ssa.BinOp)
						if !ok || bo.Op != token.ADD {
							continue
						}
						ld, ok := bo.X.(*ssa.UnOp)
						if !ok || fieldOf(ld.X) == nil || fieldOf(ld.X).Name() != "pos" || bo.Y != length {
							continue
						}
						if (sb == b && si < instrIndex(b, call)) || (sb != b && sb.Dominates(b)) {
							adv = true
						}
					}
				}
				if adv {
					r.ok(rule, key, p.Pos(call.Pos()), "the position is advanced by the declared length before the item is built")
				} else {
					r.bad(rule, key, p.Pos(call.Pos()), fmt.Sprintf("on the way to %s the decoder does not advance its position by the declared length (pos += length): the next item would be read from inside this one", sc.Name()))
				}
			}
		}
	}
	declared := func(fn *ssa.Function) ssa.Value {
		// the value compared with len(input)-pos (the bound check), else a parameter named length
		if i := paramIndex(fn, "length"); i >= 0 {
			return fn.Params[i]
		}
		for _, b := range fn.Blocks {
			for _, instr := range b.Instrs {
				bo, ok := instr.(*ssa.BinOp)
				if !ok || bo.Op != token.GTR {
					continue
				}
				if d := dependsOn(bo.Y); d.lenInput && d.pos {
					return bo.X
				}
			}
		}
		return nil
	}
	// by evaluation first: the item decoder on an item of every format (three
	// elements, symbolic payload) must end at the first byte after the item
	byEval := func(fnName string, factories []string) bool {
		type verdict struct {
			key, pos, text string
			bad            bool
		}
		var verdicts []verdict
		defer func() {
			// nothing is reported unless every factory of the group was decided
		}()
		for _, fac := range factories {
			key := fmt.Sprintf("%s:hsms.%s:%s", rule, fnName, fac)
			var bad []string
			n := 0
			for _, f := range e5Formats {
				if f.Factory != fac || f.Node == "ListNode" {
					continue
				}
				w := int64(f.Width)
				res, ok := decodeItemBytes(p, f.Code, 3*w, true)
				if !ok || res.fac == "" || res.endPos.K != KInt {
					return false
				}
				n++
				if res.fac != fac {
					bad = append(bad, fmt.Sprintf("format %s builds %s", f.Key, res.fac))
				}
				if want := int64(16 + 2 + 3*w); res.endPos.I.Int64() != want {
					bad = append(bad, fmt.Sprintf("after an item of format %s with %d payload bytes the position is %s, expected %d (the first byte after the item): the next item would be read from the wrong place", f.Key, 3*w, res.endPos, want))
				}
			}
			if n == 0 {
				return false
			}
			pos := ""
			if pf := p.Func("hsms", "(*parser).parseMessageText"); pf != nil {
				pos = p.Pos(pf.Pos())
			}
			if len(bad) > 0 {
				verdicts = append(verdicts, verdict{key, pos, strings.Join(firstN(bad, 3), "; "), true})
			} else {
				verdicts = append(verdicts, verdict{key, pos, fmt.Sprintf("evaluated on an item of each of the %d formats built by %s: the decoder ends at the first byte after the item", n, fac), false})
			}
		}
		for _, v := range verdicts {
			if v.bad {
				r.bad(rule, v.key, v.pos, v.text)
			} else {
				r.ok(rule, v.key, v.pos, v.text)
			}
		}
		return true
	}
	for _, c := range []struct {
		fn   string
		facs []string
	}{{"parseMessageText", []string{"NewASCIINode", "NewBinaryNode", "NewBooleanNode"}}, {"parseInt", []string{"NewIntNode"}}, {"parseUint", []string{"NewUintNode"}}, {"parseFloat", []string{"NewFloatNode"}}} {
		if !byEval(c.fn, c.facs) {
			check(c.fn, declared, c.facs)
		}
	}
	decodeSequence(p, r, rule)
	decodeShortList(p, r, rule)
	r.Floor(rule, 6)
}

// R1e-header — what the message printer writes, the header lexer reads as the
// same token; number prefixes are accepted in both cases.
func ruleHeaderSpelling(p *Prog, r *Report) {
	const rule = "R1e-header"
	hf := p.MustFunc(r, "ast", "(*DataMessage).Header")
	lf := p.MustFunc(r, "sml", "lexMessageHeader")
	if hf != nil && lf != nil {
		pats := regexPatterns(p, lf)
		key := rule + ":ast.(*DataMessage).Header~sml.lexMessageHeader"
		if d, decided, good := headerLexesBack(p, hf); decided {
			if good {
				r.ok(rule, key, p.Pos(hf.Pos()), d)
			} else {
				r.bad(rule, key, p.Pos(hf.Pos()), d)
			}
		} else if len(pats) != 3 {
			r.unk(rule, key, p.Pos(lf.Pos()), fmt.Sprintf("expected the three header patterns (stream/function, wait bit, direction) in lexMessageHeader, found %d", len(pats)))
		} else {
			var bad []string
			n := 0
			for _, w := range []int64{0, 1, 2} {
				for _, dir := range []string{"H->E", "H<-E", "H<->E"} {
					for _, sf := range [][2]int64{{0, 0}, {1, 1}, {127, 255}, {6, 11}} {
						if w == 1 && sf[1]%2 == 0 {
							continue
						}
						in := NewInterp(p)
						in.PathBind["p0.waitBit"] = int64Val(w)
						in.PathBind["p0.direction"] = strVal(dir)
						in.PathBind["p0.stream"] = int64Val(sf[0])
						in.PathBind["p0.function"] = int64Val(sf[1])
						in.PathBind["p0.name"] = strVal("")
						out := in.Run(hf, defaultArgs(hf), nil)
						rets := out.Frame.ReturnVals()
						if len(rets) != 1 || rets[0][0].K != KStr {
							bad = append(bad, fmt.Sprintf("header text not determined for W=%d %s", w, dir))
							continue
						}
						n++
						toks := strings.Fields(rets[0][0].S)
						want := 2
						if w != 0 {
							want = 3
						}
						if len(toks) != want {
							bad = append(bad, fmt.Sprintf("header %q has %d tokens, expected %d", rets[0][0].S, len(toks), want))
							continue
						}
						order := []int{0, 2}
						if w != 0 {
							order = []int{0, 1, 2}
						}
						for ti, pi := range order {
							re, err := regexp.Compile(pats[pi])
							if err != nil {
								bad = append(bad, "pattern does not compile: "+pats[pi])
								continue
							}
							if loc := re.FindStringIndex(toks[ti]); loc == nil || loc[0] != 0 || loc[1] != len(toks[ti]) {
								bad = append(bad, fmt.Sprintf("printed token %q is not read by the header lexer's pattern %s", toks[ti], pats[pi]))
							}
							// and no earlier pattern may claim it
							for pj := 0; pj < pi; pj++ {
								if rej, err := regexp.Compile(pats[pj]); err == nil && rej.FindStringIndex(toks[ti]) != nil {
									bad = append(bad, fmt.Sprintf("printed token %q is claimed by the earlier pattern %s", toks[ti], pats[pj]))
								}
							}
						}
					}
				}
			}
			if len(bad) > 0 {
				r.bad(rule, key, p.Pos(hf.Pos()), strings.Join(firstN(uniq(bad), 4), "; "))
			} else {
				r.ok(rule, key, p.Pos(hf.Pos()), fmt.Sprintf("%d printed headers (3 wait-bit states x 3 directions x 4 codes): every token is matched in full by the lexer pattern of its kind and by no earlier pattern", n))
			}
		}
	}
	// number prefixes and exponent marker are accepted in both letter cases
	if nf := p.MustFunc(r, "sml", "lexNumber"); nf != nil {
		key := rule + ":sml.lexNumber:prefix-case"
		if d, decided, good := numberPrefixesByEvaluation(p, nf); decided {
			if good {
				r.ok(rule, key, p.Pos(nf.Pos()), d)
			} else {
				r.bad(rule, key, p.Pos(nf.Pos()), d)
			}
			r.Floor(rule, 2)
			return
		}
		in := NewInterp(p)
		var sets []string
		in.OnCall = func(call *ssa.Call, callee *ssa.Function, a []Val, fr *frame) {
			if fr.fn == nf && (callee.Name() == "accept" || callee.Name() == "acceptRun") && len(a) >= 2 && a[1].K == KStr {
				sets = append(sets, a[1].S)
			}
		}
		in.Run(nf, defaultArgs(nf), nil)
		// digit sets reach acceptRun through a phi; collect string constants too
		_, strs := moduleConsts(nf)
		for _, st := range strs {
			if !strings.ContainsAny(st, " %:") { // character sets, not message texts
				sets = append(sets, st)
			}
		}
		var bad []string
		need := map[rune]bool{'x': false, 'b': false, 'o': false, 'e': false}
		for _, s := range sets {
			for _, c := range s {
				if unicode.IsLetter(c) {
					other := unicode.ToUpper(c)
					if unicode.IsUpper(c) {
						other = unicode.ToLower(c)
					}
					if !strings.ContainsRune(s, other) {
						bad = append(bad, fmt.Sprintf("%q accepts %q but not %q", s, c, other))
					}
					if _, ok := need[unicode.ToLower(c)]; ok {
						need[unicode.ToLower(c)] = true
					}
				}
			}
		}
		for c, seen := range need {
			if !seen {
				bad = append(bad, fmt.Sprintf("no accept set contains the marker %q", c))
			}
		}
		if len(bad) > 0 {
			r.bad(rule, key, p.Pos(nf.Pos()), strings.Join(uniq(bad), "; "))
		} else {
			r.ok(rule, key, p.Pos(nf.Pos()), "the 0x/0b/0o prefixes, hexadecimal digits and the exponent marker are accepted in both letter cases")
		}
	}
	r.Floor(rule, 2)
}

// R27 order — the variable list is ordered by position, and Size() counts the stored elements.
func ruleVariableOrder(p *Prog, r *Report) {
	const rule = "R27-order"
	if p.Func("ast", "getVariableNames") == nil {
		// the sorting routine is not to be found under its name: the listing of
		// an array node is evaluated instead
		key := rule + ":ast.getVariableNames:ascending-by-position"
		if vf := p.Func("ast", "(*IntNode).Variables"); vf == nil {
			r.unk(rule, key, "", "neither getVariableNames nor (*IntNode).Variables found")
		} else if d, decided, ok := variableNamesByEvaluation(p, vf, "p0.variables"); !decided {
			r.unk(rule, key, p.Pos(vf.Pos()), "no function getVariableNames, and (*IntNode).Variables could not be evaluated")
		} else if ok {
			r.ok(rule, key, p.Pos(vf.Pos()), "(*IntNode).Variables "+d)
		} else {
			r.bad(rule, key, p.Pos(vf.Pos()), d)
		}
	} else if fn := p.MustFunc(r, "ast", "getVariableNames"); fn != nil {
		key := rule + ":ast.getVariableNames:ascending-by-position"
		if d, decided, ok := variableNamesByEvaluation(p, fn, "p0"); decided {
			if ok {
				r.ok(rule, key, p.Pos(fn.Pos()), d)
			} else {
				r.bad(rule, key, p.Pos(fn.Pos()), d)
			}
			goto sizes
		}
		{
			good := false
			detail := "no sort.Slice call with a comparator on the positions found"
			for _, an := range fn.AnonFuncs {
				// less(i, j) must be  pos[result[i]] < pos[result[j]]
				for _, b := range an.Blocks {
					ret, ok := b.Instrs[len(b.Instrs)-1].(*ssa.Return)
					if !ok || len(ret.Results) != 1 {
						continue
					}
					bo, ok := ret.Results[0].(*ssa.BinOp)
					if !ok {
						detail = "the comparator does not return a comparison"
						continue
					}
					li, lj := lookupIndexParam(bo.X, an), lookupIndexParam(bo.Y, an)
					switch {
					case bo.Op == token.LSS && li == 0 && lj == 1, bo.Op == token.GTR && li == 1 && lj == 0:
						good = true
					default:
						detail = fmt.Sprintf("the comparator orders by %s between the positions of element %d and element %d: not ascending by position", bo.Op, li, lj)
					}
				}
			}
			if good {
				r.ok(rule, key, p.Pos(fn.Pos()), "names are sorted ascending by their position in the value array, the order in which String() prints them")
			} else {
				r.bad(rule, key, p.Pos(fn.Pos()), detail)
			}
		}
	}
sizes:
	for _, tn := range []string{"IntNode", "UintNode", "FloatNode", "BinaryNode", "BooleanNode", "ListNode"} {
		fn := p.MustFunc(r, "ast", "(*"+tn+").Size")
		if fn == nil {
			continue
		}
		key := rule + ":ast.(*" + tn + ").Size"
		in := symInterp(p)
		out := in.Run(fn, defaultArgs(fn), nil)
		rets := out.Frame.ReturnVals()
		if len(rets) == 1 && rets[0][0].String() == "len(p0.values)" {
			r.ok(rule, key, p.Pos(fn.Pos()), "Size() is len(values), the number of elements String() prints")
		} else {
			got := "?"
			if len(rets) == 1 {
				got = rets[0][0].String()
			}
			r.bad(rule, key, p.Pos(fn.Pos()), "Size() returns "+got+", not the number of stored elements len(values)")
		}
		// Variables() of array nodes lists exactly the node's own variable map
		if tn != "ListNode" {
			vf := p.MustFunc(r, "ast", "(*"+tn+").Variables")
			if vf != nil {
				gv := p.Func("ast", "getVariableNames")
				okv := false
				for _, c := range callSites(vf, "ast.getVariableNames") {
					if ld, ok := c.Common().Args[0].(*ssa.UnOp); ok {
						if f := fieldOf(ld.X); f != nil && f.Name() == "variables" {
							okv = true
						}
					}
				}
				_ = gv
				k2 := rule + ":ast.(*" + tn + ").Variables"
				if d, decided, good := variableNamesByEvaluation(p, vf, "p0.variables"); decided {
					if good {
						r.ok(rule, k2, p.Pos(vf.Pos()), "lists the node's own variables: "+d)
					} else {
						r.bad(rule, k2, p.Pos(vf.Pos()), d)
					}
				} else if okv {
					r.ok(rule, k2, p.Pos(vf.Pos()), "lists the names of the node's own variable map, position-sorted")
				} else {
					r.bad(rule, k2, p.Pos(vf.Pos()), "Variables() is not getVariableNames(node.variables)")
				}
			}
		}
	}
	// ListNode.Variables walks the children in index order and takes own names from the position map
	if fn := p.MustFunc(r, "ast", "(*ListNode).Variables"); fn != nil {
		key := rule + ":ast.(*ListNode).Variables:walk"
		if d, decided, good := listVariablesByEvaluation(p, fn); decided {
			if good {
				r.ok(rule, key, p.Pos(fn.Pos()), d)
			} else {
				r.bad(rule, key, p.Pos(fn.Pos()), d)
			}
			r.Floor(rule, 12)
			return
		}
		asc, usesChild, usesOwn := false, false, false
		for _, b := range fn.Blocks {
			for _, instr := range b.Instrs {
				switch x := instr.(type) {
				case *ssa.IndexAddr:
					if isInduction(x.Index) && ascendingInduction(x.Index) {
						asc = true
					}
				case *ssa.Call:
					if x.Common().IsInvoke() && x.Common().Method.Name() == "Variables" {
						usesChild = true
					}
				case *ssa.Lookup:
					if isInduction(x.Index) {
						usesOwn = true
					}
				}
			}
		}
		if asc && usesChild && usesOwn {
			r.ok(rule, key, p.Pos(fn.Pos()), "children are visited in index order; a variable position contributes its own name, any other child its Variables()")
		} else {
			r.bad(rule, key, p.Pos(fn.Pos()), fmt.Sprintf("the list's variables are not collected by an ascending walk over the children (ascending=%v child lists=%v own names by position=%v)", asc, usesChild, usesOwn))
		}
	}
	r.Floor(rule, 12)
}

// lookupIndexParam: v is m[s[param k]] — returns k, or -1.
func lookupIndexParam(v ssa.Value, fn *ssa.Function) int {
	lk, ok := v.(*ssa.Lookup)
	if !ok {
		return -1
	}
	ld, ok := lk.Index.(*ssa.UnOp)
	if !ok {
		return -1
	}
	ia, ok := ld.X.(*ssa.IndexAddr)
	if !ok {
		return -1
	}
	for i, prm := range fn.Params {
		if ia.Index == ssa.Value(prm) {
			return i
		}
	}
	return -1
}

var _ = types.Typ

// R1e-print — every array node prints "<KEYWORD[n] v1 v2 …>" with its own SML
// keyword, numbers in a notation the reader accepts, and each variable name at
// the position the variable occupies.
func rulePrinters(p *Prog, r *Report) {
	const rule = "R1e-print"
	seen := map[string]bool{}
	for _, f := range e5Formats {
		if f.Node == "ListNode" || f.Node == "ASCIINode" {
			continue
		}
		fn := p.MustFunc(r, "ast", "(*"+f.Node+").String")
		if fn == nil {
			continue
		}
		key := fmt.Sprintf("%s:ast.(*%s).String:%s", rule, f.Node, f.SML)
		// First by evaluation: with concrete elements and no variables the
		// printer's result must be the SML text itself, however it is put together.
		if d, decided, good := printsSML(p, fn, f); decided {
			if good {
				r.ok(rule, key, p.Pos(fn.Pos()), d)
			} else {
				r.bad(rule, key, p.Pos(fn.Pos()), d)
			}
			goto rest
		}
		{
			joins := callSites(fn, "strings.Join")
			if len(joins) != 1 {
				r.unk(rule, key, p.Pos(fn.Pos()), "the printer does not join its element texts with strings.Join")
				continue
			}
			var bad []string
			for _, n := range []int64{0, 3} {
				in := NewInterp(p)
				if f.ByteSz != 0 {
					in.PathBind["p0.byteSize"] = int64Val(int64(f.ByteSz))
				}
				in.PathBind["p0.values"] = Val{K: KSlice, S: "p0.values", Len: int(n)}
				in.Bind = func(v ssa.Value, fr *frame) (Val, bool) {
					if v == ssa.Value(joins[0]) {
						return strVal("1 2 3"), true
					}
					return Val{}, false
				}
				out := in.Run(fn, defaultArgs(fn), nil)
				want := fmt.Sprintf("<%s[%d] 1 2 3>", f.SML, n)
				if n == 0 {
					want = fmt.Sprintf("<%s[0]>", f.SML)
				}
				okAny := false
				var got []string
				for _, rv := range out.Frame.ReturnVals() {
					got = append(got, rv[0].String())
					if rv[0].K == KStr && rv[0].S == want {
						okAny = true
					}
				}
				if !okAny || len(got) != 1 {
					bad = append(bad, fmt.Sprintf("a node of %d elements prints %v, the SML form is %q", n, got, want))
				}
			}
			if len(bad) > 0 {
				r.bad(rule, key, p.Pos(fn.Pos()), strings.Join(bad, "; "))
			} else {
				r.ok(rule, key, p.Pos(fn.Pos()), fmt.Sprintf("prints <%s[n] …> with its own keyword and element count", f.SML))
			}
		}
	rest:
		if seen[f.Node] {
			continue
		}
		seen[f.Node] = true
		// number notation
		nk := rule + ":ast.(*" + f.Node + ").String:notation"
		if d, decided, good := notationOfNode(p, fn, f.Node); decided {
			if good {
				r.ok(rule, nk, p.Pos(fn.Pos()), d)
			} else {
				r.bad(rule, nk, p.Pos(fn.Pos()), d)
			}
			goto variables
		}
		{
			in := NewInterp(p)
			if f.ByteSz != 0 {
				in.PathBind["p0.byteSize"] = int64Val(int64(f.ByteSz))
			}
			var probs []string
			nfmt := 0
			in.OnCall = func(call *ssa.Call, callee *ssa.Function, a []Val, fr *frame) {
				if !withinFn(fr.fn, fn) || callee.Pkg == nil || callee.Pkg.Pkg.Path() != "strconv" {
					return
				}
				nm := callee.Name()
				if strings.HasPrefix(nm, "Append") && len(a) > 1 {
					nm, a = "Format"+strings.TrimPrefix(nm, "Append"), a[1:]
				}
				switch nm {
				case "FormatInt", "FormatUint":
					nfmt++
					wantBase := int64(10)
					if f.Node == "BinaryNode" {
						wantBase = 2
					}
					if !(a[1].K == KInt && a[1].I.Int64() == wantBase) {
						probs = append(probs, fmt.Sprintf("numbers are printed in base %s, expected base %d", a[1], wantBase))
					}
				case "FormatFloat":
					nfmt++
					if !(a[1].K == KInt && a[1].I.Int64() == 'g' && a[2].K == KInt && a[2].I.Int64() == -1 && a[3].K == KInt && a[3].I.Int64() == int64(8*f.ByteSz)) {
						probs = append(probs, fmt.Sprintf("floats are printed with FormatFloat(v, %s, %s, %s); the shortest representation that reads back is ('g', -1, %d)", a[1], a[2], a[3], 8*f.ByteSz))
					}
				}
			}
			in.Run(fn, defaultArgs(fn), nil)
			if f.Node == "BooleanNode" {
				// T / F
				_, strs := moduleConsts(fn)
				hasT, hasF := false, false
				for _, s := range strs {
					if s == "T" {
						hasT = true
					}
					if s == "F" {
						hasF = true
					}
				}
				if hasT && hasF {
					r.ok(rule, nk, p.Pos(fn.Pos()), "booleans are printed as T and F")
				} else {
					r.bad(rule, nk, p.Pos(fn.Pos()), "booleans are not printed as the SML literals T and F")
				}
			} else if f.Node == "BinaryNode" {
				_, strs := moduleConsts(fn)
				has0b := false
				for _, s := range strs {
					if s == "0b" {
						has0b = true
					}
				}
				if len(probs) == 0 && nfmt > 0 && has0b {
					r.ok(rule, nk, p.Pos(fn.Pos()), "bytes are printed as 0b + base-2 digits, which the reader takes with base 0")
				} else {
					r.bad(rule, nk, p.Pos(fn.Pos()), "bytes are not printed as \"0b\" followed by base-2 digits: "+strings.Join(uniq(probs), "; "))
				}
			} else if len(probs) > 0 || nfmt == 0 {
				r.bad(rule, nk, p.Pos(fn.Pos()), "number notation: "+strings.Join(uniq(probs), "; ")+fmt.Sprintf(" (%d formatting calls found)", nfmt))
			} else {
				r.ok(rule, nk, p.Pos(fn.Pos()), "numbers are printed in a notation the reader accepts and that denotes the same value")
			}
		}
	variables:
		// variable names are written at their positions
		vk := rule + ":ast.(*" + f.Node + ").String:variables-at-positions"
		okPos := false
		if d, decided, good := printsVariables(p, fn, f); decided {
			if good {
				r.ok(rule, vk, p.Pos(fn.Pos()), d)
			} else {
				r.bad(rule, vk, p.Pos(fn.Pos()), d)
			}
			continue
		}
		for _, b := range fn.Blocks {
			for _, instr := range b.Instrs {
				st, ok := instr.(*ssa.Store)
				if !ok {
					continue
				}
				ia, ok := st.Addr.(*ssa.IndexAddr)
				if !ok {
					continue
				}
				ix, ok1 := ia.Index.(*ssa.Extract)
				vx, ok2 := st.Val.(*ssa.Extract)
				if ok1 && ok2 && ix.Tuple == vx.Tuple && ix.Index == 2 && vx.Index == 1 {
					if nx, ok := ix.Tuple.(*ssa.Next); ok && !nx.IsString {
						okPos = true
					}
				}
			}
		}
		if okPos {
			r.ok(rule, vk, p.Pos(fn.Pos()), "for every (name, position) of the variable map the name replaces the element text at that position")
		} else {
			r.unk(rule, vk, p.Pos(fn.Pos()), "the printer could not be evaluated on a node with variables, and it does not store each variable's name at the variable's own position in the way the fallback rule knows")
		}
	}
	r.Floor(rule, 20)
}

// printsSML evaluates an array node's String() on concrete elements (no
// variables) and compares the result with the SML text of those elements.
// decided is false when the evaluation does not yield a single constant string.
func printsSML(p *Prog, fn *ssa.Function, f itemFormat) (detail string, decided, good bool) {
	obj := p.Pkgs["ast"].Types.Scope().Lookup(f.Node)
	if obj == nil {
		return "", false, false
	}
	st, ok := obj.Type().Underlying().(*types.Struct)
	if !ok {
		return "", false, false
	}
	var elem types.Type
	for i := 0; i < st.NumFields(); i++ {
		if st.Field(i).Name() == "values" {
			if sl, ok := st.Field(i).Type().Underlying().(*types.Slice); ok {
				elem = sl.Elem()
			}
		}
	}
	b, ok := elem.(*types.Basic)
	if elem == nil || !ok {
		return "", false, false
	}
	// The element values stay unknown: the text of an element is whatever the
	// printer's strconv call yields for it, here the opaque placeholder "§"
	// (the notation obligation decides, for all values, that this call is the
	// right one). Only booleans, which are printed without such a call, take
	// their two values.
	var vals []Val
	var texts []string
	opaque := true
	switch {
	case f.Node == "BinaryNode":
		texts = []string{"0b§", "0b§", "0b§"}
	case b.Info()&types.IsBoolean != 0:
		opaque = false
		vals, texts = []Val{boolVal(true), boolVal(false), boolVal(true)}, []string{"T", "F", "T"}
	case b.Info()&(types.IsFloat|types.IsInteger) != 0:
		texts = []string{"§", "§", "§"}
	default:
		return "", false, false
	}
	var bad []string
	for _, n := range append([]int{0, 1, 3}, extraSizes(fn)...) {
		for len(texts) < n {
			texts = append(texts, texts[len(texts)-1])
			if !opaque {
				vals = append(vals, vals[len(vals)-1])
			}
		}
		in := NewInterp(p)
		if f.ByteSz != 0 {
			in.PathBind["p0.byteSize"] = int64Val(int64(f.ByteSz))
		}
		in.PathBind["p0.values"] = Val{K: KSlice, S: "p0.values", Len: n}
		in.PathBind["len(p0.variables)"] = int64Val(0)
		in.MapKeys["p0.variables"] = nil
		for i := 0; i < n && !opaque; i++ {
			in.PathBind[fmt.Sprintf("p0.values[%d]", i)] = vals[i]
		}
		if opaque {
			in.Bind = func(v ssa.Value, fr *frame) (Val, bool) {
				if c, ok := v.(*ssa.Call); ok && withinFn(fr.fn, fn) {
					if sc := c.Common().StaticCallee(); sc != nil && sc.Pkg != nil && sc.Pkg.Pkg.Path() == "strconv" && strings.HasPrefix(sc.Name(), "Format") {
						return strVal("§"), true
					}
				}
				return Val{}, false
			}
			// the same for a call in a helper the printer hands its elements to,
			// and for the Append forms: the text of an element of unknown value
			in.TextModel = func(c *ssa.Call, callee *ssa.Function, fr *frame) (string, bool) {
				return "§", true
			}
		}
		out := in.Run(fn, defaultArgs(fn), nil)
		rets := out.Frame.ReturnVals()
		if len(in.Stuck) > 0 || len(rets) != 1 || rets[0][0].K != KStr || out.CanPanic {
			return "", false, false
		}
		want := fmt.Sprintf("<%s[%d]>", f.SML, n)
		if n > 0 {
			want = fmt.Sprintf("<%s[%d] %s>", f.SML, n, strings.Join(texts[:n], " "))
		}
		if rets[0][0].S != want {
			bad = append(bad, fmt.Sprintf("a node of the %d elements %v prints %q, the SML form is %q", n, texts[:n], rets[0][0].S, want))
		}
	}
	if len(bad) > 0 {
		return strings.Join(bad, "; "), true, false
	}
	return fmt.Sprintf("evaluated on 0, 1 and 3 elements of arbitrary value (and on sizes beyond every constant of the printer's code) the printer yields exactly <%s[n] e1 … en>, e_i being the element's text (%s)", f.SML, strings.Join(texts[:3], " ")), true, true
}

// regexPatterns lists, in source order, the regular expressions a function
// matches its input with: constant patterns compiled in the function itself,
// constant patterns it hands to a helper of its package that compiles its
// parameter, and patterns hoisted into package-level variables (compiled in
// the package initialiser) that the function reads.
func regexPatterns(p *Prog, fn *ssa.Function) []string {
	type found struct {
		pos token.Pos
		pat string
	}
	var out []found
	isCompile := func(sc *ssa.Function) bool {
		return sc != nil && sc.Pkg != nil && sc.Pkg.Pkg.Path() == "regexp" &&
			(sc.Name() == "MustCompile" || sc.Name() == "Compile" || sc.Name() == "MatchString")
	}
	constStr := func(v ssa.Value) (string, bool) {
		if cs, ok := v.(*ssa.Const); ok && constVal(cs).K == KStr {
			return constVal(cs).S, true
		}
		return "", false
	}
	// which parameters of a helper reach a regexp compile call unchanged
	compiledParams := func(g *ssa.Function) map[int]bool {
		res := map[int]bool{}
		for _, b := range g.Blocks {
			for _, instr := range b.Instrs {
				c, ok := instr.(*ssa.Call)
				if !ok || !isCompile(c.Common().StaticCallee()) {
					continue
				}
				for _, a := range c.Common().Args {
					for i, prm := range g.Params {
						if a == ssa.Value(prm) {
							res[i] = true
						}
					}
				}
			}
		}
		return res
	}
	for _, b := range fn.Blocks {
		for _, instr := range b.Instrs {
			switch x := instr.(type) {
			case *ssa.Call:
				sc := x.Common().StaticCallee()
				if sc == nil {
					continue
				}
				if isCompile(sc) {
					if s, ok := constStr(x.Common().Args[0]); ok {
						out = append(out, found{x.Pos(), s})
					}
					continue
				}
				if sc.Pkg == fn.Pkg && sc.Blocks != nil {
					for i := range compiledParams(sc) {
						if i < len(x.Common().Args) {
							if s, ok := constStr(x.Common().Args[i]); ok {
								out = append(out, found{x.Pos(), s})
							}
						}
					}
				}
			case *ssa.UnOp:
				g, ok := x.X.(*ssa.Global)
				if !ok || x.Op != token.MUL || !strings.HasSuffix(x.Type().String(), "regexp.Regexp") {
					continue
				}
				initFn := fn.Pkg.Func("init")
				if initFn == nil {
					continue
				}
				for _, ib := range initFn.Blocks {
					for _, ii := range ib.Instrs {
						st, ok := ii.(*ssa.Store)
						if !ok || st.Addr != ssa.Value(g) {
							continue
						}
						if mc, ok := st.Val.(*ssa.Call); ok && isCompile(mc.Common().StaticCallee()) {
							if s, ok := constStr(mc.Common().Args[0]); ok {
								out = append(out, found{x.Pos(), s})
							}
						}
					}
				}
			}
		}
	}
	sort.SliceStable(out, func(i, j int) bool { return out[i].pos < out[j].pos })
	var pats []string
	for _, f := range out {
		pats = append(pats, f.pat)
	}
	return pats
}

// payloadByEvaluation decides what a one-byte-per-element node appends after
// its header by evaluating ToBytes on nodes of one to three elements: every
// combination of booleans; symbolic elements for binary items (the payload
// byte must be the term byte(element)); for ASCII items every single
// character and some longer strings (the payload must be the string's bytes).
// decided is false when the result's bytes are not determined.
func payloadByEvaluation(p *Prog, fn *ssa.Function, kind string) (detail string, decided, good bool) {
	var bad []string
	run := func(setup func(in *Interp), n int) ([]Val, bool) {
		in := symInterp(p)
		in.PathBind["len(p0.variables)"] = int64Val(0)
		in.MapKeys["p0.variables"] = nil
		setup(in)
		out := in.Run(fn, defaultArgs(fn), nil)
		var full *Val
		for _, rv := range out.Frame.ReturnVals() {
			if rv[0].K == KSlice && rv[0].Len > 0 {
				v := rv[0]
				full = &v
			}
		}
		if len(in.Stuck) > 0 || out.CanPanic || full == nil || full.Len < n {
			return nil, false
		}
		var tail []Val
		for i := full.Len - n; i < full.Len; i++ {
			tail = append(tail, in.Elem(*full, i, typByte))
		}
		return tail, true
	}
	switch kind {
	case "bool":
		for n := 1; n <= 3; n++ {
			for mask := 0; mask < 1<<n; mask++ {
				m := mask
				tail, ok := run(func(in *Interp) {
					in.PathBind["p0.values"] = Val{K: KSlice, S: "p0.values", Len: n}
					for i := 0; i < n; i++ {
						in.PathBind[fmt.Sprintf("p0.values[%d]", i)] = boolVal(m>>i&1 == 1)
					}
				}, n)
				if !ok {
					return "", false, false
				}
				for i, e := range tail {
					want := int64(m >> i & 1)
					if e.K != KInt {
						return "", false, false
					}
					if e.I.Int64() != want {
						bad = append(bad, fmt.Sprintf("element %d of %d (%v) is emitted as %s; E5 requires %d", i, n, want == 1, e, want))
					}
				}
			}
		}
		// sizes beyond every constant of the function's own code (all true,
		// then all false)
		for _, n := range extraSizes(fn) {
			for _, val := range []bool{true, false} {
				nn, vv := n, val
				tail, ok := run(func(in *Interp) {
					in.PathBind["p0.values"] = Val{K: KSlice, S: "p0.values", Len: nn}
					for i := 0; i < nn; i++ {
						in.PathBind[fmt.Sprintf("p0.values[%d]", i)] = boolVal(vv)
					}
				}, nn)
				if !ok {
					return "", false, false
				}
				for i, e := range tail {
					want := int64(0)
					if vv {
						want = 1
					}
					if e.K != KInt {
						return "", false, false
					}
					if e.I.Int64() != want {
						bad = append(bad, fmt.Sprintf("element %d of %d (%v) is emitted as %s; E5 requires %d", i, nn, vv, e, want))
					}
				}
			}
		}
		if len(bad) > 0 {
			return strings.Join(firstN(uniq(bad), 3), "; "), true, false
		}
		return fmt.Sprintf("evaluated on every combination of one to three booleans (and on %d longer nodes, beyond every constant of the encoder's code): each element is emitted, in order, as 1 (true) or 0 (false)", 2*len(extraSizes(fn))), true, true
	case "byte":
		for _, n := range append([]int{1, 2, 3}, extraSizes(fn)...) {
			tail, ok := run(func(in *Interp) { in.PathBind["p0.values"] = Val{K: KSlice, S: "p0.values", Len: n} }, n)
			if !ok {
				return "", false, false
			}
			for i, e := range tail {
				want := fmt.Sprintf("byte(p0.values[%d])", i)
				if e.K != KSym {
					return "", false, false
				}
				if e.S != want {
					bad = append(bad, fmt.Sprintf("element %d of %d is emitted as %s, expected %s", i, n, e, want))
				}
			}
		}
		if len(bad) > 0 {
			return strings.Join(firstN(uniq(bad), 3), "; "), true, false
		}
		return "evaluated on one to three elements of arbitrary value: each element v is emitted, in order, as the single byte byte(v)", true, true
	case "string":
		var values []string
		for c := 0; c < 128; c++ {
			values = append(values, string(rune(c)))
		}
		values = append(values, "ab", "a\x00b", "\x7f~ ", "zyx")
		for _, v := range values {
			vv := v
			tail, ok := run(func(in *Interp) {
				in.PathBind["p0.isValue"] = boolVal(true)
				in.PathBind["p0.value"] = strVal(vv)
			}, len(vv))
			if !ok {
				return "", false, false
			}
			for i, e := range tail {
				if e.K != KInt {
					return "", false, false
				}
				if e.I.Int64() != int64(vv[i]) {
					bad = append(bad, fmt.Sprintf("character %d of %q is emitted as %s", i, vv, e))
				}
			}
		}
		if len(bad) > 0 {
			return strings.Join(firstN(uniq(bad), 3), "; "), true, false
		}
		return "evaluated on every ASCII character and some longer strings: the payload is the string's bytes in order", true, true
	}
	return "", false, false
}

// printsVariables evaluates an array node's String() on three elements of
// which one position (each of the three in turn) is a variable, and on a node
// with two variables: the variable's name must stand at its own position, the
// other elements keep their texts.
func printsVariables(p *Prog, fn *ssa.Function, f itemFormat) (detail string, decided, good bool) {
	elemText := "§"
	if f.Node == "BinaryNode" {
		elemText = "0b§"
	}
	isBool := f.Node == "BooleanNode"
	if isBool {
		elemText = "F"
	}
	type scen struct{ vars map[string]int64 }
	scens := []scen{{map[string]int64{"x": 0}}, {map[string]int64{"x": 1}}, {map[string]int64{"x": 2}}, {map[string]int64{"first": 0, "last": 2}}}
	var bad []string
	for _, sc := range scens {
		in := NewInterp(p)
		if f.ByteSz != 0 {
			in.PathBind["p0.byteSize"] = int64Val(int64(f.ByteSz))
		}
		in.PathBind["p0.values"] = Val{K: KSlice, S: "p0.values", Len: 3}
		var keys []Val
		var names []string
		for name := range sc.vars {
			names = append(names, name)
		}
		sort.Strings(names)
		want := []string{elemText, elemText, elemText}
		for _, name := range names {
			keys = append(keys, strVal(name))
			in.InitBind["p0.variables["+strVal(name).String()+"]"] = int64Val(sc.vars[name])
			want[sc.vars[name]] = name
		}
		in.MapKeys["p0.variables"] = keys
		if isBool {
			for i := 0; i < 3; i++ {
				in.PathBind[fmt.Sprintf("p0.values[%d]", i)] = boolVal(false)
			}
		} else {
			in.Bind = func(v ssa.Value, fr *frame) (Val, bool) {
				if c, ok := v.(*ssa.Call); ok && withinFn(fr.fn, fn) {
					if sc := c.Common().StaticCallee(); sc != nil && sc.Pkg != nil && sc.Pkg.Pkg.Path() == "strconv" && strings.HasPrefix(sc.Name(), "Format") {
						return strVal("§"), true
					}
				}
				return Val{}, false
			}
			in.TextModel = func(c *ssa.Call, callee *ssa.Function, fr *frame) (string, bool) {
				return "§", true
			}
		}
		out := in.Run(fn, defaultArgs(fn), nil)
		rets := out.Frame.ReturnVals()
		if len(in.Stuck) > 0 || len(rets) != 1 || rets[0][0].K != KStr || out.CanPanic {
			if os.Getenv("SC_TRACE_PRINT") != "" {
				fmt.Fprintf(os.Stderr, "printsVariables %s: stuck=%v rets=%v canpanic=%v\n", FnName(fn), in.Stuck, rets, out.CanPanic)
			}
			return "", false, false
		}
		wantText := fmt.Sprintf("<%s[3] %s>", f.SML, strings.Join(want, " "))
		if rets[0][0].S != wantText {
			bad = append(bad, fmt.Sprintf("with the variables %v the node prints %q, expected %q", sc.vars, rets[0][0].S, wantText))
		}
	}
	if len(bad) > 0 {
		return strings.Join(firstN(bad, 3), "; "), true, false
	}
	return "evaluated on three elements with a variable at each position in turn and with two variables: every name is printed at its own position, the other elements keep their texts", true, true
}

// headerLexesBack evaluates Header() for every wait-bit state, direction and
// four code pairs and lexes the printed text with the library's own header
// state: the tokens must be the stream/function code, the wait bit (when one
// is printed) and the direction, with exactly the printed spellings.
func headerLexesBack(p *Prog, hf *ssa.Function) (detail string, decided, good bool) {
	ttSF, ok1 := smlConst(p, "tokenTypeStreamFunction")
	ttW, ok2 := smlConst(p, "tokenTypeWaitBit")
	ttD, ok3 := smlConst(p, "tokenTypeDirection")
	ttEnd, ok4 := smlConst(p, "tokenTypeMessageEnd")
	if !ok1 || !ok2 || !ok3 || !ok4 {
		return "", false, false
	}
	var bad []string
	n := 0
	for _, w := range []int64{0, 1, 2} {
		for _, dir := range []string{"H->E", "H<-E", "H<->E"} {
			for _, sf := range [][2]int64{{0, 0}, {1, 1}, {127, 255}, {6, 11}} {
				if w == 1 && sf[1]%2 == 0 {
					continue
				}
				in := NewInterp(p)
				in.PathBind["p0.waitBit"] = int64Val(w)
				in.PathBind["p0.direction"] = strVal(dir)
				in.PathBind["p0.stream"] = int64Val(sf[0])
				in.PathBind["p0.function"] = int64Val(sf[1])
				in.PathBind["p0.name"] = strVal("")
				out := in.Run(hf, defaultArgs(hf), nil)
				rets := out.Frame.ReturnVals()
				if len(rets) != 1 || rets[0][0].K != KStr {
					return "", false, false
				}
				text := rets[0][0].S
				toks, ok := lexAll(p, "lexMessageHeader", text+"\n.", 100)
				if !ok {
					return "", false, false
				}
				n++
				wantKinds := []int64{ttSF, ttD}
				wantVals := []string{fmt.Sprintf("S%dF%d", sf[0], sf[1]), dir}
				if w != 0 {
					wantKinds = []int64{ttSF, ttW, ttD}
					wantVals = []string{wantVals[0], map[int64]string{1: "W", 2: "[W]"}[w], dir}
				}
				var gotKinds []int64
				var gotVals []string
				for _, t := range toks {
					if t.typ == ttEnd {
						break
					}
					gotKinds = append(gotKinds, t.typ)
					gotVals = append(gotVals, t.val)
				}
				if fmt.Sprint(gotKinds) != fmt.Sprint(wantKinds) || strings.Join(gotVals, "|") != strings.Join(wantVals, "|") {
					bad = append(bad, fmt.Sprintf("the printed header %q is lexed as %q, expected %q", text, gotVals, wantVals))
				}
			}
		}
	}
	if len(bad) > 0 {
		return strings.Join(firstN(uniq(bad), 3), "; "), true, false
	}
	return fmt.Sprintf("%d printed headers (3 wait-bit states x 3 directions x 4 codes), each lexed by the header state of the library itself: the tokens are the stream/function code, the wait bit when one is printed, and the direction, spelled as printed", n), true, true
}

// numberPrefixesByEvaluation lexes numbers with each radix prefix, hexadecimal
// digits and the exponent marker in both letter cases.
func numberPrefixesByEvaluation(p *Prog, nf *ssa.Function) (detail string, decided, good bool) {
	ttN, ok := smlConst(p, "tokenTypeNumber")
	if !ok {
		return "", false, false
	}
	lits := []string{"0x1F", "0X1f", "0xabcdef", "0XABCDEF", "0b101", "0B101", "0o17", "0O17", "1e5", "1E5", "1.5e-3", "1.5E+3", "-0x7f", "+0B1"}
	var bad []string
	for _, l := range lits {
		res, ok := lexRun(p, nf, l+" >", 0, "lexMessageText")
		if !ok || len(res.toks) != 1 {
			return "", false, false
		}
		if res.toks[0].typ != ttN || res.toks[0].val != l {
			bad = append(bad, fmt.Sprintf("the literal %s is lexed as %q (token type %d)", l, res.toks[0].val, res.toks[0].typ))
		}
	}
	if len(bad) > 0 {
		return strings.Join(firstN(bad, 3), "; "), true, false
	}
	return fmt.Sprintf("evaluated on %d literals: the 0x/0b/0o prefixes, hexadecimal digits and the exponent marker are accepted in both letter cases and stay in one number token", len(lits)), true, true
}

// listVariablesByEvaluation evaluates ListNode.Variables on a list of four
// elements - a child whose Variables() is bound to [a], the variable x, a
// child bound to [b c], the variable y - and expects [a x b c y]: children in
// index order, every own variable at its own position.
func listVariablesByEvaluation(p *Prog, fn *ssa.Function) (detail string, decided, good bool) {
	leaf, empty := p.namedType(modPath+"/pkg/ast", "IntNode"), p.namedType(modPath+"/pkg/ast", "emptyItemNode")
	if leaf == nil || empty == nil {
		return "", false, false
	}
	in := NewInterp(p)
	in.PathBind["p0.values"] = Val{K: KSlice, S: "p0.values", Len: 4}
	c0, c2 := Val{K: KPtr, S: "child0"}, Val{K: KPtr, S: "child2"}
	ph := Val{K: KAgg, S: "placeholder", Agg: map[string]cell{}}
	in.PathBind["p0.values[0]"] = Val{K: KIface, T: types.NewPointer(leaf), Inner: &c0}
	in.PathBind["p0.values[1]"] = Val{K: KIface, T: empty, Inner: &ph}
	in.PathBind["p0.values[2]"] = Val{K: KIface, T: types.NewPointer(leaf), Inner: &c2}
	in.PathBind["p0.values[3]"] = Val{K: KIface, T: empty, Inner: &ph}
	in.MapKeys["p0.variables"] = []Val{strVal("x"), strVal("y")}
	in.InitBind[`p0.variables["x"]`] = int64Val(1)
	in.InitBind[`p0.variables["y"]`] = int64Val(3)
	in.PathBind["vars0"] = Val{K: KSlice, S: "vars0", Len: 1}
	in.PathBind["vars0[0]"] = strVal("a")
	in.PathBind["vars2[0]"] = strVal("b")
	in.PathBind["vars2[1]"] = strVal("c")
	in.Bind = func(v ssa.Value, fr *frame) (Val, bool) {
		c, ok := v.(*ssa.Call)
		if !ok || !c.Common().IsInvoke() || c.Common().Method.Name() != "Variables" {
			return Val{}, false
		}
		recv := fr.eval(c.Common().Value)
		if recv.K != KIface || recv.Inner == nil {
			return Val{}, false
		}
		switch recv.Inner.S {
		case "child0":
			return Val{K: KSlice, S: "vars0", Len: 1}, true
		case "child2":
			return Val{K: KSlice, S: "vars2", Len: 2}, true
		case "placeholder":
			return Val{K: KSlice, S: "none", Len: 0}, true
		}
		return Val{}, false
	}
	out := in.Run(fn, defaultArgs(fn), nil)
	rets := out.Frame.ReturnVals()
	if len(in.Stuck) > 0 || out.CanPanic || len(rets) != 1 || rets[0][0].K != KSlice || rets[0][0].Len < 0 {
		return "", false, false
	}
	var got []string
	for i := 0; i < rets[0][0].Len; i++ {
		e := in.Elem(rets[0][0], i, types.Typ[types.String])
		if e.K != KStr {
			return "", false, false
		}
		got = append(got, e.S)
	}
	if strings.Join(got, " ") != "a x b c y" {
		return fmt.Sprintf("a list of [child with variables a] x [child with variables b c] y lists %v, expected [a x b c y]: the names must come in the order of the positions they stand at", got), true, false
	}
	return "evaluated on a list of two children and two own variables: the names come in index order - a child's names where the child stands, an own variable's name at its own position", true, true
}

// decodeSequence: what the decoder reads for one item must not depend on the
// items before it. The item decoder is evaluated on a list of three items
// whose length fields have 2, 1 and 3 bytes (256 ASCII bytes, one U1, one
// I2): each factory must be reached with its own element count, the list with
// three elements, and the decoder must end at the end of the text.
func decodeSequence(p *Prog, r *Report, rule string) {
	key := rule + ":hsms.parseMessageText:sequence-of-items"
	fn := p.Func("hsms", "(*parser).parseMessageText")
	if fn == nil {
		r.unk(rule, key, "", "(*parser).parseMessageText not found")
		return
	}
	pos := p.Pos(fn.Pos())
	const at = 16
	bytesAt := map[int]int64{}
	o := at
	put := func(bs ...int64) {
		for _, b := range bs {
			bytesAt[o] = b
			o++
		}
	}
	put(0o00<<2|1, 3)       // L[3]
	put(0o20<<2|2, 1, 0)    // A, 2 length bytes: 256
	o += 256                // payload stays symbolic
	put(0o51<<2|1, 1)       // U1, 1 length byte: 1
	o += 1                  //
	put(0o32<<2|3, 0, 0, 2) // I2, 3 length bytes: 2
	o += 2
	total := o
	in := decoderInterp(p)
	in.Symbolic = true
	in.Recursion = 1 // the list's elements are decoded by a nested activation
	in.InitBind["p0.pos"] = int64Val(at)
	in.PathBind["p0.msgLength"] = int64Val(int64(total - 4))
	in.PathBind["len(p0.input)"] = int64Val(int64(total))
	for off, b := range bytesAt {
		in.PathBind[fmt.Sprintf("p0.input[%d]", off)] = int64Val(b)
	}
	var seq []string
	in.OnCall = func(call *ssa.Call, callee *ssa.Function, a []Val, fr *frame) {
		if !isFactory(callee) || callee.Name() == "NewEmptyItemNode" {
			return
		}
		n := "?"
		if len(a) > 0 {
			switch last := a[len(a)-1]; {
			case last.K == KSlice && last.Len >= 0:
				n = fmt.Sprint(last.Len)
			case last.K == KSym:
				n = last.S
			}
		}
		seq = append(seq, callee.Name()+"/"+n)
	}
	out := in.Run(fn, defaultArgs(fn), nil)
	if len(in.Stuck) > 0 {
		r.unk(rule, key, pos, "evaluation stuck")
		return
	}
	end := in.Load("p0.pos", types.Typ[types.Int])
	success := false
	for _, rv := range out.Frame.ReturnVals() {
		if len(rv) == 2 && rv[1].K == KBool && rv[1].B {
			success = true
		}
	}
	want := []string{fmt.Sprintf("NewASCIINode/string(p0.input[%d:%d])", at+5, at+5+256), "NewUintNode/1", "NewIntNode/1", "NewListNode/3"}
	var probs []string
	if strings.Join(seq, " ") != strings.Join(want, " ") {
		probs = append(probs, fmt.Sprintf("the items are built as %v, expected %v", seq, want))
	}
	if !success {
		probs = append(probs, "the well-formed list is not accepted")
	}
	if !(end.K == KInt && end.I.Int64() == int64(total)) {
		probs = append(probs, fmt.Sprintf("the decoder ends at %s, the text ends at %d", end, total))
	}
	if len(probs) > 0 {
		r.bad(rule, key, pos, "a list of an A item with a 2-byte length (256), a U1 item with a 1-byte length and an I2 item with a 3-byte length: "+strings.Join(probs, "; ")+" - what is read for one item depends on the items before it")
	} else {
		r.ok(rule, key, pos, "evaluated on a list of three items whose length fields have 2, 1 and 3 bytes: every item is built with its own length, the list with three elements, and the decoder ends at the end of the text")
	}
}

// decodeShortList: a list that declares more elements than the text holds is
// not a well-formed item. The item decoder is evaluated on concrete texts
// that end at an element boundary before the declared count is reached (and
// on the complete texts next to them): it must refuse the short ones and
// accept the complete ones.
func decodeShortList(p *Prog, r *Report, rule string) {
	key := rule + ":hsms.parseMessageText:short-list"
	fn := p.Func("hsms", "(*parser).parseMessageText")
	if fn == nil {
		r.unk(rule, key, "", "(*parser).parseMessageText not found")
		return
	}
	pos := p.Pos(fn.Pos())
	const at = 14
	type sample struct {
		what   string
		bytes  []int64
		accept bool
		list   string // the outermost list built when accepted
	}
	samples := []sample{
		{"L[2] holding one U1", []int64{0x01, 2, 0xA5, 1, 7}, false, ""},
		{"L[2] holding two U1", []int64{0x01, 2, 0xA5, 1, 7, 0xA5, 1, 8}, true, "NewListNode/2"},
		{"L[1] holding nothing", []int64{0x01, 1}, false, ""},
		{"L[0]", []int64{0x01, 0}, true, "NewListNode/0"},
		{"L[3] holding two empty lists", []int64{0x01, 3, 0x01, 0, 0x01, 0}, false, ""},
		{"L[3] holding three empty lists", []int64{0x01, 3, 0x01, 0, 0x01, 0, 0x01, 0}, true, "NewListNode/3"},
		{"L[1] holding L[2] holding one binary byte", []int64{0x01, 1, 0x01, 2, 0x21, 1, 9}, false, ""},
		{"L[1] holding L[2] holding two binary items", []int64{0x01, 1, 0x01, 2, 0x21, 1, 9, 0x21, 0}, true, "NewListNode/1"},
	}
	var probs, undec []string
	for _, sm := range samples {
		in := decoderInterp(p)
		in.Recursion = 2
		total := at + len(sm.bytes)
		in.InitBind["p0.pos"] = int64Val(at)
		in.PathBind["p0.msgLength"] = int64Val(int64(total - 4))
		in.PathBind["len(p0.input)"] = int64Val(int64(total))
		for i, b := range sm.bytes {
			in.PathBind[fmt.Sprintf("p0.input[%d]", at+i)] = int64Val(b)
		}
		last := ""
		in.OnCall = func(call *ssa.Call, callee *ssa.Function, a []Val, fr *frame) {
			if callee.Name() == "NewListNode" && len(a) > 0 {
				if l := a[len(a)-1]; l.K == KSlice && l.Len >= 0 {
					last = fmt.Sprintf("NewListNode/%d", l.Len)
				} else if l.K == KNil {
					last = "NewListNode/0"
				} else {
					last = "NewListNode/?"
				}
			}
		}
		out := in.Run(fn, defaultArgs(fn), nil)
		if os.Getenv("SC_TRACE8") != "" {
			fmt.Fprintf(os.Stderr, "%s: stuck=%v panic=%v rets=%v last=%s\n", sm.what, in.Stuck, out.CanPanic, out.Frame.ReturnVals(), last)
		}
		if len(in.Stuck) > 0 || out.Frame == nil {
			undec = append(undec, sm.what+": evaluation stuck")
			continue
		}
		canOK, canFail := false, false
		for _, rv := range out.Frame.ReturnVals() {
			if len(rv) == 2 && rv[1].K == KBool {
				if rv[1].B {
					canOK = true
				} else {
					canFail = true
				}
			} else {
				canOK, canFail = true, true
			}
		}
		if len(out.Frame.ReturnVals()) == 0 && out.CanPanic {
			canFail = true // no return is reached: the panic is turned into a refusal by the caller's recover
		}
		switch {
		case canOK && canFail:
			undec = append(undec, fmt.Sprintf("%s (%s): the evaluation does not decide between acceptance and refusal", sm.what, hexOf(sm.bytes)))
		case sm.accept && !canOK:
			probs = append(probs, fmt.Sprintf("%s (%s) is refused", sm.what, hexOf(sm.bytes)))
		case !sm.accept && canOK:
			probs = append(probs, fmt.Sprintf("%s (%s) is accepted although the text ends before the declared number of elements", sm.what, hexOf(sm.bytes)))
		case sm.accept && last != sm.list:
			probs = append(probs, fmt.Sprintf("%s (%s) is built as %s", sm.what, hexOf(sm.bytes), last))
		}
	}
	switch {
	case len(probs) > 0:
		r.bad(rule, key, pos, strings.Join(firstN(probs, 3), "; "))
	case len(undec) > 0:
		r.unk(rule, key, pos, strings.Join(firstN(undec, 3), "; "))
	default:
		r.ok(rule, key, pos, fmt.Sprintf("evaluated on %d concrete texts: a list whose text ends at an element boundary before the declared count is refused (also one level down), the complete text next to it is accepted with the declared count", len(samples)))
	}
}

func hexOf(bs []int64) string {
	var parts []string
	for _, b := range bs {
		parts = append(parts, fmt.Sprintf("%02x", b))
	}
	return strings.Join(parts, " ")
}

// withinFn: f is fn or a function literal nested in it.
func withinFn(f, fn *ssa.Function) bool {
	for ; f != nil; f = f.Parent() {
		if f == fn {
			return true
		}
	}
	return false
}

// notationByEvaluation: the printer of a numeric, binary or boolean node
// evaluated on concrete element values chosen so that every other base,
// float format, precision or width gives a different text (extremes of the
// width, values of 2 and more digits, floats whose shortest form differs from
// fixed-precision forms). The expected texts are the SML literals the reader
// takes back to the same value.
func notationByEvaluation(p *Prog, fn *ssa.Function, f itemFormat) (string, bool, bool) {
	var vals []Val
	var texts []string
	bits := uint(8 * f.ByteSz)
	switch f.Node {
	case "BinaryNode":
		for _, v := range []int64{0, 1, 2, 10, 127, 128, 255} {
			vals = append(vals, int64Val(v))
			texts = append(texts, "0b"+strconv.FormatInt(v, 2))
		}
	case "BooleanNode":
		vals, texts = []Val{boolVal(true), boolVal(false)}, []string{"T", "F"}
	case "IntNode":
		for _, v := range []int64{0, 9, 10, -10, 100, -1, 1<<(bits-1) - 1, -1 << (bits - 1)} {
			vals = append(vals, int64Val(v))
			texts = append(texts, strconv.FormatInt(v, 10))
		}
	case "UintNode":
		us := []uint64{0, 9, 10, 100, 255, 1<<(bits-1) + 1, 1<<bits - 1}
		if bits == 64 {
			us[len(us)-1] = math.MaxUint64
		}
		for _, v := range us {
			vals = append(vals, Val{K: KInt, I: new(big.Int).SetUint64(v)})
			texts = append(texts, strconv.FormatUint(v, 10))
		}
	case "FloatNode":
		fs := []float64{0, 1, -1.5, 0.1, 100000, 1e21, 1e-7, 123456789, 0.30000000000000004, 3.4028234663852886e38, 1.401298464324817e-45}
		if f.ByteSz == 8 {
			fs = append(fs, math.MaxFloat64, 5e-324, 1.0000000000000002)
		}
		for _, v := range fs {
			vals = append(vals, floatVal(v))
			texts = append(texts, strconv.FormatFloat(v, 'g', -1, int(bits)))
		}
	default:
		return "", false, false
	}
	in := NewInterp(p)
	if f.ByteSz != 0 {
		in.PathBind["p0.byteSize"] = int64Val(int64(f.ByteSz))
	}
	in.PathBind["p0.values"] = Val{K: KSlice, S: "p0.values", Len: len(vals)}
	in.PathBind["len(p0.variables)"] = int64Val(0)
	in.MapKeys["p0.variables"] = nil
	for i, v := range vals {
		in.PathBind[fmt.Sprintf("p0.values[%d]", i)] = v
	}
	out := in.Run(fn, defaultArgs(fn), nil)
	if out.Frame == nil {
		return "", false, false
	}
	rets := out.Frame.ReturnVals()
	if len(in.Stuck) > 0 || len(rets) != 1 || len(rets[0]) != 1 || rets[0][0].K != KStr {
		return "", false, false
	}
	got := rets[0][0].S
	i := strings.Index(got, "] ")
	if i < 0 || !strings.HasSuffix(got, ">") {
		return "", false, false
	}
	parts := strings.Split(got[i+2:len(got)-1], " ")
	if len(parts) != len(texts) {
		return fmt.Sprintf("a node of %d elements prints %d element texts: %q", len(texts), len(parts), got), true, false
	}
	var bad []string
	for k := range texts {
		if parts[k] != texts[k] {
			bad = append(bad, fmt.Sprintf("the element %s is printed as %q, the literal that reads back to it is %q", vals[k], parts[k], texts[k]))
		}
	}
	if len(bad) > 0 {
		return strings.Join(firstN(bad, 3), "; "), true, false
	}
	return fmt.Sprintf("evaluated on %d element values (extremes of the width, several digits, floats whose shortest form differs from fixed forms): each is printed as the literal the reader takes back to the same value", len(vals)), true, true
}

// notationOfNode evaluates the printer for every width of the node type.
func notationOfNode(p *Prog, fn *ssa.Function, node string) (string, bool, bool) {
	detail, n := "", 0
	for _, f := range e5Formats {
		if f.Node != node {
			continue
		}
		d, decided, good := notationByEvaluation(p, fn, f)
		if !decided {
			return "", false, false
		}
		if !good {
			return f.SML + ": " + d, true, false
		}
		detail = d
		n++
	}
	if n == 0 {
		return "", false, false
	}
	if n > 1 {
		detail = fmt.Sprintf("for each of the %d widths: ", n) + detail
	}
	return detail, true, true
}

// variableNamesByEvaluation: getVariableNames evaluated on maps of up to four
// names with distinct positions, the names visited in several orders: the
// result must list them by ascending position.
func variableNamesByEvaluation(p *Prog, fn *ssa.Function, mapPath string) (string, bool, bool) {
	type scen struct {
		visit []string
		pos   map[string]int64
		want  []string
	}
	scens := []scen{
		{[]string{"a", "b", "c"}, map[string]int64{"a": 2, "b": 0, "c": 1}, []string{"b", "c", "a"}},
		{[]string{"c", "b", "a"}, map[string]int64{"a": 2, "b": 0, "c": 1}, []string{"b", "c", "a"}},
		{[]string{"x", "y"}, map[string]int64{"x": 7, "y": 3}, []string{"y", "x"}},
		{[]string{"y", "x"}, map[string]int64{"x": 0, "y": 1}, []string{"x", "y"}},
		{[]string{"d", "a", "c", "b"}, map[string]int64{"a": 10, "b": 300, "c": 2, "d": 11}, []string{"c", "a", "d", "b"}},
		{[]string{"only"}, map[string]int64{"only": 5}, []string{"only"}},
		{nil, map[string]int64{}, nil},
	}
	for _, sc := range scens {
		in := NewInterp(p)
		var keys []Val
		for _, k := range sc.visit {
			keys = append(keys, strVal(k))
			in.InitBind[mapPath+"["+strVal(k).String()+"]"] = int64Val(sc.pos[k])
		}
		in.MapKeys[mapPath] = keys
		in.PathBind["len("+mapPath+")"] = int64Val(int64(len(keys)))
		args := defaultArgs(fn)
		if len(args) > 0 && mapPath == "p0" {
			args[0] = Val{K: KPtr, S: "p0"}
		}
		out := in.Run(fn, args, nil)
		if out.Frame == nil || len(in.Stuck) > 0 {
			return "", false, false
		}
		rets := out.Frame.ReturnVals()
		if len(rets) != 1 || len(rets[0]) != 1 || rets[0][0].K != KSlice || rets[0][0].Len < 0 {
			return "", false, false
		}
		var got []string
		for i := 0; i < rets[0][0].Len; i++ {
			e := in.Elem(rets[0][0], i, types.Typ[types.String])
			if e.K != KStr {
				return "", false, false
			}
			got = append(got, e.S)
		}
		if strings.Join(got, ",") != strings.Join(sc.want, ",") {
			return fmt.Sprintf("for the positions %v (names visited in the order %v) the names are listed as %v, expected %v: not ascending by position", sc.pos, sc.visit, got, sc.want), true, false
		}
	}
	return fmt.Sprintf("evaluated on %d maps of up to four names with distinct positions, visited in several orders: the names are listed by ascending position", len(scens)), true, true
}
