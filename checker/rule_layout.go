package main

import (
	"fmt"
	"go/token"
	"go/types"
	"regexp"
	"strconv"
	"strings"

	"golang.org/x/tools/go/ssa"
)

func symInterp(p *Prog) *Interp {
	in := NewInterp(p)
	in.Symbolic = true
	return in
}

// fieldVal renders what a producer stored into field f of the fresh object at path.
func heapTerm(in *Interp, path string) string {
	v, ok := in.HeapAt(path)
	if !ok {
		return "<not stored>"
	}
	switch v.K {
	case KSlice:
		if v.Len >= 0 {
			return fmt.Sprintf("%s[%d:%d]", v.S, v.Off, v.Off+v.Len)
		}
		return fmt.Sprintf("%s[%d:]", v.S, v.Off)
	}
	return v.String()
}

// heapTermT is heapTerm for a cell of known type: a field that was not
// written itself but belongs to an object copied as a whole (*dst = *src) reads
// as the corresponding field of the source.
func heapTermT(in *Interp, path string, t types.Type) string {
	if _, ok := in.HeapAt(path); ok {
		return heapTerm(in, path)
	}
	v := in.Load(path, t)
	switch v.K {
	case KSlice:
		if v.Len >= 0 {
			return fmt.Sprintf("%s[%d:%d]", v.S, v.Off, v.Off+v.Len)
		}
		return fmt.Sprintf("%s[%d:]", v.S, v.Off)
	}
	return v.String()
}

// ---------------------------------------------------------------------------
// R11 frame — message producers copy every field they do not name.

func ruleFrame(p *Prog, r *Report) {
	const rule = "R11-frame"
	dm := p.Pkgs["ast"].Types.Scope().Lookup("DataMessage")
	if dm == nil {
		r.unk(rule, "anchor:ast.DataMessage", "", "type not found")
		return
	}
	st, ok := dm.Type().Underlying().(*types.Struct)
	if !ok {
		r.unk(rule, "anchor:ast.DataMessage", "", "not a struct")
		return
	}
	type producer struct {
		name     string
		modifies map[string]bool
		setup    func(in *Interp, fn *ssa.Function, args []Val)
		expect   map[string]func(in *Interp, path string) string // field -> "" if ok, else complaint
	}
	prods := []producer{
		{name: "SetWaitBit", modifies: map[string]bool{"waitBit": true},
			setup: func(in *Interp, fn *ssa.Function, args []Val) { in.PathBind["p0.waitBit"] = int64Val(2) }},
		{name: "SetSessionIDAndSystemBytes", modifies: map[string]bool{"sessionID": true, "systemBytes": true}},
		{name: "FillVariables", modifies: map[string]bool{"dataItem": true}},
	}
	for _, pr := range prods {
		fn := p.MustFunc(r, "ast", "(*DataMessage)."+pr.name)
		if fn == nil {
			continue
		}
		pos := p.Pos(fn.Pos())
		// every return must hand out a freshly built message; the fields are
		// then read from the memory at that return
		type result struct {
			obj   string
			store Store
		}
		var results []result
		run := func(extra func(in *Interp, args []Val)) (*Interp, string, bool) {
			in := symInterp(p)
			args := defaultArgs(fn)
			if pr.setup != nil {
				pr.setup(in, fn, args)
			}
			if extra != nil {
				extra(in, args)
			}
			out := in.Run(fn, args, nil)
			rets := out.Frame.ReturnVals()
			stores := out.Frame.ReturnStores()
			results = nil
			for i, rv := range rets {
				if len(rv) != 1 || rv[0].K != KPtr || !strings.Contains(rv[0].S, "#") {
					return in, "", false
				}
				results = append(results, result{rv[0].S, stores[i]})
			}
			if len(results) == 0 {
				return in, "", false
			}
			in.At(results[0].store)
			return in, results[0].obj, true
		}
		in, obj, ok := run(nil)
		if !ok {
			r.unk(rule, fmt.Sprintf("%s:ast.(*DataMessage).%s:result", rule, pr.name), pos, "some return of the producer does not hand out a freshly allocated DataMessage")
			continue
		}
		all := append([]result{}, results...)
		for i := 0; i < st.NumFields(); i++ {
			f := st.Field(i).Name()
			key := fmt.Sprintf("%s:ast.(*DataMessage).%s:%s", rule, pr.name, f)
			if !pr.modifies[f] {
				want := "p0." + f
				if _, isSlice := st.Field(i).Type().Underlying().(*types.Slice); isSlice {
					want = "p0." + f + "[0:]"
				}
				wrong := ""
				for _, res := range all {
					in.At(res.store)
					if got := heapTermT(in, res.obj+"."+f, st.Field(i).Type()); got != want {
						wrong = got
					}
				}
				if wrong == "" {
					r.ok(rule, key, pos, fmt.Sprintf("field %s of the result is the receiver's %s (on each of the %d returns)", f, f, len(all)))
				} else {
					r.bad(rule, key, pos, fmt.Sprintf("%s must leave %s unchanged, but on some return the result's %s is %s instead of the receiver's", pr.name, f, f, wrong))
				}
				continue
			}
			in.At(all[0].store)
			obj = all[0].obj
			got := heapTermT(in, obj+"."+f, st.Field(i).Type())
			for _, res := range all[1:] {
				in.At(res.store)
				if g2 := heapTermT(in, res.obj+"."+f, st.Field(i).Type()); g2 != got {
					got = got + " | " + g2 // differs between returns: no expected value matches
				}
			}
			in.At(all[0].store)
			// fields the producer is meant to set
			switch pr.name + "." + f {
			case "SetWaitBit.waitBit":
				var vals []string
				for _, b := range []bool{false, true} {
					bb := b
					in2, obj2, ok2 := run(func(in *Interp, args []Val) { args[1] = boolVal(bb) })
					if !ok2 {
						vals = append(vals, "?")
					} else {
						vals = append(vals, heapTerm(in2, obj2+".waitBit"))
					}
				}
				if strings.Join(vals, ",") == "0,1" {
					r.ok(rule, key, pos, "the new wait bit is 0 for false and 1 for true")
				} else {
					r.bad(rule, key, pos, "SetWaitBit(false/true) stores wait bit "+strings.Join(vals, "/")+" instead of 0/1")
				}
			case "SetSessionIDAndSystemBytes.sessionID":
				if got == "sessionID" {
					r.ok(rule, key, pos, "the new session id is the argument")
				} else {
					r.bad(rule, key, pos, "the result's session id is "+got+", not the sessionID argument")
				}
			case "SetSessionIDAndSystemBytes.systemBytes":
				v, _ := in.HeapAt(obj + ".systemBytes")
				el, _ := in.HeapAt(v.S + "[*]")
				if v.K == KSlice && strings.Contains(v.S, "#") && v.Len == 4 && v.Off == 0 && el.K == KSym && el.S == "p2[*]" {
					r.ok(rule, key, pos, "the new system bytes are a fresh 4-byte buffer filled from the argument")
				} else {
					r.bad(rule, key, pos, fmt.Sprintf("the result's system bytes are %s (elements %s); expected a fresh 4-byte copy of the argument", got, el))
				}
			case "FillVariables.dataItem":
				if got == "p0.dataItem.FillVariables(&p1)" {
					r.ok(rule, key, pos, "the new item is the receiver's item filled with the caller's map")
				} else {
					r.bad(rule, key, pos, "the result's item is "+got+", not receiver.dataItem.FillVariables(values)")
				}
			}
		}
	}
	// SetWaitBit returns the receiver itself exactly when the wait bit was already decided
	if fn := p.MustFunc(r, "ast", "(*DataMessage).SetWaitBit"); fn != nil {
		CheckDomain(p, r, DomainSpec{Rule: rule, Key: rule + ":ast.(*DataMessage).SetWaitBit:early-return", Fn: fn,
			Subjs:  []Subj{{Name: "receiver wait bit", Kind: SPath, Path: "p0.waitBit", Type: typInt}},
			Consts: []int64{0, 1, 2, 3}, What: "the receiver is returned unchanged iff its wait bit is not optional (2)",
			Accept: func(v []Val) bool { return !inRange(v[0], 2, 2) },
			Survive: func(out Outcome, in *Interp) bool {
				rets := out.Frame.ReturnVals()
				return len(rets) == 1 && rets[0][0].K == KPtr && rets[0][0].S == "p0"
			}})
	}
	// SetWaitBit on a message whose wait bit is already decided never refuses,
	// whatever the argument and the function code are
	if fn := p.MustFunc(r, "ast", "(*DataMessage).SetWaitBit"); fn != nil {
		key := rule + ":ast.(*DataMessage).SetWaitBit:decided-never-refuses"
		var bad []string
		for _, w := range []int64{0, 1} {
			for _, arg := range []bool{false, true} {
				for _, f := range []int64{0, 1, 2, 255} {
					in := NewInterp(p)
					in.PathBind["p0.waitBit"] = int64Val(w)
					in.PathBind["p0.function"] = int64Val(f)
					args := defaultArgs(fn)
					args[1] = boolVal(arg)
					out := in.Run(fn, args, nil)
					rets := out.Frame.ReturnVals()
					if out.CanPanic || len(rets) != 1 || rets[0][0].K != KPtr || rets[0][0].S != "p0" {
						bad = append(bad, fmt.Sprintf("wait bit %d, function %d, SetWaitBit(%v): can panic=%v, returns the receiver=%v", w, f, arg, out.CanPanic, len(rets) == 1 && rets[0][0].K == KPtr && rets[0][0].S == "p0"))
					}
				}
			}
		}
		if len(bad) > 0 {
			r.bad(rule, key, p.Pos(fn.Pos()), "a message whose wait bit is already decided must come back unchanged: "+strings.Join(firstN(bad, 3), "; "))
		} else {
			r.ok(rule, key, p.Pos(fn.Pos()), "for wait bit 0 and 1, both arguments and even/odd function codes the receiver itself is returned and no refusal is reachable")
		}
	}
	r.Floor(rule, 25)
}

// ---------------------------------------------------------------------------
// R18 bounded-copy — fixed-width defensive copies cannot overrun.

func ruleBoundedCopy(p *Prog, r *Report) {
	const rule = "R18-copy"
	n := 0
	for _, fn := range p.PkgFuncs("ast") {
		if fn.Name() == "NewHSMSControlMessage" {
			continue // its 10-byte copy is not part of a listed property (DESIGN.md §8, observed)
		}
		for _, b := range fn.Blocks {
			for _, instr := range b.Instrs {
				st, ok := instr.(*ssa.Store)
				if !ok {
					continue
				}
				ia, ok := st.Addr.(*ssa.IndexAddr)
				if !ok || !isInduction(ia.Index) {
					continue
				}
				// source: an element of a caller-supplied slice, copied position by position
				if ld, ok := st.Val.(*ssa.UnOp); !ok {
					continue
				} else if src, ok := ld.X.(*ssa.IndexAddr); !ok || src.Index != ia.Index {
					continue
				} else if _, isParam := src.X.(*ssa.Parameter); !isParam {
					continue
				}
				// destination: a make of constant length
				N := int64(-1)
				switch d := ia.X.(type) {
				case *ssa.Slice:
					if al, ok := d.X.(*ssa.Alloc); ok {
						if arr, ok := al.Type().Underlying().(*types.Pointer).Elem().Underlying().(*types.Array); ok {
							N = arr.Len()
						}
					}
				case *ssa.MakeSlice:
					if c, ok := d.Len.(*ssa.Const); ok && constVal(c).K == KInt {
						N = constVal(c).I.Int64()
					}
				}
				if N < 0 {
					continue
				}
				n++
				key := fmt.Sprintf("%s:ast.%s:store#%d", rule, fn.Name(), n)
				idx := ia.Index
				idxInstr, ok := idx.(ssa.Instruction)
				if !ok {
					r.unk(rule, key, p.Pos(st.Pos()), "index is not an instruction")
					continue
				}
				var over []string
				reachedInside := false
				for _, c := range []int64{0, 1, N - 1, N, N + 1, N + 2, 1 << 20} {
					in := NewInterp(p)
					o1 := in.Run(fn, defaultArgs(fn), nil)
					outer := o1.Frame.Vals()
					cc := c
					in.Bind = func(v ssa.Value, fr *frame) (Val, bool) {
						if v == idx {
							return Val{K: KInt, I: newBig(cc), Dep: true}, true
						}
						return Val{}, false
					}
					o2 := in.RunOuter(fn, defaultArgs(fn), idxInstr.Block(), outer)
					// beyond the buffer the address computation itself is the failing
					// step (the evaluator ends the path there, as the run-time check does)
					if c >= N && (o2.Frame.Reached(ia) || o2.Frame.Reached(st)) {
						over = append(over, strconv.FormatInt(c, 10))
					} else if c < N && o2.Frame.Reached(st) {
						reachedInside = true
					}
				}
				switch {
				case len(over) > 0:
					r.bad(rule, key, p.Pos(st.Pos()), fmt.Sprintf("the copy into a %d-element buffer is reachable with index %s: a longer argument overruns it (run-time panic instead of 'cut to %d')", N, strings.Join(over, ", "), N))
				case !reachedInside:
					r.bad(rule, key, p.Pos(st.Pos()), fmt.Sprintf("the copy into the %d-element buffer is never reached for indices below %d", N, N))
				default:
					r.ok(rule, key, p.Pos(st.Pos()), fmt.Sprintf("the store is reachable only with index < %d, the length of the fresh buffer", N))
				}
			}
		}
	}
	if n == 0 {
		// no hand-written copy loop: the builtin copy cannot overrun
		r.ok(rule, rule+":ast:none", "", "no position-by-position copy loop into a fixed-size buffer in pkg/ast (the builtin copy cannot overrun)")
	}
}

// ---------------------------------------------------------------------------
// R21 layout — header bytes sit where E37 puts them.

var hiByte = regexp.MustCompile(`^byte\(\(\(?(\w+)>>8\)?(&255)?\)\)$|^byte\(\((\w+)/256\)\)$`)
var loByte = regexp.MustCompile(`^byte\((\w+)\)$|^byte\(\((\w+)&255\)\)$`)

func ruleControlLayout(p *Prog, r *Report) {
	const rule = "R21-control"
	type ctor struct {
		name    string
		stype   int64
		session string // "param", "ff", "req"
		byte3   string // parameter name stored at header[3], or ""
		sysFrom string // "param" or "req"
		req     string // required Type() of the request
	}
	ctors := []ctor{
		{"NewHSMSMessageSelectReq", 1, "param", "", "param", ""},
		{"NewHSMSMessageSelectRsp", 2, "req", "selectStatus", "req", "select.req"},
		{"NewHSMSMessageDeselectReq", 3, "param", "", "param", ""},
		{"NewHSMSMessageDeselectRsp", 4, "req", "deselectStatus", "req", "deselect.req"},
		{"NewHSMSMessageLinktestReq", 5, "ff", "", "param", ""},
		{"NewHSMSMessageLinktestRsp", 6, "ff", "", "req", "linktest.req"},
		{"NewHSMSMessageRejectReq", 7, "param", "reasonCode", "param", ""},
		{"NewHSMSMessageSeparateReq", 9, "param", "", "param", ""},
	}
	for _, c := range ctors {
		fn := p.MustFunc(r, "ast", c.name)
		if fn == nil {
			continue
		}
		pos := p.Pos(fn.Pos())
		variants := []map[string]Val{nil}
		if c.name == "NewHSMSMessageRejectReq" {
			variants = []map[string]Val{{"reasonCode": int64Val(2)}, {"reasonCode": int64Val(1)}, {"reasonCode": int64Val(3)}, {"reasonCode": int64Val(255)}}
		}
		for vi, variant := range variants {
			in := symInterp(p)
			args := defaultArgs(fn)
			for name, v := range variant {
				if i := paramIndex(fn, name); i >= 0 {
					args[i] = v
				}
			}
			if c.req != "" {
				// the request is of the right kind
				in.Bind = func(v ssa.Value, fr *frame) (Val, bool) {
					if isInvokeOf(v, "Type") {
						return strVal(c.req), true
					}
					return Val{}, false
				}
			}
			out := in.Run(fn, args, nil)
			rets := out.Frame.ReturnVals()
			key := fmt.Sprintf("%s:ast.%s", rule, c.name)
			if len(variants) > 1 {
				key += fmt.Sprintf(":reason=%s", variant["reasonCode"])
			}
			_ = vi
			if len(rets) != 1 || rets[0][0].K != KIface || rets[0][0].Inner.K != KPtr {
				r.unk(rule, key, pos, "the constructor's result is not a single fresh ControlMessage")
				continue
			}
			hv, ok := in.HeapAt(rets[0][0].Inner.S + ".header")
			if !ok || hv.K != KSlice || hv.Len != 10 || hv.Off != 0 || !strings.Contains(hv.S, "#") {
				r.bad(rule, key, pos, fmt.Sprintf("the header is %s, not a fresh 10-byte buffer", heapTerm(in, rets[0][0].Inner.S+".header")))
				continue
			}
			var got [10]string
			for i := 0; i < 10; i++ {
				e := in.Elem(hv, i, typByte)
				got[i] = canonByteTerm(e.String())
			}
			var probs []string
			reqBase := ""
			if len(fn.Params) > 0 {
				reqBase = "(*" + fn.Params[0].Name() + ".(*ControlMessage)).header"
			}
			sysParam := -1
			for i, prm := range fn.Params {
				if isByteSlice(prm.Type()) {
					sysParam = i
				}
			}
			expect := func(i int, ok bool, want string) {
				if !ok {
					probs = append(probs, fmt.Sprintf("header byte %d is %s, E37 requires %s", i, got[i], want))
				}
			}
			switch c.session {
			case "param":
				m := hiByte.FindStringSubmatch(got[0])
				expect(0, m != nil && (m[1] == "sessionID" || m[3] == "sessionID"), "the high byte of the session id")
				m = loByte.FindStringSubmatch(got[1])
				expect(1, m != nil && (m[1] == "sessionID" || m[2] == "sessionID"), "the low byte of the session id")
			case "ff":
				expect(0, got[0] == "255", "0xFF")
				expect(1, got[1] == "255", "0xFF")
			case "req":
				expect(0, got[0] == reqBase+"[0]", "byte 0 of the request")
				expect(1, got[1] == reqBase+"[1]", "byte 1 of the request")
			}
			if c.name == "NewHSMSMessageRejectReq" {
				want := "sType"
				if variant["reasonCode"].I.Int64() == 2 {
					want = "pType"
				}
				expect(2, got[2] == want, "the rejected message's "+want)
			} else {
				expect(2, got[2] == "0", "0")
			}
			if c.byte3 != "" {
				want := c.byte3
				if v, ok := variant[c.byte3]; ok {
					want = v.String()
				}
				expect(3, got[3] == want, "the "+c.byte3+" argument")
			} else {
				expect(3, got[3] == "0", "0")
			}
			expect(4, got[4] == "0", "PType 0")
			expect(5, got[5] == strconv.FormatInt(c.stype, 10), fmt.Sprintf("SType %d", c.stype))
			for i := 0; i < 4; i++ {
				switch c.sysFrom {
				case "param":
					expect(6+i, got[6+i] == fmt.Sprintf("p%d[%d]", sysParam, i), fmt.Sprintf("system byte %d of the argument", i))
				case "req":
					expect(6+i, got[6+i] == fmt.Sprintf("%s[%d]", reqBase, 6+i), fmt.Sprintf("byte %d of the request", 6+i))
				}
			}
			if len(probs) > 0 {
				r.bad(rule, key, pos, strings.Join(probs, "; "))
			} else {
				r.ok(rule, key, pos, "header = ["+strings.Join(got[:], ", ")+"]")
			}
		}
		// a response refuses a request of the wrong kind (kind = function of PType and SType)
		if c.req != "" {
			cm := p.Pkgs["ast"].Types.Scope().Lookup("ControlMessage")
			key := fmt.Sprintf("%s:ast.%s:request-kind", rule, c.name)
			if cm == nil {
				r.unk(rule, key, pos, "type ControlMessage not found")
			} else {
				want := int64(-1)
				for st, n := range e37STypes {
					if n == c.req {
						want = int64(st)
					}
				}
				var allST []Val
				for i := int64(0); i < 256; i++ {
					allST = append(allST, int64Val(i))
				}
				reqPtr := Val{K: KPtr, S: "req"}
				CheckDomain(p, r, DomainSpec{Rule: rule, Key: key, Fn: fn,
					Args: map[int]Val{0: {K: KIface, T: types.NewPointer(cm.Type()), Inner: &reqPtr}},
					Env:  map[string]Val{"req.header": {K: KSlice, S: "req.header", Len: 10}},
					Subjs: []Subj{
						{Name: "PType of the request", Kind: SPath, Path: "req.header[4]", Type: types.Typ[types.Uint8], NoReps: true, Extra: []Val{int64Val(0), int64Val(1), int64Val(2), int64Val(255)}},
						{Name: "SType of the request", Kind: SPath, Path: "req.header[5]", Type: types.Typ[types.Uint8], NoReps: true, Extra: allST}},
					What:   fmt.Sprintf("the request is a %s (PType 0, SType %d)", c.req, want),
					Accept: func(v []Val) bool { return v[0].I.Sign() == 0 && v[1].I.Int64() == want }})
			}
		}
	}
	// encoder: 0,0,0,10 then the header
	if fn := p.MustFunc(r, "ast", "(*ControlMessage).ToBytes"); fn != nil {
		key := rule + ":ast.(*ControlMessage).ToBytes"
		// by evaluation first: ten distinct header bytes
		byEval := func() bool {
			ein := NewInterp(p)
			ein.PathBind["p0.header"] = Val{K: KSlice, S: "p0.header", Len: 10}
			want := []int64{0, 0, 0, 10}
			for i := 0; i < 10; i++ {
				b := int64(0xF0 - 7*i)
				ein.PathBind[fmt.Sprintf("p0.header[%d]", i)] = int64Val(b)
				want = append(want, b)
			}
			eout := ein.Run(fn, defaultArgs(fn), nil)
			if eout.Frame != nil && len(ein.Stuck) == 0 {
				if rets := eout.Frame.ReturnVals(); len(rets) == 1 && len(rets[0]) == 1 && rets[0][0].K == KSlice && rets[0][0].Len >= 0 {
					rv := rets[0][0]
					var got []string
					concrete := true
					for i := 0; i < rv.Len && i < 32; i++ {
						e := ein.Elem(rv, i, typByte)
						if e.K != KInt {
							concrete = false
						}
						got = append(got, e.String())
					}
					if concrete {
						var ws []string
						for _, w := range want {
							ws = append(ws, fmt.Sprint(w))
						}
						if strings.Join(got, ",") == strings.Join(ws, ",") {
							r.ok(rule, key, p.Pos(fn.Pos()), "evaluated on ten distinct header bytes: encodes to 00 00 00 0A followed by exactly those ten bytes, in order")
						} else {
							r.bad(rule, key, p.Pos(fn.Pos()), fmt.Sprintf("a control message with the header bytes %s encodes to %s; expected the length 00 00 00 0A followed by the ten header bytes", strings.Join(ws[4:], ","), strings.Join(got, ",")))
						}
						return true
					}
				}
			}
			return false
		}()
		in := symInterp(p)
		out := in.Run(fn, defaultArgs(fn), nil)
		rets := out.Frame.ReturnVals()
		good := false
		desc := ""
		if len(rets) == 1 && rets[0][0].K == KSlice {
			rv := rets[0][0]
			var pre []string
			for i := 0; i < 4; i++ {
				pre = append(pre, in.Elem(Val{K: KSlice, S: rv.S, Off: rv.Off, Len: 4}, i, typByte).String())
			}
			rest, _ := in.HeapAt(rv.S + "[*]")
			desc = strings.Join(pre, ",") + " then " + rest.String()
			// Elem joins the unknown-index stores in; read the constant-index stores directly
			pre = nil
			for i := 0; i < 4; i++ {
				v, _ := in.HeapAt(fmt.Sprintf("%s[%d]", rv.S, rv.Off+i))
				pre = append(pre, v.String())
			}
			desc = strings.Join(pre, ",") + " then " + rest.String()
			good = strings.Join(pre, ",") == "0,0,0,10" && rest.K == KSym && rest.S == "p0.header[*]" && rv.Len == -1
			// the header must be appended whole
			whole := false
			for _, b := range fn.Blocks {
				for _, instr := range b.Instrs {
					if c, ok := instr.(*ssa.Call); ok {
						if bi, ok := c.Common().Value.(*ssa.Builtin); ok && bi.Name() == "append" {
							if ld, ok := c.Common().Args[1].(*ssa.UnOp); ok {
								if f := fieldOf(ld.X); f != nil && f.Name() == "header" {
									whole = true
								}
							}
						}
					}
				}
			}
			good = good && whole
		}
		if byEval {
			// decided above
		} else if good {
			r.ok(rule, key, p.Pos(fn.Pos()), "encodes to 00 00 00 0A followed by the whole header")
		} else {
			r.bad(rule, key, p.Pos(fn.Pos()), "a control message does not encode to the length 00 00 00 0A followed by its 10 header bytes: "+desc)
		}
	}
	// generic constructor copies position by position
	if fn := p.MustFunc(r, "ast", "NewHSMSControlMessage"); fn != nil {
		key := rule + ":ast.NewHSMSControlMessage:copy"
		good := false
		for _, b := range fn.Blocks {
			for _, instr := range b.Instrs {
				st, ok := instr.(*ssa.Store)
				if !ok {
					continue
				}
				dst, ok := st.Addr.(*ssa.IndexAddr)
				if !ok {
					continue
				}
				ld, ok := st.Val.(*ssa.UnOp)
				if !ok {
					continue
				}
				src, ok := ld.X.(*ssa.IndexAddr)
				if !ok {
					continue
				}
				if _, isParam := src.X.(*ssa.Parameter); isParam && src.Index == dst.Index {
					good = true
				}
			}
		}
		if c := copyCall(fn); c != nil {
			good = true
		}
		if good {
			r.ok(rule, key, p.Pos(fn.Pos()), "header byte i of the new message is byte i of the argument")
		} else {
			r.bad(rule, key, p.Pos(fn.Pos()), "the generic constructor does not copy the given header position by position")
		}
	}
	r.Floor(rule, 16)
}

func copyCall(fn *ssa.Function) *ssa.Call {
	for _, b := range fn.Blocks {
		for _, instr := range b.Instrs {
			if c, ok := instr.(*ssa.Call); ok {
				if bi, ok := c.Common().Value.(*ssa.Builtin); ok && bi.Name() == "copy" {
					if _, isParam := c.Common().Args[1].(*ssa.Parameter); isParam {
						return c
					}
				}
			}
		}
	}
	return nil
}

// ruleMessageLayout: DataMessage.ToBytes puts length, session id, W-bit|stream,
// function, PType 0, SType 0 and the system bytes at their E37 offsets.
func ruleMessageLayout(p *Prog, r *Report) {
	const rule = "R21-message"
	fn := p.MustFunc(r, "ast", "(*DataMessage).ToBytes")
	if fn == nil {
		return
	}
	pos := p.Pos(fn.Pos())
	// The fields are bound to concrete values and the emitted bytes compared as
	// numbers: how the bytes are computed (shifts, masks, encoding/binary, a
	// scratch array) does not matter, only what they are.
	sys := []int64{0xA1, 0xB2, 0xC3, 0xD4}
	names := []string{"length byte 0", "length byte 1", "length byte 2", "length byte 3", "session id high", "session id low", "W-bit|stream", "function", "PType", "SType", "system byte 0", "system byte 1", "system byte 2", "system byte 3"}
	for _, w := range []int64{0, 1} {
		for _, sid := range []int64{0x1234, 0xABCD} {
			key := fmt.Sprintf("%s:ast.(*DataMessage).ToBytes:W=%d:session=%#x", rule, w, sid)
			var probs, undec []string
			runs := 0
			for _, stream := range []int64{0, 1, 127} {
				for _, function := range []int64{0, 255} {
					for _, n := range []int{0, 3, 300, 70000} {
						in := symInterp(p)
						in.PathBind["p0.waitBit"] = int64Val(w)
						in.PathBind["p0.sessionID"] = int64Val(sid)
						in.PathBind["p0.stream"] = int64Val(stream)
						in.PathBind["p0.function"] = int64Val(function)
						in.PathBind["len(p0.systemBytes)"] = int64Val(4)
						for i, b := range sys {
							in.PathBind[fmt.Sprintf("p0.systemBytes[%d]", i)] = int64Val(b)
						}
						nn := n
						in.Bind = func(v ssa.Value, fr *frame) (Val, bool) {
							if isInvokeOf(v, "Variables") {
								return Val{K: KSlice, S: "vars", Len: 0}, true
							}
							if isInvokeOf(v, "ToBytes") {
								return Val{K: KSlice, S: "item", Len: nn}, true
							}
							return Val{}, false
						}
						out := in.Run(fn, defaultArgs(fn), nil)
						runs++
						what := fmt.Sprintf("stream %d, function %d, %d item bytes", stream, function, n)
						if len(in.Stuck) > 0 {
							undec = append(undec, what+": evaluation stuck")
							continue
						}
						var full *Val
						for _, rv := range out.Frame.ReturnVals() {
							if rv[0].K == KSlice && rv[0].Len != 0 {
								v := rv[0]
								full = &v
							}
						}
						if full == nil {
							undec = append(undec, what+": no non-empty result found for a complete message")
							continue
						}
						L := int64(n + 10)
						want := []int64{L >> 24 & 255, L >> 16 & 255, L >> 8 & 255, L & 255, sid >> 8, sid & 255, w<<7 | stream, function, 0, 0, sys[0], sys[1], sys[2], sys[3]}
						for i := range want {
							v := in.Elem(*full, i, typByte)
							switch {
							case v.K == KInt && v.I.IsInt64() && v.I.Int64() == want[i]:
							case v.K == KInt:
								probs = append(probs, fmt.Sprintf("%s: byte %d (%s) is %s, expected %d", what, i, names[i], v, want[i]))
							default:
								undec = append(undec, fmt.Sprintf("%s: byte %d (%s) could not be determined (%s)", what, i, names[i], v))
							}
						}
						if full.Len >= 0 && full.Len != 14+n {
							probs = append(probs, fmt.Sprintf("%s: the message has %d bytes, expected %d", what, full.Len, 14+n))
						}
						switch {
						case n == 0:
						case n <= 64:
							for i := 0; i < n; i++ {
								v := in.Elem(*full, 14+i, typByte)
								if !(v.K == KSym && v.S == fmt.Sprintf("item[%d]", i)) {
									probs = append(probs, fmt.Sprintf("%s: byte %d is %s, expected byte %d of the item", what, 14+i, v, i))
								}
							}
						default:
							rest, _ := in.HeapAt(full.S + "[*]")
							if !(rest.K == KSym && rest.S == "item[*]") {
								probs = append(probs, what+": the bytes after the header are "+rest.String()+", expected the item's bytes")
							}
						}
					}
				}
			}
			switch {
			case len(probs) > 0:
				r.bad(rule, key, pos, strings.Join(firstN(probs, 4), "; "))
			case len(undec) > 0:
				r.unk(rule, key, pos, strings.Join(firstN(undec, 4), "; "))
			default:
				r.ok(rule, key, pos, fmt.Sprintf("for %d combinations of stream, function and item length the result is: 4-byte big-endian length of text+10, session id, W<<7|stream, function, 0, 0, the four system bytes, then the item's bytes in order", runs))
			}
		}
	}
	r.Floor(rule, 4)
}

// ---------------------------------------------------------------------------
// R16 endianness — multi-byte values are emitted most significant byte first.

var byteOfShift = regexp.MustCompile(`^byte\(\((.*)>>(\d+)\)\)$`)
var byteOfWhole = regexp.MustCompile(`^byte\((.*)\)$`)

func ruleEndian(p *Prog, r *Report) {
	const rule = "R16-endian"
	// straight-line emissions in FloatNode.ToBytes
	if fn := p.MustFunc(r, "ast", "(*FloatNode).ToBytes"); fn != nil {
		for _, k := range []int64{4, 8} {
			key := fmt.Sprintf("%s:ast.(*FloatNode).ToBytes:width=%d", rule, k)
			if base, ok := resultBigEndian(p, fn, k); ok && strings.Contains(base, fmt.Sprintf("Float%dbits(", 8*k)) {
				r.ok(rule, key, p.Pos(fn.Pos()), fmt.Sprintf("evaluated on two elements of arbitrary value: the %d bytes emitted per element are byte(x>>%d) … byte(x) of x = %s: most significant first", k, 8*(k-1), base))
				continue
			}
			in := symInterp(p)
			in.PathBind["len(p0.variables)"] = int64Val(0)
			in.PathBind["p0.byteSize"] = int64Val(k)
			type emit struct {
				blk  *ssa.BasicBlock
				idx  int
				term string
			}
			var emits []emit
			out := in.Run(fn, defaultArgs(fn), nil)
			for _, b := range fn.Blocks {
				if !inLoop(b) {
					continue
				}
				for i, instr := range b.Instrs {
					c, ok := instr.(*ssa.Call)
					if !ok || !out.Frame.Reached(c) {
						continue
					}
					if bi, ok := c.Common().Value.(*ssa.Builtin); !ok || bi.Name() != "append" {
						continue
					}
					a1 := out.Frame.ValueOf(c.Common().Args[1])
					if a1.K == KSlice && a1.Len >= 1 {
						for j := 0; j < a1.Len; j++ {
							v, _ := in.HeapAt(fmt.Sprintf("%s[%d]", a1.S, a1.Off+j))
							emits = append(emits, emit{b, i, v.String()})
						}
					} else {
						emits = append(emits, emit{b, i, "?"})
					}
				}
			}
			var shifts []int
			var base string
			okSeq := len(emits) > 0
			for _, e := range emits {
				if m := byteOfShift.FindStringSubmatch(e.term); m != nil {
					s, _ := strconv.Atoi(m[2])
					shifts = append(shifts, s)
					if base == "" {
						base = m[1]
					} else if base != m[1] {
						okSeq = false
					}
				} else if m := byteOfWhole.FindStringSubmatch(e.term); m != nil {
					shifts = append(shifts, 0)
					if base == "" {
						base = m[1]
					} else if base != m[1] {
						okSeq = false
					}
				} else {
					okSeq = false
				}
			}
			for i, s := range shifts {
				if s != 8*(int(k)-1-i) {
					okSeq = false
				}
			}
			wantBits := fmt.Sprintf("Float%dbits(", 8*k)
			if okSeq && len(shifts) == int(k) && strings.HasPrefix(base, wantBits) {
				r.ok(rule, key, p.Pos(fn.Pos()), fmt.Sprintf("%d bytes of %s are appended with shifts %v: most significant first", k, base, shifts))
			} else {
				var ts []string
				for _, e := range emits {
					ts = append(ts, e.term)
				}
				r.bad(rule, key, p.Pos(fn.Pos()), fmt.Sprintf("an F%d value is not emitted as the %d bytes of math.Float%dbits, most significant first: %s", k, k, 8*k, strings.Join(ts, ", ")))
			}
		}
	}
	// loops in IntNode / UintNode
	for _, tn := range []string{"IntNode", "UintNode"} {
		fn := p.MustFunc(r, "ast", "(*"+tn+").ToBytes")
		if fn == nil {
			continue
		}
		key := fmt.Sprintf("%s:ast.(*%s).ToBytes:loop", rule, tn)
		if d, ok := bigEndianResult(p, fn); ok {
			r.ok(rule, key, p.Pos(fn.Pos()), d)
			continue
		}
		if d, ok := bigEndianTerms(p, fn); ok {
			r.ok(rule, key, p.Pos(fn.Pos()), d)
			continue
		}
		if d, ok := bigEndianStdlib(p, fn); ok {
			r.ok(rule, key, p.Pos(fn.Pos()), d)
			continue
		}
		desc, ok, undec := bigEndianLoop(p, fn)
		switch {
		case undec:
			r.unk(rule, key, p.Pos(fn.Pos()), "the payload emission has a shape the rule does not recognise: "+desc)
		case ok:
			r.ok(rule, key, p.Pos(fn.Pos()), desc)
		default:
			r.bad(rule, key, p.Pos(fn.Pos()), desc)
		}
	}
	// no little-endian helper anywhere
	bad := ""
	for _, fn := range p.Funcs {
		for _, b := range fn.Blocks {
			for _, instr := range b.Instrs {
				var ops []*ssa.Value
				for _, op := range instr.Operands(ops) {
					if g, ok := (*op).(*ssa.Global); ok && g.Pkg != nil && g.Pkg.Pkg.Path() == "encoding/binary" && (g.Name() == "LittleEndian" || g.Name() == "NativeEndian") {
						bad = FnName(fn) + " uses binary." + g.Name() + " at " + p.Pos(instr.Pos())
					}
				}
			}
		}
	}
	if bad != "" {
		r.bad(rule, rule+":no-little-endian", "", bad+": SECS-II and HSMS are big-endian throughout")
	} else {
		r.ok(rule, rule+":no-little-endian", "", "no reference to binary.LittleEndian or NativeEndian in the module")
	}
	r.Floor(rule, 5)
}

// bigEndianLoop recognises  for i := w-1; i >= 0; i-- { append(byte(x >> (i*8))) }
// and its ascending twin with shift 8*(w-1-i).
func bigEndianLoop(p *Prog, fn *ssa.Function) (desc string, ok bool, undecided bool) {
	for _, b := range fn.Blocks {
		for _, instr := range b.Instrs {
			cv, isCv := instr.(*ssa.Convert)
			if !isCv {
				continue
			}
			bt, isB := cv.Type().Underlying().(*types.Basic)
			if !isB || bt.Kind() != types.Uint8 {
				continue
			}
			shr, isShr := cv.X.(*ssa.BinOp)
			if !isShr || shr.Op != token.SHR {
				continue
			}
			// shift amount: i*8 (possibly converted)
			amt := shr.Y
			if c, ok := amt.(*ssa.Convert); ok {
				amt = c.X
			}
			mul, isMul := amt.(*ssa.BinOp)
			if !isMul {
				return "shift amount is " + amt.String(), false, true
			}
			var iv ssa.Value
			eight := false
			for _, pair := range [][2]ssa.Value{{mul.X, mul.Y}, {mul.Y, mul.X}} {
				if c, ok := pair[1].(*ssa.Const); ok {
					v := constVal(c)
					if (mul.Op == token.MUL && v.K == KInt && v.I.Int64() == 8) || (mul.Op == token.SHL && pair[1] == mul.Y && v.K == KInt && v.I.Int64() == 3) {
						iv = pair[0]
						eight = true
					}
				}
			}
			if !eight {
				return "shift amount is not a multiple of 8 of the loop index: " + mul.String(), false, true
			}
			phi, isPhi := iv.(*ssa.Phi)
			if !isPhi {
				return "the byte index is not a loop variable: " + iv.String(), false, true
			}
			// init and step
			var init ssa.Value
			step := int64(0)
			for _, e := range phi.Edges {
				if bo, ok := e.(*ssa.BinOp); ok && bo.X == ssa.Value(phi) {
					if c, ok := bo.Y.(*ssa.Const); ok && constVal(c).K == KInt {
						step = constVal(c).I.Int64()
						if bo.Op == token.SUB {
							step = -step
						}
						continue
					}
				}
				init = e
			}
			if init == nil || step == 0 {
				return "loop variable without a constant step", false, true
			}
			// loop condition on the phi
			var cond *ssa.BinOp
			if refs := phi.Referrers(); refs != nil {
				for _, ref := range *refs {
					if bo, ok := ref.(*ssa.BinOp); ok {
						switch bo.Op {
						case token.GEQ, token.GTR, token.LSS, token.LEQ:
							cond = bo
						}
					}
				}
			}
			if cond == nil {
				return "no loop condition on the byte index", false, true
			}
			// evaluate init and bound for each width
			for _, k := range []int64{1, 2, 4, 8} {
				in := NewInterp(p)
				in.PathBind["p0.byteSize"] = int64Val(k)
				in.PathBind["len(p0.variables)"] = int64Val(0)
				out := in.Run(fn, defaultArgs(fn), nil)
				iv0 := out.Frame.ValueOf(init)
				if iv0.K != KInt {
					return "initial byte index not determined by byteSize", false, true
				}
				if step == -1 {
					// descending: i from w-1 while i >= 0
					c, isC := cond.Y.(*ssa.Const)
					good := iv0.I.Int64() == k-1 && cond.X == ssa.Value(phi) && isC &&
						((cond.Op == token.GEQ && constVal(c).I.Int64() == 0) || (cond.Op == token.GTR && constVal(c).I.Int64() == -1))
					if !good {
						return fmt.Sprintf("for %d-byte elements the byte index starts at %s and runs while %s: the bytes are not emitted from the most significant (index %d) down to 0", k, iv0, cond.String(), k-1), false, false
					}
				} else {
					return fmt.Sprintf("the byte index ascends (step %+d) while the shift is index*8: least significant byte first", step), false, false
				}
			}
			return "bytes are appended for index byteSize-1 down to 0 with shift index*8: most significant first", true, false
		}
	}
	return "no byte(x >> shift) emission found", false, true
}

// bigEndianStdlib recognises an emission through encoding/binary: for every
// element width k the only emission calls reached are
// binary.BigEndian.AppendUint<8k> / PutUint<8k> (a plain byte append for k = 1).
// bigEndianTerms decides the emission from what is appended: evaluated with
// the element as a symbol and the width bound to k, the bytes appended to the
// result inside the element loop must be byte(x>>8(k-1)), ..., byte(x>>8),
// byte(x) of one term x over the element - however they were produced (shifts,
// encoding/binary into a scratch array, a helper).
func bigEndianTerms(p *Prog, fn *ssa.Function) (string, bool) {
	var element string
	for _, k := range []int64{1, 2, 4, 8} {
		in := symInterp(p)
		in.PathBind["p0.byteSize"] = int64Val(k)
		in.PathBind["len(p0.variables)"] = int64Val(0)
		var terms []string
		known := true
		in.OnAppend = func(call *ssa.Call, appended Val, elems []Val, fr *frame) {
			if fr.fn != fn || !inLoop(call.Block()) {
				return
			}
			if bt, ok := call.Type().Underlying().(*types.Slice); !ok || !types.Identical(bt.Elem(), typByte) {
				return
			}
			if elems == nil {
				known = false
				return
			}
			for _, e := range elems {
				terms = append(terms, e.String())
			}
		}
		out := in.Run(fn, defaultArgs(fn), nil)
		if !known || len(in.Stuck) > 0 || !out.CanReturn || len(terms) != int(k) {
			return "", false
		}
		base := ""
		for i, t := range terms {
			want := 8 * (int(k) - 1 - i)
			var x string
			if m := byteOfShift.FindStringSubmatch(t); m != nil {
				if s, _ := strconv.Atoi(m[2]); s != want {
					return "", false
				}
				x = m[1]
			} else if m := byteOfWhole.FindStringSubmatch(t); m != nil && want == 0 {
				x = m[1]
			} else {
				return "", false
			}
			if base == "" {
				base = x
			} else if base != x {
				return "", false
			}
		}
		if !strings.Contains(base, "p0.values[") {
			return "", false
		}
		element = base
	}
	return fmt.Sprintf("for every width k the k bytes appended per element are byte(x>>8(k-1)) ... byte(x) of x = %s: most significant first", element), true
}

// resultBigEndian evaluates ToBytes on a node of two elements of arbitrary
// (symbolic) value and width k and reads the payload from the result: the k
// bytes of element i must be byte(x>>8(k-1)), ..., byte(x) of one term x over
// p0.values[i] - wherever they were produced (in the function, in a helper,
// through encoding/binary). It returns the term of element 0.
func resultBigEndian(p *Prog, fn *ssa.Function, k int64) (string, bool) {
	first := ""
	for _, n := range append([]int{2}, extraSizes(fn)...) {
		base, ok := resultBigEndianN(p, fn, k, n)
		if !ok {
			return "", false
		}
		if first == "" {
			first = base
		}
	}
	return first, true
}

func resultBigEndianN(p *Prog, fn *ssa.Function, k int64, n int) (string, bool) {
	in := symInterp(p)
	in.PathBind["p0.byteSize"] = int64Val(k)
	in.PathBind["len(p0.variables)"] = int64Val(0)
	in.MapKeys["p0.variables"] = nil
	in.PathBind["p0.values"] = Val{K: KSlice, S: "p0.values", Len: n}
	out := in.Run(fn, defaultArgs(fn), nil)
	var full *Val
	for _, rv := range out.Frame.ReturnVals() {
		if rv[0].K == KSlice && rv[0].Len > 0 {
			v := rv[0]
			full = &v
		}
	}
	if len(in.Stuck) > 0 || out.CanPanic || full == nil || full.Len < n*int(k) {
		return "", false
	}
	first := ""
	for e := 0; e < n; e++ {
		base := ""
		for j := 0; j < int(k); j++ {
			t := in.Elem(*full, full.Len-n*int(k)+e*int(k)+j, typByte).String()
			want := 8 * (int(k) - 1 - j)
			var x string
			if m := byteOfShift.FindStringSubmatch(t); m != nil {
				if sh, _ := strconv.Atoi(m[2]); sh != want {
					return "", false
				}
				x = m[1]
			} else if m := byteOfWhole.FindStringSubmatch(t); m != nil && want == 0 {
				x = m[1]
			} else {
				return "", false
			}
			if base == "" {
				base = x
			} else if base != x {
				return "", false
			}
		}
		if !strings.Contains(base, fmt.Sprintf("p0.values[%d]", e)) {
			return "", false
		}
		if e == 0 {
			first = base
		}
	}
	return first, true
}

func bigEndianResult(p *Prog, fn *ssa.Function) (string, bool) {
	element := ""
	for _, k := range []int64{1, 2, 4, 8} {
		base, ok := resultBigEndian(p, fn, k)
		if !ok {
			return "", false
		}
		element = base
	}
	return fmt.Sprintf("evaluated for every width k on two elements of arbitrary value: the k bytes emitted per element are byte(x>>8(k-1)) ... byte(x) of x = %s, element after element: most significant first", element), true
}

func bigEndianStdlib(p *Prog, fn *ssa.Function) (string, bool) {
	for _, k := range []int64{1, 2, 4, 8} {
		in := NewInterp(p)
		in.PathBind["p0.byteSize"] = int64Val(k)
		in.PathBind["len(p0.variables)"] = int64Val(0)
		got := map[string]bool{}
		in.OnCall = func(call *ssa.Call, callee *ssa.Function, a []Val, fr *frame) {
			if fr.fn == fn && callee.Pkg != nil && callee.Pkg.Pkg.Path() == "encoding/binary" {
				recv := ""
				if callee.Signature.Recv() != nil {
					recv = types.TypeString(callee.Signature.Recv().Type(), func(*types.Package) string { return "" })
				}
				got[recv+"."+callee.Name()] = true
			}
		}
		in.Run(fn, defaultArgs(fn), nil)
		if k == 1 {
			if len(got) != 0 {
				return "", false
			}
			continue
		}
		want1, want2 := fmt.Sprintf("bigEndian.AppendUint%d", 8*k), fmt.Sprintf("bigEndian.PutUint%d", 8*k)
		if len(got) != 1 || !(got[want1] || got[want2]) {
			return "", false
		}
	}
	return "multi-byte elements are emitted with binary.BigEndian.AppendUint/PutUint of the element's own width", true
}

var beByteTerm = regexp.MustCompile(`^byte\(\(?Uint(16|32|64)\((.+)\[(\d+):(\d+)\]\)(?:>>(\d+)\))?\)$`)

// canonByteTerm rewrites byte(UintN(x[a:b]) >> 8k) - one byte of a big-endian
// read of a window - as the element of x it is: x[a + N/8 - 1 - k].
func canonByteTerm(t string) string {
	// byte((uint16(a)<<8 | uint16(b)) >> 8) is a, byte(uint16(a)<<8 | uint16(b)) is b
	if a, b, hi, ok := composedBE(t); ok {
		if hi {
			return a
		}
		return b
	}
	m := beByteTerm.FindStringSubmatch(t)
	if m == nil {
		return t
	}
	width, _ := strconv.Atoi(m[1])
	a, _ := strconv.Atoi(m[3])
	b, _ := strconv.Atoi(m[4])
	shift := 0
	if m[5] != "" {
		shift, _ = strconv.Atoi(m[5])
	}
	if b-a != width/8 || shift%8 != 0 || shift/8 >= width/8 {
		return t
	}
	return fmt.Sprintf("%s[%d]", m[2], a+width/8-1-shift/8)
}

// stripParens removes pairs of parentheses that enclose the whole term.
func stripParens(t string) string {
	for len(t) >= 2 && t[0] == '(' && t[len(t)-1] == ')' {
		depth := 0
		whole := true
		for i := 0; i < len(t)-1; i++ {
			switch t[i] {
			case '(':
				depth++
			case ')':
				depth--
			}
			if depth == 0 {
				whole = false
				break
			}
		}
		if !whole {
			break
		}
		t = t[1 : len(t)-1]
	}
	return t
}

// composedBE recognises byte(E) and byte(E>>8) for E = uint16(a)<<8 | uint16(b).
func composedBE(t string) (a, b string, hi, ok bool) {
	if !strings.HasPrefix(t, "byte(") || !strings.HasSuffix(t, ")") {
		return
	}
	e := stripParens(t[len("byte(") : len(t)-1])
	if strings.HasSuffix(e, ">>8") {
		hi = true
		e = stripParens(strings.TrimSuffix(e, ">>8"))
	}
	// split at the top-level '|'
	depth, cut := 0, -1
	for i := 0; i < len(e); i++ {
		switch e[i] {
		case '(':
			depth++
		case ')':
			depth--
		case '|':
			if depth == 0 {
				cut = i
			}
		}
	}
	if cut < 0 {
		return
	}
	l, r := stripParens(e[:cut]), stripParens(e[cut+1:])
	if !strings.HasSuffix(l, "<<8") {
		return
	}
	l = stripParens(strings.TrimSuffix(l, "<<8"))
	if !strings.HasPrefix(l, "uint16(") || !strings.HasPrefix(r, "uint16(") || !strings.HasSuffix(l, ")") || !strings.HasSuffix(r, ")") {
		return
	}
	return l[len("uint16(") : len(l)-1], r[len("uint16(") : len(r)-1], hi, true
}
