package main

import (
	"fmt"
	"go/token"
	"go/types"
	"math"
	"regexp"
	"regexp/syntax"
	"strconv"
	"strings"

	"golang.org/x/tools/go/ssa"
)

// lenCallsOf returns the builtin len calls whose argument is the given value.
func lenCallsOf(fn *ssa.Function, of func(v ssa.Value) bool) []ssa.Value {
	var out []ssa.Value
	for _, b := range fn.Blocks {
		for _, instr := range b.Instrs {
			if c, ok := instr.(*ssa.Call); ok {
				if bi, ok := c.Common().Value.(*ssa.Builtin); ok && bi.Name() == "len" && of(c.Common().Args[0]) {
					out = append(out, c)
				}
			}
		}
	}
	return out
}

// R14-limit — every factory refuses exactly the sizes whose payload exceeds
// 16,777,215 bytes (element count times element width).
func ruleSizeLimit(p *Prog, r *Report) {
	const rule = "R14-limit"
	if c, ok := p.Pkgs["ast"].Types.Scope().Lookup("MAX_BYTE_SIZE").(*types.Const); ok {
		if c.Val().ExactString() == "16777215" {
			r.ok(rule, rule+":ast.MAX_BYTE_SIZE", "", "the limit constant is 16,777,215")
		} else {
			r.bad(rule, rule+":ast.MAX_BYTE_SIZE", "", "the limit constant is "+c.Val().ExactString()+", SEMI E5 allows 16,777,215 bytes (3 length bytes)")
		}
	} else {
		r.unk(rule, rule+":ast.MAX_BYTE_SIZE", "", "constant not found")
	}
	for _, f := range e5Formats {
		f := f
		fn := p.MustFunc(r, "ast", f.Factory)
		if fn == nil {
			continue
		}
		key := fmt.Sprintf("%s:ast.%s:%s", rule, f.Factory, f.Key)
		w := int64(f.Width)
		args := map[int]Val{}
		if bi := paramIndex(fn, "byteSize"); bi >= 0 {
			args[bi] = int64Val(int64(f.ByteSz))
		}
		spec := DomainSpec{Rule: rule, Key: key, Fn: fn, Args: args,
			Consts: []int64{0, maxItemBytes / w, maxItemBytes/w + 1, maxItemBytes, maxItemBytes + 1},
			What:   fmt.Sprintf("count * %d <= 16777215", w),
			Accept: func(v []Val) bool {
				return v[0].K == KInt && v[0].I.Sign() >= 0 && v[0].I.Cmp(newBig(maxItemBytes/w)) <= 0
			}}
		if f.Node == "ASCIINode" {
			spec.Subjs = []Subj{{Name: "len(str)", Kind: SValue, Type: typInt, Pick: func(fn *ssa.Function) []ssa.Value {
				return lenCallsOf(fn, func(v ssa.Value) bool { _, ok := v.(*ssa.Parameter); return ok })
			}}}
			spec.Env = map[string]Val{}
		} else {
			vi := variadicIndex(fn)
			if vi < 0 {
				r.unk(rule, key, p.Pos(fn.Pos()), "factory is not variadic")
				continue
			}
			spec.Subjs = []Subj{{Name: "number of values", Kind: SLen, Param: vi, Type: typInt}}
		}
		CheckDomainNonNeg(p, r, spec)
	}
	r.Floor(rule, 15)
}

// CheckDomainNonNeg is CheckDomain for subjects that are lengths: negative
// representatives are skipped.
func CheckDomainNonNeg(p *Prog, r *Report, spec DomainSpec) {
	for i := range spec.Subjs {
		spec.Subjs[i].NonNeg = true
	}
	CheckDomain(p, r, spec)
}

// ---------------------------------------------------------------------------
// R14-size — declared item sizes (C15).

func ruleDeclaredSizes(p *Prog, r *Report) {
	const rule = "R14-size"
	small := func() []Val {
		var out []Val
		for i := int64(-3); i <= 4; i++ {
			out = append(out, int64Val(i))
		}
		return out
	}
	inBounds := func(size, lo, hi int64) bool { return lo <= size && (hi == -1 || size <= hi) }
	// (a) the parser's size check
	if fn := p.MustFunc(r, "sml", "(*parser).checkDataItemSizeError"); fn != nil {
		si, li, ui := paramIndex(fn, "size"), paramIndex(fn, "lowerLimit"), paramIndex(fn, "upperLimit")
		if si < 0 || li < 0 || ui < 0 {
			// the check no longer takes (size, lower, upper) as three integers: it
			// is decided through the item parser, on a grid of sizes and bounds
			if d, decided, good := sizeCheckThroughItems(p); !decided {
				r.unk(rule, rule+":sml.checkDataItemSizeError", p.Pos(fn.Pos()), "parameters size/lowerLimit/upperLimit not found, and the item parser could not be evaluated on sized items")
			} else if good {
				r.ok(rule, rule+":sml.checkDataItemSizeError", p.Pos(fn.Pos()), d)
			} else {
				r.bad(rule, rule+":sml.checkDataItemSizeError", p.Pos(fn.Pos()), d)
			}
		} else {
			CheckDomain(p, r, DomainSpec{Rule: rule, Key: rule + ":sml.checkDataItemSizeError", Fn: fn, Sink: isParserErrorf,
				Subjs: []Subj{
					{Name: "size", Kind: SParam, Param: si, Type: typInt, NoReps: true, Extra: small()},
					{Name: "lower", Kind: SParam, Param: li, Type: typInt, NoReps: true, Extra: small()},
					{Name: "upper", Kind: SParam, Param: ui, Type: typInt, NoReps: true, Extra: small()}},
				What:   "lower <= size and (upper == -1 or size <= upper)",
				Accept: func(v []Val) bool { return inBounds(v[0].I.Int64(), v[1].I.Int64(), v[2].I.Int64()) }})
		}
	}
	// (b) filling an ASCII variable
	if fn := p.MustFunc(r, "ast", "(*ASCIINode).FillVariables"); fn != nil {
		CheckDomain(p, r, DomainSpec{Rule: rule, Key: rule + ":ast.(*ASCIINode).FillVariables", Fn: fn,
			Env: map[string]Val{"p0.isValue": boolVal(false)},
			Subjs: []Subj{
				{Name: "len(fill-in string)", Kind: SValue, Type: typInt, NoReps: true, Extra: small()[3:], Pick: func(f *ssa.Function) []ssa.Value {
					return lenCallsOf(f, func(v ssa.Value) bool { return isStringType(v.Type()) })
				}},
				{Name: "minLength", Kind: SPath, Path: "p0.variable.minLength", Type: typInt, NoReps: true, Extra: small()[3:]},
				{Name: "maxLength", Kind: SPath, Path: "p0.variable.maxLength", Type: typInt, NoReps: true, Extra: small()[2:]}},
			What:   "minLength <= len and (maxLength == -1 or len <= maxLength)",
			Accept: func(v []Val) bool { return inBounds(v[0].I.Int64(), v[1].I.Int64(), v[2].I.Int64()) },
			Survive: func(out Outcome, in *Interp) bool {
				for instr := range in.ReachedAny {
					if c, ok := instr.(*ssa.Call); ok {
						if sc := c.Common().StaticCallee(); sc != nil && sc.Name() == "NewASCIINode" {
							return true
						}
					}
				}
				return false
			}})
	}
	// (c) the bounds of an ASCII variable are themselves validated
	if fn := p.MustFunc(r, "ast", "(*ASCIINode).checkRep"); fn != nil {
		CheckDomain(p, r, DomainSpec{Rule: rule, Key: rule + ":ast.(*ASCIINode).checkRep:bounds", Fn: fn,
			Env: map[string]Val{"p0.isValue": boolVal(false), "p0.value": strVal("")},
			Subjs: []Subj{
				{Name: "minLength", Kind: SPath, Path: "p0.variable.minLength", Type: typInt, NoReps: true, Extra: small()},
				{Name: "maxLength", Kind: SPath, Path: "p0.variable.maxLength", Type: typInt, NoReps: true, Extra: small()}},
			What: "minLength >= 0, maxLength >= -1, and minLength <= maxLength unless maxLength == -1",
			Accept: func(v []Val) bool {
				mn, mx := v[0].I.Int64(), v[1].I.Int64()
				return mn >= 0 && mx >= -1 && (mx == -1 || mn <= mx)
			}})
	}
	// (d) the bounds travel unpermuted: constructor -> fields -> accessors/printer
	if fn := p.MustFunc(r, "ast", "NewASCIINodeVariable"); fn != nil {
		key := rule + ":ast.NewASCIINodeVariable:fields"
		in := symInterp(p)
		out := in.Run(fn, defaultArgs(fn), nil)
		rets := out.Frame.ReturnVals()
		good := false
		desc := ""
		if len(rets) == 1 && rets[0][0].K == KIface && rets[0][0].Inner.K == KPtr {
			o := rets[0][0].Inner.S
			desc = fmt.Sprintf("name=%s min=%s max=%s isValue=%s", heapTerm(in, o+".variable.name"), heapTerm(in, o+".variable.minLength"), heapTerm(in, o+".variable.maxLength"), heapTerm(in, o+".isValue"))
			good = heapTerm(in, o+".variable.name") == "name" && heapTerm(in, o+".variable.minLength") == "minLength" && heapTerm(in, o+".variable.maxLength") == "maxLength"
		}
		if good {
			r.ok(rule, key, p.Pos(fn.Pos()), "stores "+desc)
		} else {
			r.bad(rule, key, p.Pos(fn.Pos()), "the variable's name and bounds are not stored from the arguments of the same name: "+desc)
		}
	}
	if fn := p.MustFunc(r, "ast", "(*ASCIINode).FillInStringLength"); fn != nil {
		key := rule + ":ast.(*ASCIINode).FillInStringLength"
		in := symInterp(p)
		in.PathBind["p0.isValue"] = boolVal(false)
		out := in.Run(fn, defaultArgs(fn), nil)
		rets := out.Frame.ReturnVals()
		if len(rets) == 1 && rets[0][0].String() == "p0.variable.minLength" && rets[0][1].String() == "p0.variable.maxLength" {
			r.ok(rule, key, p.Pos(fn.Pos()), "returns (minLength, maxLength) of the variable")
		} else {
			r.bad(rule, key, p.Pos(fn.Pos()), "does not return (variable.minLength, variable.maxLength) in that order")
		}
	}
	if fn := p.MustFunc(r, "ast", "(*ASCIINode).String"); fn != nil {
		key := rule + ":ast.(*ASCIINode).String:bounds"
		// by evaluation first: a variable with concrete bounds must print the
		// size form the reader takes for exactly those bounds
		evaluated := true
		var wrong []string
		for _, c := range []struct {
			min, max int64
			want     string
		}{{0, -1, "<A VAR>"}, {3, 3, "<A[3] VAR>"}, {2, -1, "<A[2..] VAR>"}, {2, 5, "<A[2..5] VAR>"}, {0, 5, "<A[0..5] VAR>"}, {7, 300, "<A[7..300] VAR>"}} {
			ie := NewInterp(p)
			ie.PathBind["p0.isValue"] = boolVal(false)
			ie.PathBind["p0.variable.name"] = strVal("VAR")
			ie.PathBind["p0.variable.minLength"] = int64Val(c.min)
			ie.PathBind["p0.variable.maxLength"] = int64Val(c.max)
			out := ie.Run(fn, defaultArgs(fn), nil)
			rets := out.Frame.ReturnVals()
			if len(ie.Stuck) > 0 || len(rets) != 1 || rets[0][0].K != KStr || out.CanPanic {
				evaluated = false
				break
			}
			if rets[0][0].S != c.want {
				wrong = append(wrong, fmt.Sprintf("a variable with bounds (%d, %d) prints %s, the SML form is %s", c.min, c.max, rets[0][0].S, c.want))
			}
		}
		in := symInterp(p)
		in.PathBind["p0.isValue"] = boolVal(false)
		var bad []string
		n := 0
		in.OnCall = func(call *ssa.Call, callee *ssa.Function, a []Val, fr *frame) {
			if fr.fn != fn || callee.Pkg == nil || callee.Pkg.Pkg.Path() != "fmt" || callee.Name() != "Sprintf" || a[0].K != KStr {
				return
			}
			var terms []string
			if a[1].K == KSlice && a[1].Len >= 0 {
				for i := 0; i < a[1].Len; i++ {
					e := in.Elem(a[1], i, types.NewInterfaceType(nil, nil))
					if e.K == KIface {
						t, _ := termOf(*e.Inner)
						terms = append(terms, t)
					}
				}
			}
			got := strings.Join(terms, ",")
			switch a[0].S {
			case "[%d..%d]":
				n++
				if got != "p0.variable.minLength,p0.variable.maxLength" {
					bad = append(bad, "[%d..%d] is printed from ("+got+")")
				}
			case "[%d..]":
				n++
				if got != "p0.variable.minLength" {
					bad = append(bad, "[%d..] is printed from ("+got+")")
				}
			case "[%d]":
				n++
				if got != "p0.variable.maxLength" && got != "p0.variable.minLength" {
					bad = append(bad, "[%d] is printed from ("+got+")")
				}
			}
		}
		if !evaluated {
			in.Run(fn, defaultArgs(fn), nil)
		}
		switch {
		case evaluated && len(wrong) > 0:
			r.bad(rule, key, p.Pos(fn.Pos()), "the bounds of an ASCII variable are not printed as the reader takes them: "+strings.Join(firstN(wrong, 3), "; "))
		case evaluated:
			r.ok(rule, key, p.Pos(fn.Pos()), "evaluated on six pairs of bounds the printer yields no size, [n], [min..] and [min..max] exactly as the reader takes them")
		case len(bad) > 0:
			r.bad(rule, key, p.Pos(fn.Pos()), "the bounds of an ASCII variable are printed in the wrong order: "+strings.Join(bad, "; "))
		case n < 3:
			r.unk(rule, key, p.Pos(fn.Pos()), fmt.Sprintf("only %d of the three size formats found", n))
		default:
			r.ok(rule, key, p.Pos(fn.Pos()), "the three size forms are printed from (min, max), (min) and (n) respectively")
		}
	}
	// (e) parser side: bounds from the size token reach the variable and the check unpermuted
	if fn := p.MustFunc(r, "sml", "(*parser).parseASCII"); fn != nil {
		key := rule + ":sml.parseASCII:bounds->variable"
		in := symInterp(p)
		var got []string
		in.OnCall = func(call *ssa.Call, callee *ssa.Function, a []Val, fr *frame) {
			if callee.Name() == "NewASCIINodeVariable" && len(a) == 3 {
				// in parseASCII itself or in a helper it hands the bounds to
				got = []string{a[1].String(), a[2].String()}
			}
		}
		in.Run(fn, defaultArgs(fn), nil)
		if len(got) == 2 && got[0] == "minLength" && got[1] == "maxLength" {
			r.ok(rule, key, p.Pos(fn.Pos()), "NewASCIINodeVariable(name, minLength, maxLength)")
		} else {
			r.bad(rule, key, p.Pos(fn.Pos()), fmt.Sprintf("the variable is built with bounds %v instead of (minLength, maxLength)", got))
		}
	}
	if fn := p.MustFunc(r, "sml", "(*parser).parseDataItem"); fn != nil {
		pds := p.Func("sml", "(*parser).parseDataItemSize")
		fromSize := func(v ssa.Value, idx int) bool {
			seen := map[ssa.Value]bool{}
			var walk func(v ssa.Value) bool
			walk = func(v ssa.Value) bool {
				if seen[v] {
					return false
				}
				seen[v] = true
				switch x := v.(type) {
				case *ssa.Extract:
					if c, ok := x.Tuple.(*ssa.Call); ok && c.Common().StaticCallee() == pds {
						return x.Index == idx
					}
				case *ssa.Phi:
					okAny := false
					for _, e := range x.Edges {
						if _, isC := e.(*ssa.Const); isC {
							continue
						}
						if !walk(e) {
							return false
						}
						okAny = true
					}
					return okAny
				}
				return false
			}
			return walk(v)
		}
		nChecked := 0
		var bad []string
		for _, b := range fn.Blocks {
			for _, instr := range b.Instrs {
				c, ok := instr.(*ssa.Call)
				if !ok {
					continue
				}
				sc := c.Common().StaticCallee()
				if sc == nil {
					continue
				}
				switch sc.Name() {
				case "parseASCII":
					nChecked++
					a := c.Common().Args
					if !(fromSize(a[1], 1) && fromSize(a[2], 2)) {
						bad = append(bad, "parseASCII is not called with (lower, upper) of parseDataItemSize in that order")
					}
				case "checkDataItemSizeError":
					nChecked++
					a := c.Common().Args
					if !(fromSize(a[2], 1) && fromSize(a[3], 2) && fromSize(a[4], 0)) {
						bad = append(bad, "checkDataItemSizeError is not called with (size, lower, upper, size token) of parseDataItemSize")
					}
					if !isInvokeOf(a[1], "Size") {
						bad = append(bad, "checkDataItemSizeError is not given item.Size()")
					}
				}
			}
		}
		key := rule + ":sml.parseDataItem:bounds-flow"
		if done := boundsFlowByEvaluation(p, r, rule, key, fn); done {
			goto sizeForEveryType
		}
		switch {
		case len(bad) > 0:
			r.bad(rule, key, p.Pos(fn.Pos()), strings.Join(uniq(bad), "; "))
		case nChecked < 2:
			r.unk(rule, key, p.Pos(fn.Pos()), "calls of parseASCII / checkDataItemSizeError not found")
		default:
			r.ok(rule, key, p.Pos(fn.Pos()), "the bounds parsed from the size token reach parseASCII and the size check in (lower, upper) order, with the token for the diagnostic")
		}
	sizeForEveryType:
		// the size check is applied whatever the item type is
		key2 := rule + ":sml.parseDataItem:size-check-for-every-type"
		var missing []string
		sites := keywordSites(p, fn)
		if len(sites) == 0 {
			r.unk(rule, key2, p.Pos(fn.Pos()), "item type token not found")
		} else {
			for _, f := range e5Formats {
				in := NewInterp(p)
				w := f.SML
				in.Bind = func(v ssa.Value, fr *frame) (Val, bool) {
					for _, s := range sites {
						if v == s {
							return strVal(w), true
						}
					}
					if fr.fn == fn && isInvokeOf(v, "Size") {
						return int64Val(3), true // any literal item: Size() >= 0
					}
					return Val{}, false
				}
				seen := false
				in.OnCall = func(call *ssa.Call, callee *ssa.Function, a []Val, fr *frame) {
					if fr.fn == fn && callee.Name() == "checkDataItemSizeError" {
						seen = true
					}
				}
				in.Run(fn, defaultArgs(fn), nil)
				if !seen {
					missing = append(missing, f.SML)
				}
			}
			if len(missing) > 0 {
				r.bad(rule, key2, p.Pos(fn.Pos()), "the declared size is not checked for item type(s) "+strings.Join(missing, ", "))
			} else {
				r.ok(rule, key2, p.Pos(fn.Pos()), "the size check is reached for all 14 item types")
			}
		}
	}
	// (f) what the size token means
	if fn := p.MustFunc(r, "sml", "(*parser).parseDataItemSize"); fn != nil {
		key := rule + ":sml.parseDataItemSize:forms"
		atoi := callSites(fn, "strconv.Atoi")
		idx := callSites(fn, "strings.Index")
		// by evaluation first: the accepted token bound to each size form
		ttSize, okT := smlConst(p, "tokenTypeDataItemSize")
		evaluated := okT
		var wrong []string
		type sizeCase struct {
			text     string
			min, max int64
		}
		var cases []sizeCase
		for _, c := range []sizeCase{{"[5]", 5, 5}, {"[0]", 0, 0}, {"[12]", 12, 12}, {"[2..7]", 2, 7}, {"[12..345]", 12, 345}, {"[2..]", 2, -1}, {"[..7]", 0, 7},
			{"[010]", 10, 10}, {"[08..09]", 8, 9}, {"[7..2]", 7, 2},
			// a bound too large for an int is clamped to the largest one (no item has
			// that size, so the size check reports it), never dropped
			{"[99999999999999999999]", math.MaxInt64, math.MaxInt64}, {"[99999999999999999999..]", math.MaxInt64, -1},
			{"[2..99999999999999999999]", 2, math.MaxInt64}, {"[99999999999999999999..7]", math.MaxInt64, 7}} {
			cases = append(cases, sizeCase{c.text, c.min, c.max})
		}
		// and around every integer constant of the reader's own code
		for _, e := range extraSizes(fn) {
			cases = append(cases, sizeCase{fmt.Sprintf("[%d]", e), int64(e), int64(e)}, sizeCase{fmt.Sprintf("[%d..%d]", e, e+7), int64(e), int64(e + 7)}, sizeCase{fmt.Sprintf("[3..%d]", e), 3, int64(e)})
		}
		for _, c := range cases {
			if !evaluated {
				break
			}
			in := NewInterp(p)
			tok := Val{K: KAgg, S: "tok", Agg: map[string]cell{".typ": {V: int64Val(ttSize)}, ".val": {V: strVal(c.text)}}}
			in.Bind = func(v ssa.Value, fr *frame) (Val, bool) {
				if call, ok := v.(*ssa.Call); ok && fr.fn == fn {
					if sc := call.Common().StaticCallee(); sc != nil && sc.Name() == "accept" {
						return Val{K: KTuple, Elems: []Val{tok, boolVal(true)}}, true
					}
				}
				return Val{}, false
			}
			out := in.Run(fn, defaultArgs(fn), nil)
			rets := out.Frame.ReturnVals()
			if len(in.Stuck) > 0 || out.CanPanic || len(rets) != 1 || len(rets[0]) != 3 || rets[0][1].K != KInt || rets[0][2].K != KInt {
				evaluated = false
				break
			}
			if rets[0][1].I.Int64() != c.min || rets[0][2].I.Int64() != c.max {
				wrong = append(wrong, fmt.Sprintf("the size %s yields the bounds (%s, %s), expected (%d, %d)", c.text, rets[0][1], rets[0][2], c.min, c.max))
			}
		}
		if !evaluated {
			// the reader no longer returns (token, lower, upper): read the bounds
			// off the variable the item parser builds for <A [size] v>
			if item := p.Func("sml", "(*parser).parseDataItem"); item != nil {
				viaItem := true
				wrong = nil
				for _, c := range cases {
					toks, ok := lexAll(p, "lexMessageText", "<A "+c.text+" v>", 100)
					if !ok {
						viaItem = false
						break
					}
					obs, _, ok := parseRun(p, item, toks, 2)
					var o *parseObs
					for i := range obs {
						if obs[i].factory == "NewASCIINodeVariable" {
							o = &obs[i]
						}
					}
					if !ok || o == nil || len(o.args) != 3 || o.args[1].K != KInt || o.args[2].K != KInt {
						viaItem = false
						break
					}
					if o.args[1].I.Int64() != c.min || o.args[2].I.Int64() != c.max {
						wrong = append(wrong, fmt.Sprintf("the size %s yields the bounds (%s, %s), expected (%d, %d)", c.text, o.args[1], o.args[2], c.min, c.max))
					}
				}
				evaluated = viaItem
			}
		}
		if evaluated {
			if len(wrong) > 0 {
				r.bad(rule, key, p.Pos(fn.Pos()), strings.Join(firstN(wrong, 4), "; "))
			} else {
				r.ok(rule, key, p.Pos(fn.Pos()), "evaluated on size tokens of every form, with numbers around every constant of the reader's code: [n] sets both bounds to n, [a..b] sets (a, b), [a..] leaves the upper bound open (-1), [..b] starts at 0; the numbers are read as decimals")
			}
		} else if len(atoi) != 3 || len(idx) != 1 {
			r.unk(rule, key, p.Pos(fn.Pos()), fmt.Sprintf("expected three strconv.Atoi calls and one strings.Index call, found %d and %d", len(atoi), len(idx)))
		} else {
			var bad []string
			run := func(dots int64, endErr Val) []Val {
				in := NewInterp(p)
				in.Bind = func(v ssa.Value, fr *frame) (Val, bool) {
					if v == ssa.Value(idx[0]) {
						return int64Val(dots), true
					}
					if ex, ok := v.(*ssa.Extract); ok {
						for i, c := range atoi {
							if ex.Tuple == ssa.Value(c) {
								if ex.Index == 0 {
									return int64Val(int64(10 * (i + 1))), true
								}
								if i == 2 {
									return endErr, true
								}
							}
						}
						// the token is accepted
						if c, ok := ex.Tuple.(*ssa.Call); ok && ex.Index == 1 {
							if sc := c.Common().StaticCallee(); sc != nil && sc.Name() == "accept" {
								return boolVal(true), true
							}
						}
					}
					return Val{}, false
				}
				out := in.Run(fn, defaultArgs(fn), nil)
				rets := out.Frame.ReturnVals()
				if len(rets) != 1 {
					return nil
				}
				return rets[0]
			}
			if rv := run(-1, Val{K: KNil}); rv == nil || rv[1].String() != "10" || rv[2].String() != "10" {
				bad = append(bad, fmt.Sprintf("[n] yields bounds %v, expected (n, n)", rv))
			}
			if rv := run(2, Val{K: KNil}); rv == nil || rv[1].String() != "20" || rv[2].String() != "30" {
				bad = append(bad, fmt.Sprintf("[a..b] yields bounds %v, expected (a, b)", rv))
			}
			if len(bad) > 0 {
				r.bad(rule, key, p.Pos(fn.Pos()), strings.Join(bad, "; "))
			} else {
				r.ok(rule, key, p.Pos(fn.Pos()), "[n] sets both bounds to n; [a..b] sets (a, b)")
			}
		}
	}
	r.Floor(rule, 10)
}

// keywordSites: loads of the item type token's value in parseDataItem.
func keywordSites(p *Prog, fn *ssa.Function) []ssa.Value {
	ttType, ok := smlConst(p, "tokenTypeDataItemType")
	if !ok {
		return nil
	}
	accept := p.Func("sml", "(*parser).accept")
	var out []ssa.Value
	for _, b := range fn.Blocks {
		for _, instr := range b.Instrs {
			st, ok := instr.(*ssa.Store)
			if !ok {
				continue
			}
			ex, ok := st.Val.(*ssa.Extract)
			if !ok {
				continue
			}
			call, ok := ex.Tuple.(*ssa.Call)
			if !ok || call.Common().StaticCallee() != accept || len(call.Common().Args) < 2 {
				continue
			}
			c, ok := call.Common().Args[1].(*ssa.Const)
			if !ok || constVal(c).K != KInt || constVal(c).I.Int64() != ttType {
				continue
			}
			for _, b2 := range fn.Blocks {
				for _, i2 := range b2.Instrs {
					if ld, ok := i2.(*ssa.UnOp); ok {
						if fa, ok := ld.X.(*ssa.FieldAddr); ok && fa.X == st.Addr {
							if fv := fieldOf(fa); fv != nil && fv.Name() == "val" {
								out = append(out, ld)
							}
						}
					}
				}
			}
		}
	}
	return out
}

// ---------------------------------------------------------------------------
// R24 anchored-regex — validating patterns match the whole name.

func ruleAnchoredRegex(p *Prog, r *Report) {
	const rule = "R24-anchored"
	for _, name := range []string{"isValidVarName", "isEllipsis"} {
		fn := p.MustFunc(r, "ast", name)
		if fn == nil {
			continue
		}
		key := rule + ":ast." + name
		pat := ""
		usesMatch := false
		for _, b := range fn.Blocks {
			for _, instr := range b.Instrs {
				c, ok := instr.(*ssa.Call)
				if !ok {
					continue
				}
				sc := c.Common().StaticCallee()
				if sc == nil || sc.Pkg == nil || sc.Pkg.Pkg.Path() != "regexp" {
					continue
				}
				switch sc.Name() {
				case "MustCompile", "Compile", "MatchString":
					for _, a := range c.Common().Args {
						if cs, ok := a.(*ssa.Const); ok && constVal(cs).K == KStr {
							pat = constVal(cs).S
						}
					}
					if sc.Name() == "MatchString" {
						usesMatch = true
					}
				}
			}
		}
		// the pattern may have been hoisted into a package-level variable
		if pat == "" {
			for _, b := range fn.Blocks {
				for _, instr := range b.Instrs {
					c, ok := instr.(*ssa.Call)
					if !ok {
						continue
					}
					sc := c.Common().StaticCallee()
					if sc == nil || sc.Name() != "MatchString" || len(c.Common().Args) == 0 {
						continue
					}
					ld, ok := c.Common().Args[0].(*ssa.UnOp)
					if !ok {
						continue
					}
					g, ok := ld.X.(*ssa.Global)
					if !ok {
						continue
					}
					usesMatch = true
					if initFn := p.SPkgs["ast"].Func("init"); initFn != nil {
						for _, ib := range initFn.Blocks {
							for _, ii := range ib.Instrs {
								st, ok := ii.(*ssa.Store)
								if !ok || st.Addr != ssa.Value(g) {
									continue
								}
								if mc, ok := st.Val.(*ssa.Call); ok {
									if msc := mc.Common().StaticCallee(); msc != nil && msc.Name() == "MustCompile" {
										if cs, ok := mc.Common().Args[0].(*ssa.Const); ok && constVal(cs).K == KStr {
											pat = constVal(cs).S
										}
									}
								}
							}
						}
					}
				}
			}
		}
		if pat == "" || !usesMatch {
			// not a regular expression (a hand-written scanner, say): evaluate
			// the predicate on every string of up to three symbols of an
			// alphabet that has a representative of each character class of the
			// documented grammar, and on longer probes, and compare it with the
			// grammar
			ref := map[string]*regexp.Regexp{
				"isValidVarName": regexp.MustCompile(`^[A-Za-z_]\w*(\[\d+\])*$`),
				"isEllipsis":     regexp.MustCompile(`^\.{3}(\[\d+\])?$`),
			}[name]
			alphabet := []string{"a", "Z", "_", "0", "9", "[", "]", ".", " ", "\n", "é", "-"}
			var probes []string
			probes = append(probes, "")
			var gen func(prefix string, d int)
			gen = func(prefix string, d int) {
				if d == 0 {
					return
				}
				for _, c := range alphabet {
					probes = append(probes, prefix+c)
					gen(prefix+c, d-1)
				}
			}
			gen("", 3)
			probes = append(probes, "a[1]", "a[12][3]", "a[1]x", "a[]", "a[1", "a1]", "_x9[0]", "ab_9", "a[1]\n", "\na", "a[-1]", "a[1][]", "a[[1]]",
				"...", "...[1]", "...[12]", "....", "...[]", "...[1][2]", "...[1]\n", "...[a]", "...x", "x...", "...[1", "...1]", "..[1]", "abc...", "Var_1[10][2]")
			evaluated := true
			var wrong []string
			for _, pr := range probes {
				in := NewInterp(p)
				out := in.Run(fn, []Val{strVal(pr)}, nil)
				rets := out.Frame.ReturnVals()
				if len(in.Stuck) > 0 || out.CanPanic || len(rets) != 1 || rets[0][0].K != KBool {
					evaluated = false
					break
				}
				if rets[0][0].B != ref.MatchString(pr) {
					wrong = append(wrong, fmt.Sprintf("%q is %s, the documented grammar says %s", pr, map[bool]string{true: "accepted", false: "refused"}[rets[0][0].B], map[bool]string{true: "accepted", false: "refused"}[ref.MatchString(pr)]))
				}
			}
			switch {
			case !evaluated:
				r.unk(rule, key, p.Pos(fn.Pos()), "no constant regular expression used with MatchString found in "+name+", and the predicate could not be evaluated on sample names")
			case len(wrong) > 0:
				r.bad(rule, key, p.Pos(fn.Pos()), strings.Join(firstN(wrong, 4), "; "))
			default:
				r.ok(rule, key, p.Pos(fn.Pos()), fmt.Sprintf("evaluated on %d names (every string of up to three symbols of a 12-symbol alphabet, and longer probes): accepts exactly what the documented grammar %s accepts, in particular nothing that merely contains a valid name", len(probes), ref))
			}
			continue
		}
		re, err := syntax.Parse(pat, syntax.Perl)
		if err != nil {
			r.unk(rule, key, p.Pos(fn.Pos()), "pattern does not parse: "+err.Error())
			continue
		}
		re = re.Simplify()
		begins, ends := false, false
		if re.Op == syntax.OpConcat && len(re.Sub) >= 2 {
			begins = re.Sub[0].Op == syntax.OpBeginText
			ends = re.Sub[len(re.Sub)-1].Op == syntax.OpEndText
		}
		if begins && ends {
			r.ok(rule, key, p.Pos(fn.Pos()), "pattern "+pat+" is anchored at both ends")
		} else {
			r.bad(rule, key, p.Pos(fn.Pos()), fmt.Sprintf("pattern %s is not anchored at both ends (^ %v, $ %v): a name that merely contains a valid name would be accepted", pat, begins, ends))
		}
	}
	r.Floor(rule, 2)
}

// ---------------------------------------------------------------------------
// R23 quote-alphabet — what the printer quotes, the reader can read back.

func ruleQuoteAlphabet(p *Prog, r *Report) {
	const rule = "R23-quote"
	fn := p.MustFunc(r, "ast", "(*ASCIINode).String")
	if fn == nil {
		return
	}
	pos := p.Pos(fn.Pos())
	// (a) characters written verbatim
	sites := stringRangeSites(fn)
	key := rule + ":ast.(*ASCIINode).String:verbatim-set"
	evalGood := false
	if d, decided, good := asciiPrintsReadable(p, fn); decided {
		evalGood = good
		if good {
			r.ok(rule, key, pos, d)
		} else {
			r.bad(rule, key, pos, d)
		}
	} else if len(sites) != 1 {
		r.unk(rule, key, pos, "the printer does not walk the value rune by rune: which characters it quotes cannot be determined")
	} else {
		site := sites[0]
		var badVerb, badCode, neither []string
		for c := rune(0); c < 128; c++ {
			in := NewInterp(p)
			in.PathBind["p0.isValue"] = boolVal(true)
			o1 := in.Run(fn, defaultArgs(fn), nil)
			outer := o1.Frame.Vals()
			in.ResetHeap()
			cc := c
			in.Bind = func(v ssa.Value, fr *frame) (Val, bool) {
				if v == site {
					return Val{K: KInt, I: newBig(int64(cc)), Dep: true}, true
				}
				return Val{}, false
			}
			verb, code := false, false
			in.OnCall = func(call *ssa.Call, callee *ssa.Function, a []Val, fr *frame) {
				if fr.fn != fn {
					return
				}
				switch callee.Name() {
				case "WriteRune", "WriteByte":
					if len(a) >= 2 && a[1].K == KInt && a[1].I.Int64() == int64(cc) {
						verb = true
					}
				case "Fprintf":
					if len(a) >= 2 && a[1].K == KStr && strings.Contains(a[1].S, "0x%02X") {
						code = true
					}
				}
			}
			in.RunOuter(fn, defaultArgs(fn), site.(ssa.Instruction).Block(), outer)
			quotable := c >= 32 && c != 127 && c != '"'
			switch {
			case verb && !quotable:
				badVerb = append(badVerb, fmt.Sprintf("%#U", c))
			case !verb && !code:
				neither = append(neither, fmt.Sprintf("%#U", c))
			case quotable && code && !verb:
				// printing a printable character as a code is harmless
			}
			if verb && code {
				badCode = append(badCode, fmt.Sprintf("%#U", c))
			}
		}
		switch {
		case len(badVerb) > 0:
			r.bad(rule, key, pos, "written inside a quoted run although the SML reader cannot read it back there: "+strings.Join(firstN(badVerb, 6), " "))
		case len(neither) > 0:
			r.bad(rule, key, pos, "neither quoted nor printed as a character code: "+strings.Join(firstN(neither, 6), " "))
		case len(badCode) > 0:
			r.unk(rule, key, pos, "both quoted and printed as code on some path: "+strings.Join(firstN(badCode, 6), " "))
		default:
			r.ok(rule, key, pos, `all 128 ASCII characters: control characters, DEL and the double quote are printed as 0xNN codes, every other character inside a quoted run`)
		}
	}
	// (b) the whole value never reaches the output in one piece
	key2 := rule + ":ast.(*ASCIINode).String:no-unfiltered-copy"
	var leaks []string
	for _, b := range fn.Blocks {
		for _, instr := range b.Instrs {
			ld, ok := instr.(*ssa.UnOp)
			if !ok || ld.Op != token.MUL {
				continue
			}
			f := fieldOf(ld.X)
			if f == nil || f.Name() != "value" {
				continue
			}
			if refs := ld.Referrers(); refs != nil {
				for _, ref := range *refs {
					switch u := ref.(type) {
					case *ssa.Range, *ssa.DebugRef:
					case *ssa.BinOp:
						if u.Op != token.EQL && u.Op != token.NEQ {
							leaks = append(leaks, "concatenated at "+p.Pos(u.Pos()))
						}
					case *ssa.Call:
						if bi, ok := u.Common().Value.(*ssa.Builtin); ok && bi.Name() == "len" {
							continue
						}
						if guardedAgainstQuote(u, ld) {
							continue
						}
						// a helper of the package that itself only walks, indexes or
						// slices the string: its pieces are what the evaluation judges
						if sc := u.Common().StaticCallee(); sc != nil && InModule(sc) && len(sc.Blocks) > 0 {
							pieces := true
							for ai, a := range u.Common().Args {
								if a == ssa.Value(ld) && (ai >= len(sc.Params) || !onlyWalked(sc.Params[ai], 0)) {
									pieces = false
								}
							}
							if pieces {
								leaks = append(leaks, "indexed or sliced inside "+FnName(sc)+" at "+p.Pos(u.Pos()))
								continue
							}
						}
						leaks = append(leaks, "passed to "+u.Common().Value.Name()+" at "+p.Pos(u.Pos()))
					case *ssa.MakeInterface:
						if guardedAgainstQuote(u, ld) {
							continue
						}
						leaks = append(leaks, "formatted as a whole at "+p.Pos(u.Pos()))
					default:
						leaks = append(leaks, fmt.Sprintf("used by %T at %s", u, p.Pos(ref.Pos())))
					}
				}
			}
		}
	}
	if len(leaks) > 0 && evalGood && onlyIndexedOrSliced(leaks) {
		r.ok(rule, key2, pos, "pieces of the value (indexed or sliced) are written to the output; the evaluation over every character, every predecessor class and the longer mixed strings shows that what is written verbatim holds only characters a quoted run may hold")
	} else if len(leaks) > 0 {
		r.bad(rule, key2, pos, "the string value reaches the printed form without passing the per-character filter ("+strings.Join(uniq(leaks), "; ")+"): a double quote or control character inside it would be printed verbatim")
	} else {
		r.ok(rule, key2, pos, "the value is only ranged over, measured or compared; every character goes through the per-character filter")
	}
	// (c) the reader: a quoted string ends at the first double quote and has no escapes
	if lf := p.MustFunc(r, "sml", "lexQuotedString"); lf != nil {
		key3 := rule + ":sml.lexQuotedString:terminator"
		found := false
		// by evaluation first: a one-character string of every ASCII character
		// (other than a line break) followed by more text and another quote
		evaluated := true
		var wrong []string
		for c := 0; c < 128 && evaluated; c++ {
			if c == '\r' || c == '\n' {
				continue
			}
			text := `"` + string(rune(c)) + `"z"`
			want := text[:3]
			if c == '"' {
				want = `""`
			}
			res, ok := lexRun(p, lf, text, 0, "lexMessageText")
			if !ok || len(res.toks) != 1 {
				evaluated = false
				break
			}
			if res.toks[0].val != want || res.end != len(want) {
				wrong = append(wrong, fmt.Sprintf("the text %q yields the string token %q, expected %q", text, res.toks[0].val, want))
			}
		}
		if evaluated {
			if len(wrong) > 0 {
				r.bad(rule, key3, p.Pos(lf.Pos()), "a quoted string does not end at the first double quote: "+strings.Join(firstN(wrong, 3), "; "))
			} else {
				r.ok(rule, key3, p.Pos(lf.Pos()), `evaluated on every ASCII character: a quoted string ends at the first '"'; a backslash does not escape it`)
			}
			found = true
		}
		for _, c := range callSites(lf, "strings.Index") {
			if cs, ok := c.Common().Args[1].(*ssa.Const); ok && constVal(cs).K == KStr && constVal(cs).S == `"` {
				found = true
			}
		}
		if evaluated {
			// decided above
		} else if found {
			r.ok(rule, key3, p.Pos(lf.Pos()), `a quoted string ends at the first '"'`)
		} else {
			r.unk(rule, key3, p.Pos(lf.Pos()), "how a quoted string ends could not be determined")
		}
	}
	if pf := p.MustFunc(r, "sml", "(*parser).parseASCII"); pf != nil {
		key4 := rule + ":sml.parseASCII:no-escapes"
		esc := false
		for _, b := range pf.Blocks {
			for _, instr := range b.Instrs {
				if c, ok := instr.(*ssa.Call); ok {
					if sc := c.Common().StaticCallee(); sc != nil && sc.Pkg != nil && sc.Pkg.Pkg.Path() == "strconv" && strings.HasPrefix(sc.Name(), "Unquote") {
						esc = true
					}
				}
			}
		}
		if esc {
			r.bad(rule, key4, p.Pos(pf.Pos()), `the reader interprets backslash escapes (strconv.Unquote) but the printer writes '\' verbatim: a printed string containing a backslash does not read back`)
		} else {
			r.ok(rule, key4, p.Pos(pf.Pos()), "the reader takes the text between the quotes literally, as the printer writes it")
		}
	}
	r.Floor(rule, 4)
}

// guardedAgainstQuote: use is dominated by the "not found" side of a search of
// the value for a set containing the double quote.
func guardedAgainstQuote(use ssa.Instruction, value ssa.Value) bool {
	fn := use.Parent()
	for _, b := range fn.Blocks {
		iff, ok := b.Instrs[len(b.Instrs)-1].(*ssa.If)
		if !ok || !b.Dominates(use.Block()) {
			continue
		}
		var call *ssa.Call
		notFoundSide := -1
		switch c := iff.Cond.(type) {
		case *ssa.Call:
			call = c // strings.Contains*(...) : true = found
			notFoundSide = 1
		case *ssa.UnOp:
			if cc, ok := c.X.(*ssa.Call); ok && c.Op == token.NOT {
				call = cc
				notFoundSide = 0
			}
		case *ssa.BinOp:
			if cc, ok := c.X.(*ssa.Call); ok {
				if k, ok := c.Y.(*ssa.Const); ok && constVal(k).K == KInt {
					call = cc
					kv := constVal(k).I.Int64()
					switch {
					case c.Op == token.LSS && kv == 0, c.Op == token.EQL && kv == -1:
						notFoundSide = 0
					case c.Op == token.GEQ && kv == 0, c.Op == token.NEQ && kv == -1:
						notFoundSide = 1
					}
				}
			}
		}
		if call == nil || notFoundSide < 0 {
			continue
		}
		sc := call.Common().StaticCallee()
		if sc == nil || sc.Pkg == nil || sc.Pkg.Pkg.Path() != "strings" || len(call.Common().Args) < 2 || call.Common().Args[0] != value {
			continue
		}
		set, ok := call.Common().Args[1].(*ssa.Const)
		if !ok {
			continue
		}
		sv := constVal(set)
		hasQuote := (sv.K == KStr && strings.Contains(sv.S, `"`)) || (sv.K == KInt && sv.I.Int64() == '"')
		if !hasQuote {
			continue
		}
		if !reaches(b.Succs[1-notFoundSide], use.Block(), b) {
			return true
		}
	}
	return false
}

// readSMLASCII reads the text of an ASCII item the way the SML reader does
// (R10, R23 c/d decide that the lexer and parser follow these rules): after
// "<A" and an optional size, quoted runs that end at the next double quote and
// hold no line break, and number tokens that are character codes up to 127.
func readSMLASCII(text string) (string, bool) {
	if !strings.HasPrefix(text, "<A") || !strings.HasSuffix(text, ">") {
		return "", false
	}
	body := text[2 : len(text)-1]
	if strings.HasPrefix(body, "[") {
		i := strings.Index(body, "]")
		if i < 0 {
			return "", false
		}
		body = body[i+1:]
	}
	var out []byte
	for len(body) > 0 {
		switch c := body[0]; {
		case c == ' ' || c == '\t' || c == '\r' || c == '\n':
			body = body[1:]
		case c == '"':
			i := strings.IndexByte(body[1:], '"')
			if i < 0 || strings.ContainsAny(body[1:1+i], "\r\n") {
				return "", false
			}
			out = append(out, body[1:1+i]...)
			body = body[i+2:]
		case c >= '0' && c <= '9':
			j := 0
			for j < len(body) && (body[j] >= '0' && body[j] <= '9' || body[j] >= 'a' && body[j] <= 'z' || body[j] >= 'A' && body[j] <= 'Z') {
				j++
			}
			n, err := strconv.ParseUint(body[:j], 0, 0)
			if err != nil || n > 127 {
				return "", false
			}
			out = append(out, byte(n))
			body = body[j:]
		default:
			return "", false
		}
	}
	return string(out), true
}

// asciiPrintsReadable evaluates the printer on every single ASCII character
// and on some mixed strings and reads the result back with readSMLASCII.
// decided is false when the evaluation does not yield constant strings.
func asciiPrintsReadable(p *Prog, fn *ssa.Function) (detail string, decided, good bool) {
	var values []string
	for c := 0; c < 128; c++ {
		values = append(values, string(rune(c)))
	}
	values = append(values, "abcdefgh", "abcdefghijklmnop", strings.Repeat("xy", 17), strings.Repeat("0123456789abcdef", 4), "abcdefgh\"ijklmnop", "abcdefgh\nijklmnopq", strings.Repeat("a", 40)+"\x01")
	values = append(values, `a"b`, "ab\ncd", `""`, "a b", "\x00\x7f", `x"`, `"x`, "tab\there", "\r\n", "a\"\"b", "~}|{")
	// every character after each kind of predecessor (printable, control,
	// double quote) and before a printable one: the printer's only state is
	// whether a quoted run is open, so these cover its transitions
	for _, prefix := range []string{"a", "\n", `"`} {
		for c := 0; c < 128; c++ {
			values = append(values, prefix+string(rune(c))+"z")
		}
	}
	var bad []string
	for _, v := range values {
		in := NewInterp(p)
		in.PathBind["p0.isValue"] = boolVal(true)
		in.PathBind["p0.value"] = strVal(v)
		out := in.Run(fn, defaultArgs(fn), nil)
		rets := out.Frame.ReturnVals()
		if len(in.Stuck) > 0 || len(rets) != 1 || rets[0][0].K != KStr || out.CanPanic {
			return "", false, false
		}
		back, ok := readSMLASCII(rets[0][0].S)
		switch {
		case !ok:
			bad = append(bad, fmt.Sprintf("%q is printed as %s, which the SML reader cannot read", v, rets[0][0].S))
		case back != v:
			bad = append(bad, fmt.Sprintf("%q is printed as %s, which reads back as %q", v, rets[0][0].S, back))
		}
	}
	if len(bad) > 0 {
		return strings.Join(firstN(bad, 4), "; "), true, false
	}
	return fmt.Sprintf("evaluated on each of the 128 ASCII characters alone, on each of them after a printable character, a control character and a double quote, and on %d mixed strings, the printed text read by the SML rules (quoted runs ending at the next '\"' without line breaks, number codes) gives back the value", len(values)-128-3*128), true, true
}

// onlyIndexedOrSliced: every recorded use of the value is an index or slice
// expression (a piece of it), never the value as a whole.
func onlyIndexedOrSliced(leaks []string) bool {
	for _, l := range leaks {
		if !strings.HasPrefix(l, "used by *ssa.Index") && !strings.HasPrefix(l, "used by *ssa.Slice") && !strings.HasPrefix(l, "indexed or sliced inside ") {
			return false
		}
	}
	return true
}

// boundsFlowByEvaluation: the item parser evaluated on items with a size
// declaration - the bounds of an ASCII variable are (lower, upper) as written,
// and an item is diagnosed exactly when its size lies outside them. done is
// false when an evaluation does not decide; the argument-flow rule is used.
func boundsFlowByEvaluation(p *Prog, r *Report, rule, key string, fn *ssa.Function) bool {
	type sample struct {
		text    string
		lo, hi  int64 // expected bounds of the variable; -2: no variable
		diagnos bool
	}
	samples := []sample{
		{"<A [2..5] v>", 2, 5, false}, {"<A [3] v>", 3, 3, false}, {"<A [7..] v>", 7, -1, false}, {"<A [..9] v>", 0, 9, false},
		{`<A [2..5] "abc">`, -2, 0, false}, {`<A [2..5] "a">`, -2, 0, true}, {`<A [2..5] "abcdef">`, -2, 0, true},
		{`<A [2..5] "ab">`, -2, 0, false}, {`<A [2..5] "abcde">`, -2, 0, false},
		{"<U1 [2] 1 2>", -2, 0, false}, {"<U1 [3] 1 2>", -2, 0, true}, {"<U1 [1..2] 1 2>", -2, 0, false}, {"<U1 [3..4] 1 2>", -2, 0, true}, {"<U1 [..1] 1 2>", -2, 0, true},
		{"<U1 [2..] 1 2>", -2, 0, false}, {"<U1 [3..] 1 2>", -2, 0, true},
		{"<L [1] <U1 1>>", -2, 0, false}, {"<L [2] <U1 1>>", -2, 0, true}, {"<B [2] 1 2>", -2, 0, false}, {"<B [1] 1 2>", -2, 0, true},
	}
	var bad []string
	for _, sm := range samples {
		toks, ok := lexAll(p, "lexMessageText", sm.text, 400)
		if !ok {
			return false
		}
		obs, diags, ok := parseRun(p, fn, toks, 4)
		if !ok || len(obs) == 0 {
			return false
		}
		for _, d := range diags {
			if d == "?" {
				return false
			}
		}
		if sm.lo != -2 {
			var o parseObs
			for _, c := range obs {
				if c.factory == "NewASCIINodeVariable" {
					o = c
				}
			}
			if o.factory != "NewASCIINodeVariable" || len(o.args) != 3 || o.args[1].K != KInt || o.args[2].K != KInt {
				return false
			}
			if o.args[1].I.Int64() != sm.lo || o.args[2].I.Int64() != sm.hi {
				bad = append(bad, fmt.Sprintf("%s builds a variable with the bounds (%s, %s), expected (%d, %d)", sm.text, o.args[1], o.args[2], sm.lo, sm.hi))
			}
		}
		if got := len(diags) > 0; got != sm.diagnos {
			if sm.diagnos {
				bad = append(bad, fmt.Sprintf("%s is not diagnosed although the item's size lies outside the declared bounds", sm.text))
			} else {
				bad = append(bad, fmt.Sprintf("%s is diagnosed (%s) although the item's size lies within the declared bounds", sm.text, strings.Join(diags, "|")))
			}
		}
	}
	if len(bad) > 0 {
		r.bad(rule, key, p.Pos(fn.Pos()), strings.Join(firstN(bad, 3), "; "))
		return true
	}
	r.ok(rule, key, p.Pos(fn.Pos()), fmt.Sprintf("the item parser evaluated on %d items with a size declaration: an ASCII variable gets (lower, upper) as written, and an item is diagnosed exactly when its size lies outside the declared bounds (both ends, open ends, lists, binary and numeric items)", len(samples)))
	return true
}

// onlyWalked: the string value is only ranged over, indexed, sliced, measured
// or compared (also inside module helpers it is handed to, two levels).
func onlyWalked(v ssa.Value, depth int) bool {
	refs := v.Referrers()
	if refs == nil {
		return true
	}
	for _, ref := range *refs {
		switch u := ref.(type) {
		case *ssa.Range, *ssa.DebugRef, *ssa.Lookup, *ssa.Slice:
		case *ssa.Index:
		case *ssa.BinOp:
			if u.Op != token.EQL && u.Op != token.NEQ && u.Op != token.LSS && u.Op != token.GTR && u.Op != token.LEQ && u.Op != token.GEQ {
				return false
			}
		case *ssa.Phi:
			if !onlyWalked(u, depth) {
				return false
			}
		case *ssa.Call:
			if bi, ok := u.Common().Value.(*ssa.Builtin); ok && bi.Name() == "len" {
				continue
			}
			sc := u.Common().StaticCallee()
			if sc == nil || !InModule(sc) || len(sc.Blocks) == 0 || depth >= 2 {
				return false
			}
			for ai, a := range u.Common().Args {
				if a == v && (ai >= len(sc.Params) || !onlyWalked(sc.Params[ai], depth+1)) {
					return false
				}
			}
		default:
			return false
		}
	}
	return true
}

// sizeCheckThroughItems: the item parser evaluated on U1 items of 0 to 3
// values under every size declaration with bounds 0 to 4 ([n], [a..b], [a..],
// [..b]): the item is diagnosed exactly when its size lies outside the
// declared bounds (an inverted range accepts nothing).
func sizeCheckThroughItems(p *Prog) (string, bool, bool) {
	fn := p.Func("sml", "(*parser).parseDataItem")
	if fn == nil {
		return "", false, false
	}
	type form struct {
		text   string
		lo, hi int64
	}
	var forms []form
	for a := int64(0); a <= 4; a++ {
		forms = append(forms, form{fmt.Sprintf("[%d]", a), a, a}, form{fmt.Sprintf("[%d..]", a), a, -1}, form{fmt.Sprintf("[..%d]", a), 0, a})
		for b := int64(0); b <= 4; b++ {
			forms = append(forms, form{fmt.Sprintf("[%d..%d]", a, b), a, b})
		}
	}
	var bad []string
	n := 0
	for size := int64(0); size <= 3; size++ {
		vals := strings.Repeat(" 7", int(size))
		for _, f := range forms {
			text := "<U1 " + f.text + vals + ">"
			toks, ok := lexAll(p, "lexMessageText", text, 200)
			if !ok {
				return "", false, false
			}
			_, diags, ok := parseRun(p, fn, toks, 2)
			if !ok {
				return "", false, false
			}
			n++
			in := f.lo <= size && (f.hi == -1 || size <= f.hi)
			if got := len(diags) > 0; got == in {
				if in {
					bad = append(bad, fmt.Sprintf("%s is diagnosed although %d lies within the declared bounds", text, size))
				} else {
					bad = append(bad, fmt.Sprintf("%s is not diagnosed although %d lies outside the declared bounds", text, size))
				}
			}
		}
	}
	if len(bad) > 0 {
		return strings.Join(firstN(bad, 3), "; "), true, false
	}
	return fmt.Sprintf("the item parser evaluated on %d U1 items of 0 to 3 values under every size declaration with bounds 0 to 4 (exact, range, open above, open below): diagnosed exactly when the size lies outside the bounds", n), true, true
}
