package main

import (
	"fmt"
	"regexp"
	"strconv"
	"strings"
)

// A small reader of the evaluator's symbolic terms, used to recognise a
// big-endian composition written out by hand —
//
//	uint32((((0|uint64(b0))<<8|uint64(b1))<<8|uint64(b2))<<8|uint64(b3))
//
// — as the k-byte big-endian read it is, whatever helper or loop produced it.

type tnode struct {
	kind string // "num", "atom", "call", "bin"
	s    string // number text, atom text, callee name, operator
	args []*tnode
}

type tparser struct {
	s string
	i int
}

func parseTerm(s string) (*tnode, bool) {
	p := &tparser{s: s}
	n := p.expr()
	if n == nil || p.i != len(p.s) {
		return nil, false
	}
	return n, true
}

func (p *tparser) peek() byte {
	if p.i < len(p.s) {
		return p.s[p.i]
	}
	return 0
}

// expr := primary (op primary)*   — the printer parenthesises every binary
// operation, so a flat chain only occurs inside one pair of parentheses
func (p *tparser) expr() *tnode {
	l := p.primary()
	if l == nil {
		return nil
	}
	for {
		op := p.op()
		if op == "" {
			return l
		}
		r := p.primary()
		if r == nil {
			return nil
		}
		l = &tnode{kind: "bin", s: op, args: []*tnode{l, r}}
	}
}

func (p *tparser) op() string {
	for _, o := range []string{"<<", ">>", "&^", "|", "&", "^", "+", "-", "*", "/", "%"} {
		if strings.HasPrefix(p.s[p.i:], o) {
			p.i += len(o)
			return o
		}
	}
	return ""
}

func (p *tparser) primary() *tnode {
	c := p.peek()
	switch {
	case c == '(':
		p.i++
		n := p.expr()
		if n == nil || p.peek() != ')' {
			return nil
		}
		p.i++
		return n
	case c >= '0' && c <= '9':
		j := p.i
		for p.i < len(p.s) && (p.s[p.i] >= '0' && p.s[p.i] <= '9') {
			p.i++
		}
		return &tnode{kind: "num", s: p.s[j:p.i]}
	}
	// an atom: identifier characters, dots, brackets with their content
	j := p.i
	for p.i < len(p.s) {
		ch := p.s[p.i]
		if ch == '[' {
			d := 0
			for p.i < len(p.s) {
				if p.s[p.i] == '[' {
					d++
				} else if p.s[p.i] == ']' {
					d--
					if d == 0 {
						p.i++
						break
					}
				}
				p.i++
			}
			continue
		}
		if ch == '_' || ch == '.' || ch == '#' || ch == '@' || ch == '!' || (ch >= 'a' && ch <= 'z') || (ch >= 'A' && ch <= 'Z') || (ch >= '0' && ch <= '9') {
			p.i++
			continue
		}
		break
	}
	if p.i == j {
		return nil
	}
	name := p.s[j:p.i]
	if p.peek() == '(' {
		p.i++
		var args []*tnode
		if p.peek() == ')' {
			p.i++
			return &tnode{kind: "call", s: name}
		}
		for {
			a := p.expr()
			if a == nil {
				return nil
			}
			args = append(args, a)
			if p.peek() == ',' {
				p.i++
				for p.peek() == ' ' {
					p.i++
				}
				continue
			}
			if p.peek() != ')' {
				return nil
			}
			p.i++
			break
		}
		return &tnode{kind: "call", s: name, args: args}
	}
	return &tnode{kind: "atom", s: name}
}

func (n *tnode) String() string {
	switch n.kind {
	case "num", "atom":
		return n.s
	case "call":
		var a []string
		for _, x := range n.args {
			a = append(a, x.String())
		}
		return n.s + "(" + strings.Join(a, ", ") + ")"
	}
	return "(" + n.args[0].String() + n.s + n.args[1].String() + ")"
}

var uintConv = map[string]int{"uint8": 1, "byte": 1, "uint16": 2, "uint32": 4, "uint64": 8, "uint": 8}

var indexedAtom = regexp.MustCompile(`^(.*)\[(\d+)\]$`)

// beBytes: the byte terms, most significant first, that n composes big-endian
// (zero-extended), or false.
func beBytes(n *tnode) ([]string, bool) {
	switch n.kind {
	case "num":
		if n.s == "0" {
			return nil, true
		}
	case "atom":
		if indexedAtom.MatchString(n.s) {
			return []string{n.s}, true
		}
	case "call":
		if w, ok := uintConv[n.s]; ok && len(n.args) == 1 {
			bs, ok := beBytes(n.args[0])
			if ok && len(bs) <= w {
				return bs, true
			}
		}
	case "bin":
		if n.s == "|" || n.s == "+" {
			l, r := n.args[0], n.args[1]
			rb, okr := beBytes(r)
			if !okr || len(rb) != 1 {
				return nil, false
			}
			if l.kind == "bin" && l.s == "<<" && l.args[1].kind == "num" && l.args[1].s == "8" {
				lb, ok := beBytes(l.args[0])
				if ok {
					return append(append([]string{}, lb...), rb...), true
				}
				return nil, false
			}
			if lb, ok := beBytes(l); ok && len(lb) == 0 {
				return rb, true
			}
		}
	}
	return nil, false
}

// normaliseBE rewrites every maximal hand-composed big-endian read of 2, 4 or
// 8 consecutive bytes of one slice inside the term t into the UintN(...) form
// encoding/binary's reads have in the evaluator's terms, so that the rules see
// the same term whichever way the bytes were put together.
func normaliseBE(t string) string {
	n, ok := parseTerm(t)
	if !ok {
		return t
	}
	var rw func(n *tnode) *tnode
	rw = func(n *tnode) *tnode {
		if bs, ok := beBytes(n); ok && (len(bs) == 2 || len(bs) == 4 || len(bs) == 8) {
			// consecutive elements of one slice
			m0 := indexedAtom.FindStringSubmatch(bs[0])
			base, first := m0[1], m0[2]
			f, _ := strconv.Atoi(first)
			cons := true
			for i, b := range bs {
				m := indexedAtom.FindStringSubmatch(b)
				k, _ := strconv.Atoi(m[2])
				if m[1] != base || k != f+i {
					cons = false
				}
			}
			if cons {
				return &tnode{kind: "call", s: fmt.Sprintf("Uint%d", 8*len(bs)), args: []*tnode{{kind: "atom", s: fmt.Sprintf("%s[%d:%d]", base, f, f+len(bs))}}}
			}
		}
		if bs, ok := beBytes(n); ok && len(bs) == 1 && n.kind != "atom" {
			return &tnode{kind: "atom", s: bs[0]} // a zero-extended single byte is that byte
		}
		if n.kind == "call" || n.kind == "bin" {
			c := &tnode{kind: n.kind, s: n.s}
			for _, a := range n.args {
				c.args = append(c.args, rw(a))
			}
			return c
		}
		return n
	}
	out := rw(n)
	// uintN(UintN(x)) is UintN(x)
	s := out.String()
	for _, w := range []string{"16", "32", "64"} {
		s = strings.ReplaceAll(s, "uint"+w+"(Uint"+w+"(", "Uint"+w+"((")
	}
	// the replacement above left one parenthesis too many inside; undo by reparsing
	if n2, ok := parseTerm(s); ok {
		return n2.String()
	}
	return out.String()
}
