package main

import (
	"fmt"
	"go/token"
	"sort"
	"strings"

	"golang.org/x/tools/go/ssa"
)

// R14c refusal census — no refusal of pkg/ast is dead, and every
// "already seen" refusal really accumulates what it tests.
//
// The test suite never expects a panic from pkg/ast, so any weakening of a
// refusal survives it. Two structural necessary conditions are decided for
// every explicit panic site of the package:
//
//	live      the panic is reachable when its function is evaluated with all
//	          inputs unknown (a guard that has become constantly false — a
//	          flag reset in the wrong place, a contradictory condition on
//	          constants — makes the refusal vanish);
//	test+insert  when the panic is guarded by a map membership test
//	          (duplicate name, position already visited), the same key is
//	          inserted into the same map on the surviving path, so that the
//	          set being tested actually grows with the elements examined.
func ruleRefusalCensus(p *Prog, r *Report) {
	const rule = "R14c-census"
	nPanics, nMember := 0, 0
	for _, fn := range p.PkgFuncs("ast") {
		var panics []*ssa.Panic
		for _, b := range fn.Blocks {
			for _, instr := range b.Instrs {
				if pn, ok := instr.(*ssa.Panic); ok {
					panics = append(panics, pn)
				}
			}
		}
		if len(panics) == 0 {
			continue
		}
		in := NewInterp(p)
		out := in.Run(fn, defaultArgs(fn), nil)
		sort.Slice(panics, func(i, j int) bool { return panics[i].Pos() < panics[j].Pos() })
		for k, pn := range panics {
			nPanics++
			msg := "panic"
			if mi, ok := pn.X.(*ssa.MakeInterface); ok {
				if c, ok := mi.X.(*ssa.Const); ok && constVal(c).K == KStr {
					msg = constVal(c).S
				}
			}
			key := fmt.Sprintf("%s:live:%s#%d:%s", rule, FnName(fn), k, strings.ReplaceAll(msg, " ", "_"))
			if len(in.Stuck) > 0 {
				r.unk(rule, key, p.Pos(pn.Pos()), "evaluation stuck")
			} else if out.Frame.Reached(pn) {
				r.ok(rule, key, p.Pos(pn.Pos()), "the refusal is reachable")
			} else {
				r.bad(rule, key, p.Pos(pn.Pos()), fmt.Sprintf("the refusal %q in %s can no longer be reached: its guard is false for every input, so what it refused is now accepted", msg, FnName(fn)))
			}
			// membership-guarded?
			if lk, keyVal, mp := membershipGuard(pn); lk != nil {
				nMember++
				mkey := fmt.Sprintf("%s:test+insert:%s#%d:%s", rule, FnName(fn), k, strings.ReplaceAll(msg, " ", "_"))
				if insertsSame(fn, mp, keyVal, lk) {
					r.ok(rule, mkey, p.Pos(pn.Pos()), "the key tested for membership is inserted into the same set on the surviving path")
				} else {
					r.bad(rule, mkey, p.Pos(pn.Pos()), fmt.Sprintf("%q is raised when a key is already in a set, but the keys examined are not added to that set on the surviving path: two equal keys examined one after the other are not noticed", msg))
				}
			}
		}
	}
	r.Floor(rule, 80)
	r.Note("%s: %d explicit refusals in pkg/ast, %d of them guarded by a membership test", rule, nPanics, nMember)
}

// membershipGuard: the panic's block is entered through a conditional on the
// result of a map lookup; returns the lookup, its key and the map.
func membershipGuard(pn *ssa.Panic) (*ssa.Lookup, ssa.Value, ssa.Value) {
	b := pn.Block()
	for _, pred := range b.Preds {
		iff, ok := pred.Instrs[len(pred.Instrs)-1].(*ssa.If)
		if !ok {
			continue
		}
		var v ssa.Value = iff.Cond
		if u, ok := v.(*ssa.UnOp); ok && u.Op == token.NOT {
			v = u.X
		}
		switch x := v.(type) {
		case *ssa.Extract:
			if lk, ok := x.Tuple.(*ssa.Lookup); ok && lk.CommaOk && x.Index == 1 {
				if _, isMap := lk.X.Type().Underlying().(interface{ Key() interface{} }); isMap || true {
					return lk, lk.Index, lk.X
				}
			}
		case *ssa.Lookup:
			return x, x.Index, x.X
		}
	}
	return nil, nil, nil
}

func insertsSame(fn *ssa.Function, mp, key ssa.Value, lk *ssa.Lookup) bool {
	for _, b := range fn.Blocks {
		for _, instr := range b.Instrs {
			mu, ok := instr.(*ssa.MapUpdate)
			if !ok || mu.Map != mp || mu.Key != key {
				continue
			}
			// the insertion must follow the test (same block after it, or a block the test's block reaches)
			if b == lk.Block() || reaches(lk.Block(), b, nil) {
				return true
			}
		}
	}
	return false
}
