package main

import (
	"fmt"
	"go/token"
	"go/types"
	"sort"
	"strings"

	"golang.org/x/tools/go/ssa"
)

// R14c refusal census — no refusal of pkg/ast is dead, and every
// "already seen" refusal really accumulates what it tests.
//
// The test suite never expects a panic from pkg/ast, so any weakening of a
// refusal survives it. Two structural necessary conditions are decided for
// every explicit panic site of the package:
//
//	live      the panic is reachable when its function is evaluated with all
//	          inputs unknown (a guard that has become constantly false — a
//	          flag reset in the wrong place, a contradictory condition on
//	          constants — makes the refusal vanish);
//	test+insert  when the panic is guarded by a map membership test
//	          (duplicate name, position already visited), the same key is
//	          inserted into the same map on the surviving path, so that the
//	          set being tested actually grows with the elements examined.
func ruleRefusalCensus(p *Prog, r *Report) {
	const rule = "R14c-census"
	nPanics, nMember := 0, 0
	for _, fn := range p.PkgFuncs("ast") {
		var panics []*ssa.Panic
		for _, b := range fn.Blocks {
			for _, instr := range b.Instrs {
				if pn, ok := instr.(*ssa.Panic); ok {
					panics = append(panics, pn)
				}
			}
		}
		if len(panics) == 0 {
			continue
		}
		in := NewInterp(p)
		out := in.Run(fn, defaultArgs(fn), nil)
		sort.Slice(panics, func(i, j int) bool { return panics[i].Pos() < panics[j].Pos() })
		// a refusal in a shared unexported helper stands for each of the
		// helper's call sites (five copies of a check merged into one)
		if sites := staticCallSites(p, fn, "ast"); sites > 1 && !exported(fn) && !isFactory(fn) {
			r.Credit(rule, (sites-1)*len(panics))
		}
		for k, pn := range panics {
			nPanics++
			msg := "panic"
			if mi, ok := pn.X.(*ssa.MakeInterface); ok {
				if c, ok := mi.X.(*ssa.Const); ok && constVal(c).K == KStr {
					msg = constVal(c).S
				}
			}
			key := fmt.Sprintf("%s:live:%s#%d:%s", rule, FnName(fn), k, strings.ReplaceAll(msg, " ", "_"))
			if len(in.Stuck) > 0 {
				r.unk(rule, key, p.Pos(pn.Pos()), "evaluation stuck")
			} else if out.Frame.Reached(pn) {
				r.ok(rule, key, p.Pos(pn.Pos()), "the refusal is reachable")
			} else {
				r.bad(rule, key, p.Pos(pn.Pos()), fmt.Sprintf("the refusal %q in %s can no longer be reached: its guard is false for every input, so what it refused is now accepted", msg, FnName(fn)))
			}
			// membership-guarded?
			if lk, keyVal, mp := membershipGuard(pn); lk != nil {
				nMember++
				mkey := fmt.Sprintf("%s:test+insert:%s#%d:%s", rule, FnName(fn), k, strings.ReplaceAll(msg, " ", "_"))
				if insertsSame(fn, mp, keyVal, lk) {
					r.ok(rule, mkey, p.Pos(pn.Pos()), "the key tested for membership is inserted into the same set on the surviving path")
				} else {
					r.bad(rule, mkey, p.Pos(pn.Pos()), fmt.Sprintf("%q is raised when a key is already in a set, but the keys examined are not added to that set on the surviving path: two equal keys examined one after the other are not noticed", msg))
				}
			}
		}
	}
	// required refusals: what the statement of C12/C16 names must be present
	// (a deleted check leaves no dead panic behind, so presence is checked too)
	liveIn := func(fnName string) (fn *ssa.Function, live []*ssa.Panic) {
		fn = p.Func("ast", fnName)
		if fn == nil {
			return nil, nil
		}
		in := NewInterp(p)
		out := in.Run(fn, defaultArgs(fn), nil)
		for _, b := range fn.Blocks {
			for _, instr := range b.Instrs {
				if pn, ok := instr.(*ssa.Panic); ok && out.Frame.Reached(pn) {
					live = append(live, pn)
				}
			}
		}
		// refusals moved into a private helper of the package (not another
		// constructor or checkRep, which have obligations of their own) count
		// for the function that calls the helper, as long as they are reached
		// from it
		for _, h := range refusalHelpers(fn) {
			for _, b := range h.Blocks {
				for _, instr := range b.Instrs {
					if pn, ok := instr.(*ssa.Panic); ok && in.ReachedAny[pn] {
						live = append(live, pn)
					}
				}
			}
		}
		return
	}
	type req struct {
		fn, what string
		min      int
		count    func(fn *ssa.Function, live []*ssa.Panic) int
	}
	member := func(fn *ssa.Function, live []*ssa.Panic) int {
		n := 0
		for _, pn := range live {
			h := pn.Parent()
			lk, key, mp := membershipGuard(pn)
			if lk == nil {
				// the same with a slice of flags instead of a set: seen[i] tested, then set
				if h == fn && flagTestAndSet(pn) {
					n++
				}
				continue
			}
			if !insertsSame(h, mp, key, lk) {
				continue
			}
			if h != fn && !accumulatesAcrossCalls(fn, h, mp) {
				continue
			}
			n++
		}
		return n
	}
	guardedBy := func(callee string) func(fn *ssa.Function, live []*ssa.Panic) int {
		return func(fn *ssa.Function, live []*ssa.Panic) int {
			n := 0
			for _, pn := range live {
				if dominatedByCondOn(pn.Block(), callee) {
					n++
				}
			}
			return n
		}
	}
	var reqs []req
	for _, f := range []string{"NewListNode", "NewBinaryNode", "NewBooleanNode", "NewIntNode", "NewUintNode", "NewFloatNode"} {
		reqs = append(reqs, req{f, "a duplicated variable name among the arguments is refused (test-and-insert)", 1, member})
	}
	for _, t := range []string{"IntNode", "UintNode", "FloatNode", "BinaryNode", "BooleanNode"} {
		reqs = append(reqs, req{"(*" + t + ").checkRep", "a malformed variable name is refused", 1, guardedBy("isValidVarName")})
		reqs = append(reqs, req{"(*" + t + ").checkRep", "a variable position used twice is refused (test-and-insert)", 1, member})
	}
	reqs = append(reqs,
		req{"(*ASCIINode).checkRep", "a malformed variable name is refused", 1, guardedBy("isValidVarName")},
		req{"(*ListNode).checkRep", "a malformed variable name is refused", 1, guardedBy("isValidVarName")},
		req{"(*ListNode).checkRep", "a leading ellipsis and a second ellipsis are refused", 2, guardedBy("isEllipsis")},
		req{"(*ListNode).checkRep", "a position used twice and a name occurring twice in the tree are refused (test-and-insert)", 2, member})
	for _, q := range reqs {
		fn, live := liveIn(q.fn)
		key := fmt.Sprintf("%s:required:ast.%s:%s", rule, q.fn, strings.ReplaceAll(strings.SplitN(q.what, " is ", 2)[0], " ", "_"))
		if fn == nil {
			r.unk(rule, key, "", "function ast."+q.fn+" not found")
			continue
		}
		if n := q.count(fn, live); n >= q.min {
			r.ok(rule, key, p.Pos(fn.Pos()), fmt.Sprintf("%s: %d live refusal(s) of that kind", q.what, n))
		} else {
			r.bad(rule, key, p.Pos(fn.Pos()), fmt.Sprintf("ast.%s: %s — but only %d of the %d refusal(s) of that kind are present and reachable", q.fn, q.what, n, q.min))
		}
	}
	r.Floor(rule, 100)
	r.Note("%s: %d explicit refusals in pkg/ast, %d of them guarded by a membership test", rule, nPanics, nMember)
}

// membershipGuard: the panic's block is entered through a conditional on the
// result of a map lookup; returns the lookup, its key and the map.
func membershipGuard(pn *ssa.Panic) (*ssa.Lookup, ssa.Value, ssa.Value) {
	b := pn.Block()
	for _, pred := range b.Preds {
		iff, ok := pred.Instrs[len(pred.Instrs)-1].(*ssa.If)
		if !ok {
			continue
		}
		var v ssa.Value = iff.Cond
		if u, ok := v.(*ssa.UnOp); ok && u.Op == token.NOT {
			v = u.X
		}
		switch x := v.(type) {
		case *ssa.Extract:
			if lk, ok := x.Tuple.(*ssa.Lookup); ok && lk.CommaOk && x.Index == 1 {
				if _, isMap := lk.X.Type().Underlying().(interface{ Key() interface{} }); isMap || true {
					return lk, lk.Index, lk.X
				}
			}
		case *ssa.Lookup:
			return x, x.Index, x.X
		}
	}
	return nil, nil, nil
}

func insertsSame(fn *ssa.Function, mp, key ssa.Value, lk *ssa.Lookup) bool {
	for _, b := range fn.Blocks {
		for _, instr := range b.Instrs {
			mu, ok := instr.(*ssa.MapUpdate)
			if !ok || mu.Map != mp || mu.Key != key {
				continue
			}
			// the insertion must follow the test (same block after it, or a block the test's block reaches)
			if b == lk.Block() || reaches(lk.Block(), b, nil) {
				return true
			}
		}
	}
	return false
}

// dominatedByCondOn: some conditional dominating b tests a value computed
// from a call of the named module function.
func dominatedByCondOn(b *ssa.BasicBlock, callee string) bool {
	fn := b.Parent()
	for _, d := range fn.Blocks {
		if d == b || !d.Dominates(b) {
			continue
		}
		iff, ok := d.Instrs[len(d.Instrs)-1].(*ssa.If)
		if !ok {
			continue
		}
		seen := map[ssa.Value]bool{}
		var dep func(v ssa.Value, n int) bool
		dep = func(v ssa.Value, n int) bool {
			if v == nil || seen[v] || n > 6 {
				return false
			}
			seen[v] = true
			switch x := v.(type) {
			case *ssa.Call:
				if sc := x.Common().StaticCallee(); sc != nil && sc.Name() == callee {
					return true
				}
			case *ssa.UnOp:
				return dep(x.X, n+1)
			case *ssa.BinOp:
				return dep(x.X, n+1) || dep(x.Y, n+1)
			case *ssa.Phi:
				for _, e := range x.Edges {
					if dep(e, n+1) {
						return true
					}
				}
			}
			return false
		}
		if dep(iff.Cond, 0) {
			return true
		}
	}
	return false
}

// refusalHelpers lists the unexported, non-constructor, non-checkRep functions
// of fn's package that fn calls directly or through one such helper.
func refusalHelpers(fn *ssa.Function) []*ssa.Function {
	var out []*ssa.Function
	seen := map[*ssa.Function]bool{fn: true}
	var walk func(g *ssa.Function, depth int)
	walk = func(g *ssa.Function, depth int) {
		if depth > 2 {
			return
		}
		for _, b := range g.Blocks {
			for _, instr := range b.Instrs {
				c, ok := instr.(*ssa.Call)
				if !ok {
					continue
				}
				h := c.Common().StaticCallee()
				if h == nil || seen[h] || h.Pkg != fn.Pkg || h.Blocks == nil || exported(h) || isFactory(h) {
					continue
				}
				// methods of the nodes and messages themselves are not helpers; the
				// methods of a small value type (a name table, a variable
				// descriptor: value receiver) are, whatever they are called
				if recv := h.Signature.Recv(); recv != nil {
					if _, isPtr := recv.Type().(*types.Pointer); isPtr {
						// … except a part of g split off as an unexported method that
						// g runs on its own receiver (checkRep divided into the checks
						// of its two forms)
						args := c.Common().Args
						if !(len(g.Params) > 0 && g.Signature.Recv() != nil && len(args) > 0 && args[0] == ssa.Value(g.Params[0]) && !c.Common().IsInvoke()) {
							continue
						}
					}
				} else if strings.Contains(h.Name(), "checkRep") {
					continue
				}
				seen[h] = true
				out = append(out, h)
				walk(h, depth+1)
			}
		}
	}
	walk(fn, 1)
	return out
}

// accumulatesAcrossCalls: the set a helper tests and extends is one of its
// parameters, and every call of the helper in fn passes a map that is not
// created anew inside a loop of fn - so that successive calls see what the
// earlier ones inserted.
func accumulatesAcrossCalls(fn, h *ssa.Function, mp ssa.Value) bool {
	idx := -1
	for i, prm := range h.Params {
		if ssa.Value(prm) == mp {
			idx = i
		}
	}
	if idx < 0 {
		// a set local to the helper: it accumulates within one call (a helper
		// that walks a whole list, say); nothing to check at the call sites
		_, local := mp.(*ssa.MakeMap)
		return local
	}
	found := false
	for _, b := range fn.Blocks {
		for _, instr := range b.Instrs {
			c, ok := instr.(*ssa.Call)
			if !ok || c.Common().StaticCallee() != h || idx >= len(c.Common().Args) {
				continue
			}
			found = true
			if def, ok := c.Common().Args[idx].(ssa.Instruction); ok {
				if _, isPhi := def.(*ssa.Phi); isPhi || inLoop(def.Block()) {
					return false
				}
			}
		}
	}
	return found
}

// flagTestAndSet: the panic is guarded by a test of flags[i] (a slice or array
// of bool indexed by the key), and flags[i] = true for the same flags and the
// same i follows the test.
func flagTestAndSet(pn *ssa.Panic) bool {
	fn := pn.Parent()
	for _, pred := range pn.Block().Preds {
		iff, ok := pred.Instrs[len(pred.Instrs)-1].(*ssa.If)
		if !ok {
			continue
		}
		var v ssa.Value = iff.Cond
		if u, ok := v.(*ssa.UnOp); ok && u.Op == token.NOT {
			v = u.X
		}
		ld, ok := v.(*ssa.UnOp)
		if !ok || ld.Op != token.MUL {
			continue
		}
		ia, ok := ld.X.(*ssa.IndexAddr)
		if !ok {
			continue
		}
		if bt, isB := ld.Type().Underlying().(*types.Basic); !isB || bt.Kind() != types.Bool {
			continue
		}
		for _, b := range fn.Blocks {
			for _, instr := range b.Instrs {
				st, ok := instr.(*ssa.Store)
				if !ok {
					continue
				}
				sa, ok := st.Addr.(*ssa.IndexAddr)
				if !ok || sa.X != ia.X || sa.Index != ia.Index {
					continue
				}
				if c, ok := st.Val.(*ssa.Const); !ok || constVal(c).K != KBool || !constVal(c).B {
					continue
				}
				if b == pred || reaches(pred, b, nil) {
					return true
				}
			}
		}
	}
	return false
}
