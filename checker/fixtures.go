package main

import (
	"fmt"
	"os"
	"strings"
	"sync"

	"golang.org/x/tools/go/packages"
	"golang.org/x/tools/go/ssa"
	"golang.org/x/tools/go/ssa/ssautil"
)

// Fixtures are tiny packages under /verif/fixtures/<name>/ holding one
// instance of a forbidden construct (functions named bad*) and the accepted
// idioms (functions named good*). A rule whose expected number of findings on
// the library is zero must still fire on its fixture on every run, so that it
// can never pass by having stopped matching anything.

var fixtureCache = map[string][]*ssa.Function{}
var fixtureMu sync.Mutex

func verifDir() string {
	if d := os.Getenv("VERIF_DIR"); d != "" {
		return d
	}
	return "/verif"
}

func loadFixture(name string) ([]*ssa.Function, error) {
	fixtureMu.Lock()
	defer fixtureMu.Unlock()
	if f, ok := fixtureCache[name]; ok {
		return f, nil
	}
	cfg := &packages.Config{Mode: packages.LoadSyntax, Dir: verifDir() + "/fixtures", Tests: false,
		Env: append(os.Environ(), "GOFLAGS=-mod=mod", "GOPROXY=off", "GOSUMDB=off", "GOTOOLCHAIN=local", "GOWORK=off", "CGO_ENABLED=0")}
	pkgs, err := packages.Load(cfg, "./"+name)
	if err != nil {
		return nil, err
	}
	if len(pkgs) != 1 || len(pkgs[0].Errors) > 0 {
		return nil, fmt.Errorf("fixture %s: %d packages, errors %v", name, len(pkgs), pkgs[0].Errors)
	}
	prog, spkgs := ssautil.Packages(pkgs, ssa.InstantiateGenerics)
	prog.Build()
	var fns []*ssa.Function
	for fn := range ssautil.AllFunctions(prog) {
		if fn.Pkg == spkgs[0] && fn.Blocks != nil {
			fns = append(fns, fn)
		}
	}
	fixtureCache[name] = fns
	return fns, nil
}

// fixtureMustFire runs finder on the fixture and records one obligation: the
// rule fires on every bad* function and on no good* function.
func fixtureMustFire(p *Prog, r *Report, rule, name string, finder func([]*ssa.Function) []finding) {
	key := rule + ":fixture:" + name
	fns, err := loadFixture(name)
	if err != nil {
		r.unk(rule, key, "", "fixture cannot be loaded: "+err.Error())
		return
	}
	hit := map[string]bool{}
	for _, f := range finder(fns) {
		n := f.fn.Name()
		if f.fn.Parent() != nil {
			n = f.fn.Parent().Name()
		}
		hit[n] = true
	}
	var missed, spurious []string
	nbad := 0
	for _, fn := range fns {
		if fn.Parent() != nil {
			continue
		}
		switch {
		case strings.HasPrefix(fn.Name(), "bad"):
			nbad++
			if !hit[fn.Name()] {
				missed = append(missed, fn.Name())
			}
		case strings.HasPrefix(fn.Name(), "good"):
			if hit[fn.Name()] {
				spurious = append(spurious, fn.Name())
			}
		}
	}
	if nbad == 0 || len(missed) > 0 || len(spurious) > 0 {
		r.unk(rule, key, "fixtures/"+name, fmt.Sprintf("self test failed: the rule must fire on every bad* and no good* function of the fixture; missed %v, spurious %v (bad functions: %d)", missed, spurious, nbad))
		return
	}
	r.Add(Obligation{Rule: rule, Key: key, Pos: "fixtures/" + name, Status: Discharged,
		Detail: fmt.Sprintf("positive example: the rule fires on all %d bad* functions of the fixture and on none of its good* twins", nbad)})
}
