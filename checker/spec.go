package main

// Independent statements the code is compared with: SEMI E5 item formats,
// SEMI E37 (HSMS) header layout and session types, the SML keywords.

type itemFormat struct {
	Key     string // type name used by the encoder's tables
	Code    int    // E5 format code (6 bits)
	Width   int    // bytes per element (1 for list: the length counts elements)
	Node    string // ast node type
	Factory string // ast factory
	ByteSz  int    // byteSize argument of the factory (0: none)
	SML     string // SML type keyword
}

// E5 §9: L 00, B 10, BOOLEAN 11, A 20, I8 30, I1 31, I2 32, I4 34, F8 40, F4 44, U8 50, U1 51, U2 52, U4 54 (octal).
var e5Formats = []itemFormat{
	{"list", 0o00, 1, "ListNode", "NewListNode", 0, "L"},
	{"binary", 0o10, 1, "BinaryNode", "NewBinaryNode", 0, "B"},
	{"boolean", 0o11, 1, "BooleanNode", "NewBooleanNode", 0, "BOOLEAN"},
	{"ascii", 0o20, 1, "ASCIINode", "NewASCIINode", 0, "A"},
	{"i8", 0o30, 8, "IntNode", "NewIntNode", 8, "I8"},
	{"i1", 0o31, 1, "IntNode", "NewIntNode", 1, "I1"},
	{"i2", 0o32, 2, "IntNode", "NewIntNode", 2, "I2"},
	{"i4", 0o34, 4, "IntNode", "NewIntNode", 4, "I4"},
	{"f8", 0o40, 8, "FloatNode", "NewFloatNode", 8, "F8"},
	{"f4", 0o44, 4, "FloatNode", "NewFloatNode", 4, "F4"},
	{"u8", 0o50, 8, "UintNode", "NewUintNode", 8, "U8"},
	{"u1", 0o51, 1, "UintNode", "NewUintNode", 1, "U1"},
	{"u2", 0o52, 2, "UintNode", "NewUintNode", 2, "U2"},
	{"u4", 0o54, 4, "UintNode", "NewUintNode", 4, "U4"},
}

func formatByCode(code int) *itemFormat {
	for i := range e5Formats {
		if e5Formats[i].Code == code {
			return &e5Formats[i]
		}
	}
	return nil
}

func formatFor(node string, byteSz int) *itemFormat {
	for i := range e5Formats {
		if e5Formats[i].Node == node && e5Formats[i].ByteSz == byteSz {
			return &e5Formats[i]
		}
	}
	return nil
}

// E37 §8.3: session types of control messages, and 0 for data messages.
var e37STypes = map[int]string{
	1: "select.req", 2: "select.rsp", 3: "deselect.req", 4: "deselect.rsp",
	5: "linktest.req", 6: "linktest.rsp", 7: "reject.req", 9: "separate.req",
}

// e5Header is the reference item header: format byte and minimal big-endian
// length; ok is false when the payload exceeds 16,777,215 bytes.
func e5Header(code int, nbytes int64) ([]byte, bool) {
	if nbytes > maxItemBytes || nbytes < 0 {
		return nil, false
	}
	switch {
	case nbytes <= 0xFF:
		return []byte{byte(code<<2 | 1), byte(nbytes)}, true
	case nbytes <= 0xFFFF:
		return []byte{byte(code<<2 | 2), byte(nbytes >> 8), byte(nbytes)}, true
	}
	return []byte{byte(code<<2 | 3), byte(nbytes >> 16), byte(nbytes >> 8), byte(nbytes)}, true
}
