package main

func init() {
	register(&Property{ID: "C12", Title: "constructors", Rules: []Rule{
		{"R14-domain-message", ruleDomainMessage},
		{"R14-domain-nodes", ruleDomainNodes},
	}, Explanation: "tmp"})
}
