package main

func init() {
	register(&Property{ID: "C12", Title: "constructors", Rules: []Rule{
		{"R14-domain-message", ruleDomainMessage},
		{"R14-domain-nodes", ruleDomainNodes},
		{"R13", ruleCkRep()},
		{"R9", ruleErrDiscipline},
		{"R4", ruleShiftTrunc},
		{"R8h", ruleRecursion("hsms")},
		{"R8s", ruleRecursion("sml")},
		{"R7h", ruleContain("hsms")},
		{"R7s", ruleContain("sml")},
		{"R6h", ruleAllocBound("hsms")},
		{"R6s", ruleAllocBound("sml")},
		{"R26", ruleHeaderBytes},
		{"R1e", ruleEncodeTables},
		{"R15", ruleToBytesGuard},
		{"R1c", ruleDecodeDispatch},
		{"R1d", ruleSTypes},
		{"R22", ruleDecodeWidth},
		{"R21d", ruleDecodeHeader},
		{"R5", ruleFraming},
		{"R17", ruleDivisibility},
		{"R14s", ruleDomainSML},
		{"R1es", ruleSMLTables},
		{"R19", ruleEmitCapacity},
		{"R10", ruleLexClass},
		{"R25", ruleErrorsSuppress},
		{"R20", ruleMsgScope},
		{"R6ch", ruleAllocBeforeRecursion("hsms")},
		{"R6cs", ruleAllocBeforeRecursion("sml")},
	}, Explanation: "tmp"})
}
