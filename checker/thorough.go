package main

// runThorough adds the thorough-tier work; filled in by selftest.go.
var runThorough = func(prop *Property, p *Prog, rep *Report, repo string) {}
