package main

import (
	"encoding/json"
	"fmt"
	"os"
	"path/filepath"
	"sort"
	"strconv"
	"strings"
	"sync"
)

func firstLine(s string) string {
	if i := strings.Index(s, "\n"); i >= 0 {
		return s[:i]
	}
	return s
}

// Thorough tier.
//
//  1. The property's rules are evaluated a second time with the conservative
//     CHA call graph instead of the VTA-refined one; verdicts must agree
//     (containment, taint and effect rules depend on the graph).
//  2. Self test, in memory (packages.Config.Overlay, nothing is written):
//     every seeded change under /verif/seeded whose meta.json names this
//     property, and every rewrite in /verif/variants/*.json owned by it, is
//     applied to /repo's *current* files and the property's rules are run on
//     the result. A breaking variant must make at least one obligation fail;
//     a quiet (behaviour-preserving) variant must leave every verdict as it
//     is. A variant that no longer applies to the current tree is skipped.
//     The self test is skipped when the unmodified tree already fails.

type variantFile struct {
	ID       string   `json:"id"`
	Property []string `json:"properties"`
	File     string   `json:"file"`
	Find     string   `json:"find"`
	Replace  string   `json:"replace"`
	Quiet    bool     `json:"quiet"`
	Expect   string   `json:"expect"` // substring of a failing obligation key (optional)
	Why      string   `json:"why"`
	// Base names a stored refactoring (/verif/refactorings/<Base>) that is
	// applied first; Find/Replace then edit the refactored source. This is how
	// a breaking change is placed on top of a behaviour-preserving rewrite.
	Base  string `json:"base"`
	Edits []struct {
		File    string `json:"file"`
		Find    string `json:"find"`
		Replace string `json:"replace"`
	} `json:"edits"` // further edits applied together with File/Find/Replace
}

func failing(rep *Report, known *KnownFindings, prop string) []Obligation {
	var out []Obligation
	for _, o := range rep.Obls {
		if o.Status == Discharged {
			continue
		}
		if _, ok := known.Lookup(prop, o.Key); ok && o.Status == Violated {
			continue
		}
		out = append(out, o)
	}
	return out
}

func init() {
	runThorough = thorough
}

func thorough(prop *Property, p *Prog, rep *Report, repo string) {
	known, _ := LoadKnown(filepath.Join(verifDir(), "known_findings.json"))
	if known == nil {
		known = &KnownFindings{}
	}
	base := failing(rep, known, prop.ID)

	// 1. CHA agreement
	p2 := *p
	p2.CG = p.CHA
	rep2 := NewReport()
	runRules(prop, &p2, rep2)
	rep2.CheckFloors()
	st := map[string]Status{}
	for _, o := range rep.Obls {
		st[o.Key] = o.Status
	}
	var diff []string
	for _, o := range rep2.Obls {
		if s, ok := st[o.Key]; !ok || s != o.Status {
			if o.Status != Discharged {
				diff = append(diff, fmt.Sprintf("%s: %s with the CHA graph (%s)", o.Key, o.Status, o.Detail))
			}
		}
	}
	if len(diff) > 0 {
		rep.Add(Obligation{Rule: "thorough", Key: "thorough:cha-agreement", Status: Undecided, Nontrivial: true,
			Detail: "verdicts differ between the VTA-refined and the conservative CHA call graph: " + strings.Join(firstN(diff, 3), "; ")})
	} else {
		rep.Add(Obligation{Rule: "thorough", Key: "thorough:cha-agreement", Status: Discharged, Nontrivial: true,
			Detail: fmt.Sprintf("all %d obligations have the same verdict with the conservative CHA call graph", len(rep2.Obls))})
	}

	// 2. self test
	if len(base) > 0 {
		rep.Note("self test skipped: the unmodified tree already has %d failing obligations", len(base))
		return
	}
	type result struct{ id, outcome, detail string }
	var results []result
	fired, quietOK, skipped, total := 0, 0, 0, 0
	type job struct {
		id      string
		overlay map[string][]byte
		quiet   bool
		expect  string
	}
	var jobs []job
	only := os.Getenv("SC_SELFTEST_ONLY")
	runVariant := func(id string, overlay map[string][]byte, quiet bool, expect string) {
		if only != "" && !strings.Contains(id, only) {
			return
		}
		total++
		jobs = append(jobs, job{id, overlay, quiet, expect})
	}
	type jobOut struct {
		loadErr error
		fail    []Obligation
	}
	runJobs := func() {
		outs := make([]jobOut, len(jobs))
		sem := make(chan struct{}, 10)
		var wg sync.WaitGroup
		for i := range jobs {
			wg.Add(1)
			sem <- struct{}{}
			go func(i int) {
				defer wg.Done()
				defer func() { <-sem }()
				pv, err := Load(repo, jobs[i].overlay)
				if err != nil {
					outs[i].loadErr = err
					return
				}
				rv := NewReport()
				runRules(prop, pv, rv)
				rv.CheckFloors()
				outs[i].fail = failing(rv, known, prop.ID)
			}(i)
		}
		wg.Wait()
		for i, j := range jobs {
			o := outs[i]
			if o.loadErr != nil {
				skipped++
				results = append(results, result{j.id, "skipped", "does not type-check on the current tree: " + firstLine(o.loadErr.Error())})
				continue
			}
			f := o.fail
			if j.quiet {
				if len(f) == 0 {
					quietOK++
					results = append(results, result{j.id, "quiet", "no verdict changed"})
				} else {
					results = append(results, result{j.id, "FALSE-ALARM", f[0].Key + ": " + f[0].Detail})
					rep.Add(Obligation{Rule: "selftest", Key: "selftest:quiet:" + j.id, Status: Undecided, Nontrivial: true,
						Detail: "a behaviour-preserving rewrite makes the check fail (" + f[0].Key + "): the rule is brittle — " + f[0].Detail})
				}
				continue
			}
			hit := len(f) > 0
			if j.expect != "" {
				hit = false
				for _, o := range f {
					if strings.Contains(o.Key, j.expect) {
						hit = true
					}
				}
			}
			if hit {
				fired++
				results = append(results, result{j.id, "detected", f[0].Key})
			} else {
				results = append(results, result{j.id, "MISSED", "no obligation failed"})
				rep.Add(Obligation{Rule: "selftest", Key: "selftest:missed:" + j.id, Status: Undecided, Nontrivial: true,
					Detail: "a change known to break this property is not reported by its rules: the machinery has lost an instance"})
			}
		}
	}
	// seeded changes (unified diffs)
	dirs, _ := filepath.Glob(filepath.Join(verifDir(), "seeded", "*"))
	sort.Strings(dirs)
	for _, d := range dirs {
		mb, err := os.ReadFile(filepath.Join(d, "meta.json"))
		if err != nil {
			continue
		}
		var meta struct {
			ID         string   `json:"id"`
			Prop       string   `json:"breaks_property"`
			Also       []string `json:"also_checked_under"`
			Undetected bool     `json:"expected_undetected"`
			// UndetectedUnder lists the properties whose check is known not to
			// reach this change (it breaks only a clause they do not decide);
			// under the other owners it must be reported
			UndetectedUnder []string `json:"expected_undetected_under"`
		}
		if json.Unmarshal(mb, &meta) != nil {
			continue
		}
		owns := meta.Prop == prop.ID
		for _, a := range meta.Also {
			if a == prop.ID {
				owns = true
			}
		}
		if !owns {
			continue
		}
		pb, err := os.ReadFile(filepath.Join(d, "patch.diff"))
		if err != nil {
			continue
		}
		ov, err := applyUnifiedDiff(repo, string(pb))
		if err != nil {
			total++
			skipped++
			results = append(results, result{"seeded/" + filepath.Base(d), "skipped", "patch does not apply to the current tree: " + err.Error()})
			continue
		}
		for _, u := range meta.UndetectedUnder {
			if u == prop.ID {
				meta.Undetected = true
			}
		}
		if meta.Undetected {
			// a confirmed breaking change that only touches a clause listed as not decided:
			// recorded, never counted as detected and never as a miss
			total++
			skipped++
			results = append(results, result{"seeded/" + filepath.Base(d), "out-of-reach", "breaks only a clause this check does not decide (see meta.json)"})
			continue
		}
		runVariant("seeded/"+filepath.Base(d), ov, false, "")
	}
	// behaviour-preserving refactorings written independently of the rules
	// (unified diffs): no verdict of any property may change under them
	rdirs, _ := filepath.Glob(filepath.Join(verifDir(), "refactorings", "*"))
	sort.Strings(rdirs)
	for _, d := range rdirs {
		pb, err := os.ReadFile(filepath.Join(d, "patch.diff"))
		if err != nil {
			continue
		}
		id := "refactorings/" + filepath.Base(d)
		if only != "" && !strings.Contains(id, only) {
			continue
		}
		ov, err := applyUnifiedDiff(repo, string(pb))
		if err != nil {
			total++
			skipped++
			results = append(results, result{id, "skipped", "patch does not apply to the current tree: " + err.Error()})
			continue
		}
		runVariant(id, ov, true, "")
	}
	// variants (find/replace)
	files, _ := filepath.Glob(filepath.Join(verifDir(), "variants", "*.json"))
	sort.Strings(files)
	for _, f := range files {
		b, err := os.ReadFile(f)
		if err != nil {
			continue
		}
		var vs []variantFile
		if err := json.Unmarshal(b, &vs); err != nil {
			rep.Add(Obligation{Rule: "selftest", Key: "selftest:variants-file:" + filepath.Base(f), Status: Undecided, Detail: err.Error()})
			continue
		}
		for _, v := range vs {
			owns := false
			for _, pid := range v.Property {
				if pid == prop.ID {
					owns = true
				}
			}
			if !owns {
				continue
			}
			path := filepath.Join(repo, v.File)
			baseOv := map[string][]byte{}
			if v.Base != "" {
				pb, err := os.ReadFile(filepath.Join(verifDir(), "refactorings", v.Base, "patch.diff"))
				if err == nil {
					baseOv, err = applyUnifiedDiff(repo, string(pb))
				}
				if err != nil {
					total++
					skipped++
					results = append(results, result{v.ID, "skipped", "the refactoring it builds on does not apply to the current tree"})
					continue
				}
			}
			src, have := baseOv[path]
			if !have {
				var err error
				src, err = os.ReadFile(path)
				if err != nil {
					src = nil
				}
			}
			if src == nil || strings.Count(string(src), v.Find) < 1 {
				total++
				skipped++
				results = append(results, result{v.ID, "skipped", "the text to rewrite is not present in the current tree"})
				continue
			}
			ov := map[string][]byte{}
			for k, b := range baseOv {
				ov[k] = b
			}
			ov[path] = []byte(strings.Replace(string(src), v.Find, v.Replace, 1))
			okEdits := true
			for _, e := range v.Edits {
				ep := filepath.Join(repo, e.File)
				cur, have := ov[ep]
				if !have {
					b, err := os.ReadFile(ep)
					if err != nil {
						okEdits = false
						break
					}
					cur = b
				}
				if strings.Count(string(cur), e.Find) < 1 {
					okEdits = false
					break
				}
				ov[ep] = []byte(strings.Replace(string(cur), e.Find, e.Replace, 1))
			}
			if !okEdits {
				total++
				skipped++
				results = append(results, result{v.ID, "skipped", "the text to rewrite is not present in the current tree"})
				continue
			}
			runVariant(v.ID, ov, v.Quiet, v.Expect)
		}
	}
	runJobs()
	var lines []string
	for _, r := range results {
		lines = append(lines, fmt.Sprintf("%s: %s (%s)", r.id, r.outcome, r.detail))
	}
	rep.Note("self test: %d variants, %d breaking detected, %d quiet stayed quiet, %d skipped", total, fired, quietOK, skipped)
	rep.SelfTest = map[string]interface{}{"variants_total": total, "variants_fired": fired, "quiet_ok": quietOK, "skipped": skipped, "results": lines}
	if total > 0 {
		rep.Add(Obligation{Rule: "selftest", Key: "selftest:summary", Status: Discharged, Nontrivial: true,
			Detail: fmt.Sprintf("%d variants applied in memory: %d breaking changes detected, %d behaviour-preserving rewrites left all verdicts unchanged, %d skipped (do not apply to the current tree)", total, fired, quietOK, skipped)})
	}
}

// applyUnifiedDiff applies a git diff to files under root and returns the
// resulting contents as an overlay (absolute path -> content).
func applyUnifiedDiff(root, diff string) (map[string][]byte, error) {
	out := map[string][]byte{}
	lines := strings.Split(diff, "\n")
	var file string
	var src []string
	var res []string
	pos := 0 // next unread line of src (0-based)
	flush := func() {
		if file != "" {
			res = append(res, src[pos:]...)
			out[filepath.Join(root, file)] = []byte(strings.Join(res, "\n"))
		}
	}
	for i := 0; i < len(lines); i++ {
		l := lines[i]
		switch {
		case strings.HasPrefix(l, "+++ "):
			flush()
			file = strings.TrimPrefix(strings.TrimPrefix(l, "+++ "), "b/")
			b, err := os.ReadFile(filepath.Join(root, file))
			if err != nil {
				return nil, err
			}
			src = strings.Split(string(b), "\n")
			res = nil
			pos = 0
		case strings.HasPrefix(l, "@@"):
			// @@ -a,b +c,d @@
			parts := strings.Fields(l)
			if len(parts) < 3 {
				return nil, fmt.Errorf("bad hunk header %q", l)
			}
			old := strings.TrimPrefix(parts[1], "-")
			start, err := strconv.Atoi(strings.Split(old, ",")[0])
			if err != nil {
				return nil, err
			}
			// collect hunk body
			var body []string
			j := i + 1
			for ; j < len(lines); j++ {
				if strings.HasPrefix(lines[j], "@@") || strings.HasPrefix(lines[j], "diff ") || strings.HasPrefix(lines[j], "--- ") {
					break
				}
				body = append(body, lines[j])
			}
			i = j - 1
			var want []string
			for _, b := range body {
				if strings.HasPrefix(b, " ") || strings.HasPrefix(b, "-") {
					want = append(want, b[1:])
				} else if b == "" {
					// blank context line with the leading space stripped by an editor
				}
			}
			// locate the old text: at the stated line, else nearest match
			at := -1
			try := func(k int) bool {
				if k < pos || k+len(want) > len(src) {
					return false
				}
				for x := range want {
					if src[k+x] != want[x] {
						return false
					}
				}
				return true
			}
			if try(start - 1) {
				at = start - 1
			} else {
				for d := 1; d < len(src) && at < 0; d++ {
					if try(start - 1 - d) {
						at = start - 1 - d
					} else if try(start - 1 + d) {
						at = start - 1 + d
					}
				}
			}
			if at < 0 {
				return nil, fmt.Errorf("hunk at %s:%d does not match", file, start)
			}
			res = append(res, src[pos:at]...)
			k := at
			for _, b := range body {
				switch {
				case strings.HasPrefix(b, " "):
					res = append(res, src[k])
					k++
				case strings.HasPrefix(b, "-"):
					k++
				case strings.HasPrefix(b, "+"):
					res = append(res, b[1:])
				}
			}
			pos = k
		}
	}
	flush()
	if len(out) == 0 {
		return nil, fmt.Errorf("no file in diff")
	}
	return out, nil
}
