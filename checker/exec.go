package main

// Control and memory of the abstract evaluator.
//
// Memory is a flow-sensitive store: a map from memory paths to values that is
// threaded through the blocks of a function and through its calls. A store to
// a constant path is a strong update; a store through an unknown index, or
// into an object whose allocation site may have run more than once, is a weak
// one. Where control flow merges the stores are joined; a path written on one
// side only keeps its value with a "maybe" mark, which makes a later load join
// it with what the cell held before (the zero value of a fresh object, the
// symbolic input value otherwise).
//
// An activation is evaluated in one of two ways. As long as every branch
// condition evaluates to a constant the blocks are simply followed in
// execution order (path mode): phis take the value of the edge taken, loops
// unroll, every allocation gets its own name. The first unknown condition
// abandons that attempt and the activation is evaluated as a fixpoint over its
// control-flow graph instead (join mode), exactly one abstract state per block.
// Nothing of the analysed program is executed in either mode: all values are
// abstract, the "path" is a path through the SSA form.

import (
	"fmt"
	"go/types"
	"math/big"
	"os"
	"sort"
	"strconv"
	"strings"
	"sync"
	"time"
	"unicode/utf8"

	"golang.org/x/tools/go/ssa"
)

// Interp holds what is shared by one query: bindings, limits, observers.
type Interp struct {
	Prog *Prog
	// Bind lets a query give selected SSA values a constant. It is consulted
	// before anything else, in the queried function and in every callee.
	Bind func(v ssa.Value, fr *frame) (Val, bool)
	// PathBind gives memory paths a value ("p0.stream", "len(p0.values)"); it
	// holds whatever the analysed code writes there.
	PathBind map[string]Val
	// InitBind gives input memory its initial contents: unlike PathBind a cell
	// the analysed code writes afterwards reads as what was written.
	InitBind map[string]Val
	// MapKeys declares the keys an input map holds (path of the map -> keys);
	// the values are read like any other input cell (path["key"]). Lookups,
	// len and, in path mode, range then follow the declaration.
	MapKeys map[string][]Val
	// final is the store at the exits of the last top-level activation; the
	// rules read results from it (HeapAt, Elem, FinalHeap).
	final Store
	// lastTop is the last completed top-level activation; a region query on
	// the same function starts from the store that activation had at the
	// region's first block.
	lastTop *frame
	// curFr is the activation being evaluated (observers read memory as it is
	// at the observed call).
	curFr *frame
	// steps counts block evaluations over the whole query; beyond maxSteps
	// every activation gives up (unknown result) and the query is marked
	// stuck, so that a non-converging evaluation ends as "undecided".
	steps      int
	maxSteps   int
	overBudget bool
	depth      int
	stack      []*ssa.Function
	// OpaqueSubject is set when a branch condition was unknown because of a
	// subject-derived value the evaluator could not follow.
	OpaqueSubject bool
	OpaqueAt      []string
	// Symbolic makes unbound parameters and unmodified input memory evaluate
	// to named terms instead of plain unknowns.
	Symbolic bool
	// Stuck lists branch conditions that never received a value (analysis bug
	// or unsupported construct): any verdict based on this run is undecided.
	Stuck []string
	// noInitHeap: the run that evaluates the package initialisers themselves
	noInitHeap bool
	// collect is set while the observers are fed: during the final pass over a
	// fixpoint, or during the second run of a determinate path.
	collect bool
	// OnCall observes every call whose callee is known, with argument values.
	OnCall func(call *ssa.Call, callee *ssa.Function, args []Val, fr *frame)
	// CallModel, when it answers, replaces the evaluation of a call (a harness
	// standing in for a component it supplies itself, e.g. the token source).
	CallModel func(callee *ssa.Function, args []Val, fr *frame) (Val, bool)
	// TextModel, when it answers, is the text a strconv.Append* call appends
	// (an opaque element text standing for the formatted value).
	TextModel func(call *ssa.Call, callee *ssa.Function, fr *frame) (string, bool)
	// OnAppend observes every append (final pass only): the call, the appended
	// slice value and, when its length is known, its elements.
	OnAppend func(call *ssa.Call, appended Val, elems []Val, fr *frame)
	// OnSend observes every channel send, with the value sent.
	OnSend func(send *ssa.Send, v Val, fr *frame)
	// CutSink receives every integer constant a subject-derived value is compared with.
	CutSink func(c *big.Int)
	Sizes   types.Sizes
	// ReachedAny records every instruction reached in any frame (incl. callees).
	ReachedAny map[ssa.Instruction]bool
	// inputWrites lists the input-memory paths the analysed code has written
	// in this query (in any activation, on any path).
	inputWrites map[string]bool
	// pathFail and pathOK count the path-mode attempts per function in this
	// query; a function that never got through is not tried again and again.
	pathFail, pathOK map[[2]*ssa.Function]int
	// pendingFree hands the captured values of a closure to its activation;
	// curFree holds them while that activation's frames are created.
	pendingFree []Val
	curFree     []Val
	// Recursion is how many activations of one function may be nested inside
	// an activation of the same function before a recursive call is cut off
	// as unknown (0: never follow recursion; a query that evaluates a decoder
	// on a nested item sets it to the nesting depth it needs).
	Recursion int
	// Marks is free for a rule's observers to record what they saw.
	Marks map[string]bool
	// NoPath disables path mode (diagnosis only).
	NoPath bool
}

func NewInterp(p *Prog) *Interp {
	return &Interp{Prog: p, PathBind: map[string]Val{}, InitBind: map[string]Val{}, MapKeys: map[string][]Val{}, maxSteps: 400000,
		Sizes: types.SizesFor("gc", "amd64"), ReachedAny: map[ssa.Instruction]bool{},
		NoPath: os.Getenv("SC_NOPATH") != "", pathFail: map[[2]*ssa.Function]int{}, pathOK: map[[2]*ssa.Function]int{}}
}

// ---------------------------------------------------------------------------
// stores

type cell struct {
	V Val
	// Maybe: the cell may also still hold what it held before the analysed
	// code wrote it (it was written on some of the paths joined here only).
	Maybe bool
	dead  bool // (in a layer) the path was deleted
}

// Store is a persistent map from memory paths to cells: a chain of layers,
// the top one holding the latest writes. Handing a store out freezes it; the
// next write goes to a new layer on top, so a copy costs nothing and two
// stores that split at a branch still share everything written before it -
// joining or comparing them only looks at what was written since.
type Store = *layer

type layer struct {
	parent *layer
	m      map[string]cell
	depth  int
	size   int // upper bound of the number of live cells (budgeting only)
	frozen bool
	flatC  map[string]cell
}

func (s *layer) get(k string) (cell, bool) {
	for l := s; l != nil; l = l.parent {
		if c, ok := l.m[k]; ok {
			if c.dead {
				return cell{}, false
			}
			return c, true
		}
	}
	return cell{}, false
}

// flat returns all live cells (read-only).
func (s *layer) flat() map[string]cell {
	if s == nil {
		return nil
	}
	if s.frozen && s.flatC != nil {
		return s.flatC
	}
	var chain []*layer
	for l := s; l != nil; l = l.parent {
		if l.frozen && l.flatC != nil && l != s {
			chain = append(chain, l)
			break
		}
		chain = append(chain, l)
	}
	out := map[string]cell{}
	for i := len(chain) - 1; i >= 0; i-- {
		l := chain[i]
		src := l.m
		if i == len(chain)-1 && l.frozen && l.flatC != nil && l != s {
			src = l.flatC
		}
		for k, c := range src {
			if c.dead {
				delete(out, k)
			} else {
				out[k] = c
			}
		}
	}
	if s.frozen {
		s.flatC = out
	}
	return out
}

func (s *layer) sz() int {
	if s == nil {
		return 0
	}
	return s.size
}

// above lists the keys written in s since the layer anc (exclusive).
func (s *layer) above(anc *layer, into map[string]bool) {
	for l := s; l != nil && l != anc; l = l.parent {
		for k := range l.m {
			into[k] = true
		}
	}
}

func commonAncestor(a, b *layer) *layer {
	for a != b {
		if a == nil || b == nil {
			return nil
		}
		if a.depth >= b.depth {
			a = a.parent
		} else {
			b = b.parent
		}
	}
	return a
}

// pathRoot returns the allocation a fresh path belongs to ("" for input memory).
func pathRoot(path string) string {
	h := strings.Index(path, "#")
	if h < 0 {
		return ""
	}
	for i := h; i < len(path); i++ {
		if path[i] == '.' || path[i] == '[' {
			return path[:i]
		}
	}
	return path
}

func sameCell(a, b cell) bool {
	return a.Maybe == b.Maybe && a.V.K == b.V.K && a.V.Dep == b.V.Dep && equalVal(a.V, b.V)
}

func sameStore(a, b Store) bool {
	if a == b {
		return true
	}
	if a != nil && b != nil && a.parent == b.parent {
		// siblings: only their own writes can differ
		for k, x := range a.m {
			y, ok := b.m[k]
			if !ok {
				y, ok = b.parent.get(k)
				if !ok && x.dead {
					continue
				}
				if !ok || x.dead || !sameCell(x, y) {
					return false
				}
				continue
			}
			if x.dead != y.dead || (!x.dead && !sameCell(x, y)) {
				return false
			}
		}
		for k, y := range b.m {
			if _, ok := a.m[k]; ok {
				continue
			}
			x, ok := a.parent.get(k)
			if !ok && y.dead {
				continue
			}
			if !ok || y.dead || !sameCell(x, y) {
				return false
			}
		}
		return true
	}
	anc := commonAncestor(a, b)
	keys := map[string]bool{}
	a.above(anc, keys)
	b.above(anc, keys)
	for k := range keys {
		x, okx := a.get(k)
		y, oky := b.get(k)
		if okx != oky || (okx && !sameCell(x, y)) {
			return false
		}
	}
	return true
}

// joinStore merges two stores. A path present on one side only is marked
// Maybe, unless the object it belongs to does not exist on the other side at
// all (it was allocated on one side only).
func joinStore(a, b Store) Store {
	if a == b {
		return a
	}
	anc := commonAncestor(a, b)
	keys := map[string]bool{}
	a.above(anc, keys)
	b.above(anc, keys)
	out := &layer{parent: anc, m: make(map[string]cell, len(keys))}
	if anc != nil {
		out.depth = anc.depth + 1
	}
	oneSided := func(k string, c cell, other Store) cell {
		if strings.HasPrefix(k, "@") || strings.HasPrefix(k, "^") || strings.HasSuffix(k, "[*lo]") {
			return c
		}
		if r := pathRoot(k); r != "" {
			if _, exists := other.get("@" + r); !exists {
				return c
			}
		}
		c.Maybe = true
		return c
	}
	for k := range keys {
		x, okx := a.get(k)
		y, oky := b.get(k)
		switch {
		case okx && oky && strings.HasSuffix(k, "[*lo]"):
			if x.V.K == KInt && y.V.K == KInt && x.V.I.Cmp(y.V.I) <= 0 {
				out.m[k] = x
			} else {
				out.m[k] = y
			}
		case okx && oky && strings.HasPrefix(k, "@"):
			// allocation counts: one, several
			if x.V.K == KInt && y.V.K == KInt && x.V.I.Cmp(y.V.I) >= 0 {
				out.m[k] = x
			} else {
				out.m[k] = y
			}
		case okx && oky:
			out.m[k] = cell{V: join(x.V, y.V), Maybe: x.Maybe || y.Maybe}
		case okx:
			out.m[k] = oneSided(k, x, b)
		case oky:
			out.m[k] = oneSided(k, y, a)
		default:
			out.m[k] = cell{dead: true}
		}
	}
	out.size = anc.sz() + len(out.m)
	return out
}

// ---------------------------------------------------------------------------
// activations

type edge struct{ from, to *ssa.BasicBlock }

type frame struct {
	in     *Interp
	fn     *ssa.Function
	args   []Val
	free   []Val // values of the captured variables (closures)
	start  *ssa.BasicBlock
	ctx    string // call string of this activation (names its allocations)
	blocks map[*ssa.BasicBlock]bool
	edges  map[edge]bool
	vals   map[ssa.Value]Val // values of instructions in visited blocks
	memo   map[ssa.Value]Val // on-demand values of everything else
	outer  map[ssa.Value]Val // values from a previous whole-function run (region queries)
	must   map[ssa.Instruction]bool
	// memory
	cur   Store // the store at the instruction being evaluated
	owned bool  // cur is not shared with anything: it may be written in place
	entry Store
	inS   map[*ssa.BasicBlock]Store // top-level activations only
	outS  map[*ssa.BasicBlock]Store
	// results of the calls of the previous round, reused while the arguments
	// and the store at the call are unchanged
	callMemo map[*ssa.Call]*callRec
	joinMemo map[[2]*layer]*layer
	accS     map[*ssa.BasicBlock]Store
	// path mode
	pathMode  bool
	prev      *ssa.BasicBlock
	execCount map[ssa.Instruction]int
	iterPos   map[*ssa.Range]int
	iterKeys  map[*ssa.Range][]Val
	// results
	returns       map[*ssa.Return][]Val
	retStores     map[*ssa.Return]Store
	panicStores   []Store
	reStore       Store
	panics        map[ssa.Instruction]bool // Panic instrs, must-panic calls, failing assertions reached
	mayPanicCalls map[*ssa.Call]bool
	reentered     bool
	reached       map[ssa.Instruction]bool
	changed       bool
	round         int
	narrowing     bool
}

type callRec struct {
	args  []Val
	entry Store
	out   Outcome
}

// Outcome is the result of evaluating one function activation.
type Outcome struct {
	CanReturn bool
	CanPanic  bool
	Ret       []Val // joined results over reachable returns
	Exit      Store // joined store over reachable returns (nil when the activation was cut off)
	Frame     *frame
}

// Run evaluates fn from start (nil = entry) with the given argument values
// (nil entries / short slice = unknown).
func (in *Interp) Run(fn *ssa.Function, args []Val, start *ssa.BasicBlock) Outcome {
	return in.RunOuter(fn, args, start, nil)
}

// RunOuter is Run with fallback values for instructions outside the visited
// region (taken from a previous whole-function run).
func (in *Interp) RunOuter(fn *ssa.Function, args []Val, start *ssa.BasicBlock, outer map[ssa.Value]Val) Outcome {
	var entry Store
	if start != nil && len(fn.Blocks) > 0 && start != fn.Blocks[0] && in.lastTop != nil && in.lastTop.fn == fn {
		if s, ok := in.lastTop.inS[start]; ok {
			entry = s
		}
	}
	if in.Marks != nil {
		in.Marks = map[string]bool{} // marks describe one top-level run
	}
	t0, s0 := time.Now(), in.steps
	out := in.run(fn, args, start, outer, entry, "")
	in.curFr = nil
	if os.Getenv("SC_TRACE3") != "" {
		fmt.Fprintf(os.Stderr, "top %s steps=%d time=%v path=%v\n", FnName(fn), in.steps-s0, time.Since(t0).Round(time.Millisecond), out.Frame != nil && out.Frame.pathMode)
	}
	return out
}

func (in *Interp) newFrame(fn *ssa.Function, args []Val, start *ssa.BasicBlock, outer map[ssa.Value]Val, entry Store, ctx string) *frame {
	return &frame{in: in, fn: fn, args: args, free: in.curFree, start: start, outer: outer, ctx: ctx, entry: entry,
		blocks: map[*ssa.BasicBlock]bool{start: true}, edges: map[edge]bool{},
		vals: map[ssa.Value]Val{}, memo: map[ssa.Value]Val{}, must: map[ssa.Instruction]bool{},
		inS: map[*ssa.BasicBlock]Store{}, outS: map[*ssa.BasicBlock]Store{},
		execCount: map[ssa.Instruction]int{}, iterPos: map[*ssa.Range]int{}, iterKeys: map[*ssa.Range][]Val{}, callMemo: map[*ssa.Call]*callRec{}, joinMemo: map[[2]*layer]*layer{}, accS: map[*ssa.BasicBlock]Store{},
		returns: map[*ssa.Return][]Val{}, retStores: map[*ssa.Return]Store{},
		panics: map[ssa.Instruction]bool{}, mayPanicCalls: map[*ssa.Call]bool{},
		reached: map[ssa.Instruction]bool{}}
}

var loopMemo sync.Map // *ssa.Function -> bool (shared by the self test's parallel jobs)

// hasLoop reports whether the function's control-flow graph has a back edge.
// Path mode only pays off there: without loops the fixpoint visits every block
// once and joins nothing as long as the branch conditions are constants.
func hasLoop(fn *ssa.Function) bool {
	if v, ok := loopMemo.Load(fn); ok {
		return v.(bool)
	}
	res := false
	for _, b := range fn.Blocks {
		for _, s := range b.Succs {
			if s.Dominates(b) {
				res = true
			}
		}
	}
	loopMemo.Store(fn, res)
	return res
}

func (in *Interp) budget(fn *ssa.Function) bool {
	if in.steps > in.maxSteps {
		if !in.overBudget {
			in.overBudget = true
			in.Stuck = append(in.Stuck, "evaluation budget exhausted in "+FnName(fn))
		}
		return false
	}
	return true
}

func (in *Interp) run(fn *ssa.Function, args []Val, start *ssa.BasicBlock, outer map[ssa.Value]Val, entry Store, ctx string) Outcome {
	if fn.Blocks == nil {
		return Outcome{CanReturn: true, CanPanic: false, Ret: nil}
	}
	active := 0
	for _, f := range in.stack {
		if f == fn {
			active++
		}
	}
	if active > in.Recursion {
		return Outcome{CanReturn: true, CanPanic: true}
	}
	if in.depth > 8+6*in.Recursion {
		return Outcome{CanReturn: true, CanPanic: true}
	}
	if !in.budget(fn) {
		return Outcome{CanReturn: true, CanPanic: true}
	}
	in.depth++
	in.stack = append(in.stack, fn)
	if os.Getenv("SC_TRACE2") != "" {
		fmt.Fprintf(os.Stderr, "%*srun %s store=%d steps=%d\n", in.depth, "", FnName(fn), entry.sz(), in.steps)
	}
	saveFr := in.curFr
	defer func() { in.depth--; in.stack = in.stack[:len(in.stack)-1]; in.curFr = saveFr }()

	free := in.pendingFree
	in.pendingFree = nil
	region := start != nil && start != fn.Blocks[0]
	if start == nil {
		start = fn.Blocks[0]
	}
	// The observers are fed only once the shape of the evaluation is settled:
	// by a second run of a determinate path, or by one more pass over the
	// fixpoint. They then describe the result and not the way to it.
	observing := in.collect || in.depth == 1
	in.collect = false
	if observing && in.depth == 1 {
		in.ReachedAny = map[ssa.Instruction]bool{}
	}
	var fr *frame
	done := false
	// (counted per caller: a helper that cannot be followed for one caller's
	// unknown argument may well be followed for another's known one)
	pk := [2]*ssa.Function{fn, nil}
	if len(in.stack) >= 2 {
		pk[1] = in.stack[len(in.stack)-2]
	}
	if !region && !in.NoPath && hasLoop(fn) && !(in.pathFail[pk] >= 2 && in.pathOK[pk] == 0) {
		in.curFree = free
		fr = in.newFrame(fn, args, start, outer, entry, ctx)
		if !fr.execPath() {
			in.pathFail[pk]++
		} else {
			in.pathOK[pk]++
			done = true
			if observing {
				in.curFree = free
				fr = in.newFrame(fn, args, start, outer, entry, ctx)
				in.collect = true
				if !fr.execPath() {
					in.Stuck = append(in.Stuck, "path evaluation of "+FnName(fn)+" not reproducible")
				}
			}
		}
	}
	if !done {
		in.curFree = free
		fr = in.newFrame(fn, args, start, outer, entry, ctx)
		fr.fixpoint(observing)
	}
	if observing {
		for i := range fr.reached {
			in.ReachedAny[i] = true
		}
	}
	in.collect = observing && in.depth > 1

	out := Outcome{Frame: fr}
	out.CanPanic = len(fr.panics) > 0 || len(fr.mayPanicCalls) > 0
	var rets []*ssa.Return
	for r := range fr.returns {
		rets = append(rets, r)
	}
	sort.Slice(rets, func(i, j int) bool { return rets[i].Pos() < rets[j].Pos() })
	for _, r := range rets {
		vals := fr.returns[r]
		out.CanReturn = true
		if out.Ret == nil {
			out.Ret = append([]Val{}, vals...)
			out.Exit = fr.retStores[r]
		} else {
			for i := range vals {
				out.Ret[i] = join(out.Ret[i], vals[i])
			}
			out.Exit = joinStore(out.Exit, fr.retStores[r])
		}
	}
	if in.depth > 1 && out.CanReturn {
		roots := append(append([]Val{}, out.Ret...), args...)
		out.Exit = collectGarbage(out.Exit, entry, roots)
		for r := range fr.retStores {
			fr.retStores[r] = nil // only the joined exit is used from here on
		}
	}
	// memory as the rules see it after the run: the exits, the re-entry of a
	// region, and - when nothing returns - the points of panic
	final := out.Exit
	if fr.reStore != nil {
		if out.CanReturn {
			final = joinStore(final, fr.reStore)
		} else {
			final = fr.reStore
		}
	}
	if !out.CanReturn && fr.reStore == nil {
		for i, s := range fr.panicStores {
			if i == 0 {
				final = s
			} else {
				final = joinStore(final, s)
			}
		}
	}
	fr.cur = final
	fr.owned = false
	if in.depth == 1 {
		in.final = final
		if !region {
			in.lastTop = fr
		}
	}
	return out
}

// fixpoint evaluates the activation in join mode.
func (fr *frame) fixpoint(observing bool) {
	in, fn := fr.in, fr.fn
	pass := func() {
		in.steps += len(fr.blocks)
		fr.memo = map[ssa.Value]Val{}
		fr.must = map[ssa.Instruction]bool{}
		fr.returns = map[*ssa.Return][]Val{}
		fr.retStores = map[*ssa.Return]Store{}
		fr.panicStores = nil
		fr.reStore = nil
		fr.panics = map[ssa.Instruction]bool{}
		fr.mayPanicCalls = map[*ssa.Call]bool{}
		fr.reached = map[ssa.Instruction]bool{}
		for _, b := range fn.Blocks {
			if fr.blocks[b] {
				fr.evalBlock(b)
			}
		}
	}
	for round := 0; round < 200; round++ {
		fr.round = round
		fr.changed = false
		pass()
		if os.Getenv("SC_TRACE") != "" {
			fmt.Fprintf(os.Stderr, "round %d of %s: changed=%v blocks=%d edges=%d\n", round, fn.Name(), fr.changed, len(fr.blocks), len(fr.edges))
			for _, b := range fn.Blocks {
				for _, i := range b.Instrs {
					if v, ok := i.(ssa.Value); ok {
						fmt.Fprintf(os.Stderr, "   b%d %s = %s\n", b.Index, v.Name(), fr.vals[v])
					}
				}
			}
		}
		if !fr.changed {
			if os.Getenv("SC_TRACE2") != "" {
				fmt.Fprintf(os.Stderr, "%*sfix %s rounds=%d blocks=%d\n", in.depth, "", FnName(fn), round+1, len(fr.blocks))
			}
			break
		}
		if !in.budget(fn) {
			break
		}
		if round == 199 {
			in.Stuck = append(in.Stuck, "no fixpoint in "+FnName(fn))
		}
	}
	// The accumulated entry states also hold what was only true of the values
	// of earlier rounds (a loop counter that was still 0, say). One more pass
	// from the fixpoint without accumulating drops that again; it cannot go
	// below the least fixpoint, so the result stays an over-approximation.
	fr.narrowing = true
	pass()
	if observing {
		in.collect = true
		pass()
		in.collect = false
	}
	// a branch whose condition never left bottom would silently cut off its
	// successors; report it so that callers fail instead of trusting the cut
	for b := range fr.blocks {
		if len(b.Instrs) == 0 {
			continue
		}
		if iff, ok := b.Instrs[len(b.Instrs)-1].(*ssa.If); ok && fr.reached[iff] {
			if fr.eval(iff.Cond).K == KBot {
				in.Stuck = append(in.Stuck, in.Prog.Pos(iff.Cond.Pos()))
			}
		}
	}
}

// Vals exposes the fixpoint values of a frame (for region queries).
func (fr *frame) Vals() map[ssa.Value]Val { return fr.vals }

func (fr *frame) addEdge(from, to *ssa.BasicBlock) {
	e := edge{from, to}
	if !fr.edges[e] {
		fr.edges[e] = true
		fr.changed = true
	}
	if to == fr.start {
		fr.reentered = true
		if fr.reStore == nil {
			fr.reStore = fr.share()
		} else {
			fr.reStore = joinStore(fr.reStore, fr.cur)
		}
	}
	if !fr.blocks[to] {
		fr.blocks[to] = true
		fr.changed = true
	}
}

// setVal records the value recomputed from the current operand values.
// Operands only move up the lattice from round to round (phis join over a
// growing edge set), so recomputation converges; the round cap turns a
// non-converging evaluation into an undecided verdict.
func (fr *frame) setVal(v ssa.Value, nv Val) {
	old, had := fr.vals[v]
	if !had || old.K != nv.K || !equalVal(old, nv) || old.Dep != nv.Dep {
		if fr.round > 195 && os.Getenv("SC_TRACE4") != "" && strings.Contains(fr.fn.Name(), os.Getenv("SC_TRACE4")) {
			fmt.Fprintf(os.Stderr, "chg %s %s: %s -> %s\n", fr.fn.Name(), v.Name(), old, nv)
		}
		fr.vals[v] = nv
		fr.changed = true
	}
}

// step evaluates one non-terminator instruction in the current store. It
// reports false when control cannot continue past it (a call or assertion that
// always panics).
func (fr *frame) step(instr ssa.Instruction) bool {
	fr.reached[instr] = true
	fr.in.curFr = fr
	if fr.pathMode {
		fr.execCount[instr]++
	}
	if v, ok := instr.(ssa.Value); ok {
		if _, bound := fr.bound(v); !bound {
			var nv Val
			if c, isCall := v.(*ssa.Call); isCall {
				nv = fr.call(c)
			} else {
				nv = fr.eval1(v)
			}
			if fr.pathMode {
				fr.vals[v] = nv
			} else {
				fr.setVal(v, nv)
			}
		} else if c, isCall := v.(*ssa.Call); isCall {
			// a bound call still happens: its effects on memory and its
			// observers are wanted, only its result is replaced
			fr.call(c)
		}
	}
	switch i := instr.(type) {
	case *ssa.Alloc:
		fr.allocateLocal(i)
	case *ssa.MakeSlice:
		fr.allocate(fr.siteName(i))
	case *ssa.MakeMap:
		fr.allocate(fr.siteName(i))
	case *ssa.Send:
		if fr.in.OnSend != nil && fr.in.collect {
			fr.in.OnSend(i, fr.eval(i.X), fr)
			fr.in.curFr = fr
		}
	case *ssa.Range:
		delete(fr.iterPos, i)
		delete(fr.iterKeys, i)
	case *ssa.Store:
		fr.store(fr.eval(i.Addr), fr.eval(i.Val), i.Val.Type())
	case *ssa.MapUpdate:
		m, k := fr.eval(i.Map), fr.eval(i.Key)
		_, declared := fr.in.MapKeys[m.S]
		if m.K == KPtr && (strings.Contains(m.S, "#") || declared) {
			if k.K == KStr || k.K == KInt {
				fr.store(Val{K: KPtr, S: m.S + "[" + k.String() + "]"}, fr.eval(i.Value), nil)
			} else if k.K != KBot {
				fr.store(Val{K: KPtr, S: m.S + "[*]"}, fr.eval(i.Value), nil)
			}
		}
	case *ssa.Call:
		if fr.must[i] {
			fr.panics[i] = true
			fr.panicStores = append(fr.panicStores, fr.share())
			return false
		}
	case *ssa.IndexAddr:
		// a constant index at or beyond a known length: the run-time check fails
		if base, idx := fr.eval(i.X), fr.eval(i.Index); base.K == KSlice && idx.K == KInt && idx.I.IsInt64() {
			n := int64(base.Len)
			if base.Len < 0 && base.Off == 0 {
				n = -1
				if b, ok := fr.in.PathBind["len("+base.S+")"]; ok && b.K == KInt && b.I.IsInt64() {
					n = b.I.Int64()
				}
			} else if base.Len < 0 {
				n = -1
			}
			if n >= 0 && (idx.I.Int64() < 0 || idx.I.Int64() >= n) {
				fr.panics[i] = true
				fr.panicStores = append(fr.panicStores, fr.share())
				return false
			}
		}
	case *ssa.TypeAssert:
		if fr.must[i] {
			fr.panics[i] = true
			fr.panicStores = append(fr.panicStores, fr.share())
			return false
		}
	}
	return true
}

func (fr *frame) evalBlock(b *ssa.BasicBlock) {
	// the store on entry: the join over the incoming edges taken so far
	var s Store
	fr.owned = false
	if b == fr.start {
		s = fr.entry
	}
	for _, p := range b.Preds {
		if fr.edges[edge{p, b}] {
			if o := fr.outS[p]; o != nil {
				if s == nil {
					s = o
				} else {
					key := [2]*layer{s, o}
					j, ok := fr.joinMemo[key]
					if !ok {
						j = joinStore(s, o)
						j.frozen = true
						fr.joinMemo[key] = j
					}
					s = j
				}
			}
		}
	}

	// The state on entry only grows from round to round: what held on an
	// earlier visit (the first iteration of a loop, say) still holds for some
	// execution, and recomputing it from the predecessors alone would let
	// such a fact circle round a loop for ever.
	if acc, ok := fr.accS[b]; ok && acc != s && !fr.narrowing {
		if sameStore(acc, s) {
			s = acc
		} else {
			key := [2]*layer{acc, s}
			j, ok := fr.joinMemo[key]
			if !ok {
				j = joinStore(acc, s)
				if sameStore(j, acc) {
					j = acc
				}
				j.frozen = true
				fr.joinMemo[key] = j
			}
			s = j
		}
	}
	fr.accS[b] = s
	if s != nil {
		s.frozen = true
	}
	fr.owned = false
	if dk := os.Getenv("SC_TRACE5"); dk != "" && (fr.round > 195 || os.Getenv("SC_TRACE5ALL") != "") {
		var parts []string
		for _, p := range b.Preds {
			if fr.edges[edge{p, b}] {
				c, ok := fr.outS[p].get(dk)
				parts = append(parts, fmt.Sprintf("b%d:%v/%v/%v", p.Index, ok, c.V, c.Maybe))
			}
		}
		c, ok := s.get(dk)
		fmt.Fprintf(os.Stderr, "r%d in b%d: %v/%v/%v from %v\n", fr.round, b.Index, ok, c.V, c.Maybe, parts)
	}
	fr.in.steps += s.sz() / 256 // large stores make every block dearer
	fr.cur = s
	if fr.in.depth == 1 {
		fr.inS[b] = fr.share()
	}
	setOut := func() {
		if old, ok := fr.outS[b]; !ok || !sameStore(old, fr.cur) {
			if ok && fr.round > 195 && os.Getenv("SC_TRACE4") != "" && strings.Contains(fr.fn.Name(), os.Getenv("SC_TRACE4")) {
				fmt.Fprintf(os.Stderr, "chg %s out-store of b%d: %s\n", fr.fn.Name(), b.Index, diffStore(old, fr.cur))
			}
			fr.outS[b] = fr.share()
			fr.changed = true
		}
	}
	for _, instr := range b.Instrs {
		switch i := instr.(type) {
		case *ssa.If:
			fr.reached[instr] = true
			setOut()
			c := fr.eval(i.Cond)
			switch {
			case c.K == KBool && c.B:
				fr.addEdge(b, b.Succs[0])
			case c.K == KBool && !c.B:
				fr.addEdge(b, b.Succs[1])
			case c.K == KBot:
				// condition not yet computable (operands unreached): wait
			default:
				if os.Getenv("SC_TRACE6") != "" && fr.in.collect {
					fmt.Fprintf(os.Stderr, "unknown branch in %s at %s: %s = %s\n", FnName(fr.fn), fr.in.Prog.Pos(i.Cond.Pos()), i.Cond.Name(), c)
				}
				if c.K == KTop && c.Dep {
					fr.in.OpaqueSubject = true
					fr.in.OpaqueAt = append(fr.in.OpaqueAt, fr.in.Prog.Pos(i.Cond.Pos()))
				}
				fr.addEdge(b, b.Succs[0])
				fr.addEdge(b, b.Succs[1])
			}
			return
		case *ssa.Jump:
			fr.reached[instr] = true
			setOut()
			fr.addEdge(b, b.Succs[0])
			return
		case *ssa.Return:
			fr.reached[instr] = true
			vals := make([]Val, len(i.Results))
			for k, r := range i.Results {
				vals[k] = fr.eval(r)
			}
			fr.returns[i] = vals
			for _, v := range vals {
				fr.escape(v, "")
			}
			fr.retStores[i] = fr.share()
			return
		case *ssa.Panic:
			fr.reached[instr] = true
			fr.panics[i] = true
			fr.panicStores = append(fr.panicStores, fr.share())
			return
		}
		if !fr.step(instr) {
			return
		}
	}
}

// execPath follows the activation block by block as long as every branch
// condition evaluates to a constant. It reports false when it had to give up;
// nothing it did is kept then (the frame is discarded by the caller).
func (fr *frame) execPath() bool {
	in := fr.in
	fr.pathMode = true
	fr.cur = fr.entry
	fr.owned = false
	b := fr.start
	fr.prev = nil
	visits := map[*ssa.BasicBlock]int{}
	for n := 0; ; n++ {
		in.steps++
		if n > 1500 || in.steps > in.maxSteps {
			return false
		}
		visits[b]++
		if visits[b] > 130 {
			return false // longer than any loop the rules need unrolled: treat as not determinate
		}
		fr.blocks[b] = true
		if in.depth == 1 {
			if old, ok := fr.inS[b]; ok {
				fr.inS[b] = joinStore(old, fr.cur)
			} else {
				fr.inS[b] = fr.share()
			}
		}
		// phis read their operands as they were on leaving the predecessor
		var phiVals []Val
		var phis []*ssa.Phi
		for _, instr := range b.Instrs {
			p, ok := instr.(*ssa.Phi)
			if !ok {
				break
			}
			phis = append(phis, p)
			v := top
			if bv, bound := fr.bound(p); bound {
				v = bv
			} else if fr.prev != nil {
				for i, pred := range b.Preds {
					if pred == fr.prev {
						v = fr.eval(p.Edges[i])
					}
				}
			}
			phiVals = append(phiVals, v)
		}
		for i, p := range phis {
			fr.vals[p] = phiVals[i]
			fr.reached[p] = true
		}
		var next *ssa.BasicBlock
		for _, instr := range b.Instrs[len(phis):] {
			switch i := instr.(type) {
			case *ssa.If:
				fr.reached[instr] = true
				c := fr.eval(i.Cond)
				if c.K != KBool {
					return false
				}
				if c.B {
					next = b.Succs[0]
				} else {
					next = b.Succs[1]
				}
			case *ssa.Jump:
				fr.reached[instr] = true
				next = b.Succs[0]
			case *ssa.Return:
				fr.reached[instr] = true
				vals := make([]Val, len(i.Results))
				for k, r := range i.Results {
					vals[k] = fr.eval(r)
				}
				fr.returns[i] = vals
				for _, v := range vals {
					fr.escape(v, "")
				}
				fr.retStores[i] = fr.share()
				return true
			case *ssa.Panic:
				fr.reached[instr] = true
				fr.panics[i] = true
				fr.panicStores = append(fr.panicStores, fr.share())
				return true
			default:
				if !fr.step(instr) {
					return true
				}
				continue
			}
			break
		}
		if next == nil {
			return true // block without terminator (cannot happen in well-formed SSA)
		}
		fr.edges[edge{b, next}] = true
		fr.prev = b
		b = next
	}
}

func (fr *frame) bound(v ssa.Value) (Val, bool) {
	if fr.in.Bind != nil {
		return fr.in.Bind(v, fr)
	}
	return Val{}, false
}

// eval returns the current value of v.
func (fr *frame) eval(v ssa.Value) Val {
	if b, ok := fr.bound(v); ok {
		return b
	}
	if instr, ok := v.(ssa.Instruction); ok && instr.Block() != nil && fr.blocks[instr.Block()] && instr.Parent() == fr.fn {
		return fr.vals[v] // KBot until its block has been processed
	}
	if fr.outer != nil {
		if o, ok := fr.outer[v]; ok && o.K != KBot {
			return o
		}
	}
	if m, ok := fr.memo[v]; ok {
		return m
	}
	if _, isCall := v.(*ssa.Call); isCall {
		return top // calls are evaluated where they stand, never on demand
	}
	fr.memo[v] = top // cycle guard for on-demand evaluation
	r := fr.eval1(v)
	fr.memo[v] = r
	return r
}

// siteName names the object allocated by an instruction of this activation:
// the allocation site, the call string of the activation and, in path mode,
// the number of the execution.
func (fr *frame) siteName(v ssa.Value) string {
	name := allocName(v)
	if fr.ctx != "" {
		name += "@" + fr.ctx
	}
	if instr, ok := v.(ssa.Instruction); ok {
		if n := fr.execCount[instr]; n > 1 {
			name += fmt.Sprintf("~%d", n)
		}
	}
	return name
}

// allocate records that the object exists. An allocation site met again in
// join mode stands for several objects from then on: its cells are updated
// weakly, and what they hold may also be the zero value of the new object.
func (fr *frame) allocate(name string) {
	key := "@" + name
	if c, ok := fr.cur.get(key); ok {
		if c.V.K == KInt && c.V.I.Int64() > 1 {
			return // already a summary of several objects
		}
		fr.w()[key] = cell{V: int64Val(2)}
		return
	}
	fr.w()[key] = cell{V: int64Val(1)}
}

// w returns the current store for writing (copying it first when it is shared).
func (fr *frame) w() map[string]cell {
	if !fr.owned || fr.cur == nil {
		if fr.cur != nil {
			fr.cur.frozen = true
		}
		if fr.cur != nil && fr.cur.depth >= 12 {
			// compact: a long chain makes every lookup dearer
			fl := fr.cur.flat()
			m := make(map[string]cell, len(fl)+8)
			for k, c := range fl {
				m[k] = c
			}
			fr.cur = &layer{m: m, size: len(m)}
		} else {
			nl := &layer{parent: fr.cur, m: map[string]cell{}, size: fr.cur.sz()}
			if fr.cur != nil {
				nl.depth = fr.cur.depth + 1
			}
			fr.cur = nl
		}
		fr.owned = true
	}
	fr.cur.size++
	return fr.cur.m
}

// share hands the current store out; the next write copies it.
func (fr *frame) share() Store {
	fr.owned = false
	if fr.cur != nil {
		fr.cur.frozen = true
	}
	return fr.cur
}

// allocateLocal is allocate for an Alloc instruction. When the site is met
// again and nothing can still refer to the object of the earlier execution -
// its address was never stored in memory, returned or handed to unknown code,
// and no phi of this activation carries it - the name simply denotes the new
// object: its cells are cleared and it stays a single object (strong updates).
func (fr *frame) allocateLocal(a *ssa.Alloc) {
	name := fr.siteName(a)
	if _, ok := fr.cur.get("@" + name); !ok {
		fr.allocate(name)
		return
	}
	if _, esc := fr.cur.get("^" + name); !esc {
		held := false
		for _, b := range fr.fn.Blocks {
			for _, instr := range b.Instrs {
				phi, ok := instr.(*ssa.Phi)
				if !ok {
					break
				}
				if v, ok := fr.vals[phi]; ok && refersTo(v, name) {
					held = true
				}
			}
		}
		elem := a.Type().Underlying().(*types.Pointer).Elem()
		leaves, enumerable := leafPaths(elem)
		if !isAggregate(elem) {
			leaves, enumerable = nil, true
		}
		if !held && enumerable {
			if _, ok := fr.cur.get(name); ok {
				fr.w()[name] = cell{dead: true}
			}
			for _, suffix := range leaves {
				if _, ok := fr.cur.get(name + suffix); ok {
					fr.w()[name+suffix] = cell{dead: true}
				}
			}
			fr.w()["@"+name] = cell{V: int64Val(1)}
			return
		}
	}
	fr.allocate(name)
}

// refersTo reports whether a value holds an address inside the object name.
func refersTo(v Val, name string) bool {
	switch v.K {
	case KPtr, KSlice, KAgg:
		if pathRoot(v.S) == name {
			return true
		}
		for _, c := range v.Agg {
			if refersTo(c.V, name) {
				return true
			}
		}
	case KIface:
		return v.Inner != nil && refersTo(*v.Inner, name)
	case KTuple:
		for _, e := range v.Elems {
			if refersTo(e, name) {
				return true
			}
		}
	}
	return false
}

// escape records that the addresses held in v are now kept somewhere else
// than in SSA values of the allocating activation.
func (fr *frame) escape(v Val, except string) {
	switch v.K {
	case KPtr, KSlice, KAgg:
		if r := pathRoot(v.S); r != "" && r != except {
			if _, ok := fr.cur.get("^" + r); !ok {
				fr.w()["^"+r] = cell{V: boolVal(true)}
			}
		}
		for _, c := range v.Agg {
			fr.escape(c.V, except)
		}
	case KIface:
		if v.Inner != nil {
			fr.escape(*v.Inner, except)
		}
	case KTuple:
		for _, e := range v.Elems {
			fr.escape(e, except)
		}
	}
}

func (fr *frame) multi(path string) bool {
	r := pathRoot(path)
	if r == "" {
		return false
	}
	c, ok := fr.cur.get("@" + r)
	return ok && !(c.V.K == KInt && c.V.I.Int64() == 1)
}

// ---------------------------------------------------------------------------
// memory

func isAggregate(t types.Type) bool {
	if t == nil {
		return false
	}
	switch t.Underlying().(type) {
	case *types.Struct, *types.Array:
		return true
	}
	return false
}

var leafMemo sync.Map // types.Type -> []string

// leafPaths lists the path suffixes of every cell a value of aggregate type t
// can have below it (fields, nested fields, elements of small arrays); ok is
// false when they cannot be enumerated.
func leafPaths(t types.Type) ([]string, bool) {
	if t == nil {
		return nil, false
	}
	if l, ok := leafMemo.Load(t); ok {
		return l.([]string), l.([]string) != nil
	}
	var out []string
	ok := true
	var walk func(t types.Type, prefix string, depth int)
	walk = func(t types.Type, prefix string, depth int) {
		if depth > 4 || len(out) > 400 {
			ok = false
			return
		}
		switch u := t.Underlying().(type) {
		case *types.Struct:
			for i := 0; i < u.NumFields(); i++ {
				sfx := fieldSuffix(u, i)
				if sfx == "" {
					walk(u.Field(i).Type(), prefix, depth+1)
					continue
				}
				p := prefix + sfx
				out = append(out, p)
				walk(u.Field(i).Type(), p, depth+1)
			}
			// modelled library buffers keep their content in pseudo fields
			out = append(out, prefix+".$buf", prefix+".$bytes")
		case *types.Array:
			if u.Len() > 64 {
				ok = false
				return
			}
			out = append(out, prefix+"[*]")
			for i := int64(0); i < u.Len(); i++ {
				p := fmt.Sprintf("%s[%d]", prefix, i)
				out = append(out, p)
				walk(u.Elem(), p, depth+1)
			}
		}
	}
	walk(t, "", 0)
	if !ok {
		out = nil
	}
	leafMemo.Store(t, out)
	return out, ok
}

func under(k, path string) bool {
	return len(k) > len(path) && strings.HasPrefix(k, path) && (k[len(path)] == '.' || k[len(path)] == '[')
}

func (fr *frame) store(addr, v Val, t types.Type) {
	if addr.K != KPtr || v.K == KBot {
		return
	}
	path := addr.S
	if !strings.Contains(path, "#") {
		if fr.in.inputWrites == nil {
			fr.in.inputWrites = map[string]bool{}
		}
		fr.in.inputWrites[path] = true
	}
	fr.escape(v, pathRoot(path))
	weak := strings.Contains(path, "[*]") || strings.Contains(path, "[+]") || fr.multi(path)
	if strings.HasSuffix(path, "[*]") && strings.Count(path, "[*]") == 1 {
		// an unknown index may be any index: the wildcard reaches down to 0
		fr.wildFrom(path[:len(path)-3], 0)
	}
	if weak {
		if old, ok := fr.cur.get(path); ok {
			fr.w()[path] = cell{V: join(old.V, v), Maybe: old.Maybe}
		} else {
			fr.w()[path] = cell{V: v, Maybe: true}
		}
		return
	}
	if isAggregate(t) || v.K == KAgg {
		if leaves, ok := leafPaths(t); ok {
			for _, suffix := range leaves {
				if _, ok := fr.cur.get(path + suffix); ok {
					fr.w()[path+suffix] = cell{dead: true}
				}
			}
		} else {
			for k := range fr.cur.flat() {
				if under(k, path) {
					fr.w()[k] = cell{dead: true}
				}
			}
		}
	}
	if v.K == KAgg {
		for suffix, c := range v.Agg {
			fr.w()[path+suffix] = c
		}
		fr.w()[path] = cell{V: Val{K: KAgg, S: v.S}}
		return
	}
	fr.w()[path] = cell{V: v}
}

// wildFrom records that base[*] now also stands for writes at indices >= lo.
// The cell base[*lo] holds the smallest such index: a load at a constant index
// below it cannot see what was written through the wildcard.
func (fr *frame) wildFrom(base string, lo int) {
	key := base + "[*lo]"
	if c, ok := fr.cur.get(key); ok && c.V.K == KInt && c.V.I.IsInt64() && c.V.I.Int64() <= int64(lo) {
		return
	}
	fr.w()[key] = cell{V: int64Val(int64(lo))}
}

// storeFrom writes v to every index >= lo of base (an append of unknown or
// large extent at a known position).
func (fr *frame) storeFrom(base string, lo int, v Val) {
	path := base + "[*]"
	fr.escape(v, pathRoot(path))
	if old, ok := fr.cur.get(path); ok {
		fr.w()[path] = cell{V: join(old.V, v), Maybe: old.Maybe}
	} else {
		fr.w()[path] = cell{V: v, Maybe: true}
	}
	fr.wildFrom(base, lo)
}

// inputVal is what an unwritten cell of input memory holds.
func (fr *frame) inputVal(path string, t types.Type) Val {
	if v, ok := fr.in.InitBind[path]; ok {
		return v
	}
	if strings.HasPrefix(path, "g:") {
		if pat, ok := fr.in.Prog.patternOfGlobalPath(path); ok {
			return Val{K: KPtr, S: regexpObj(pat)}
		}
		if !fr.in.noInitHeap {
			if v, ok := fr.in.Prog.initCell(path); ok {
				return v
			}
			// an element the initialiser of a table left unset holds its zero value
			if r := globalRoot(path); r != "" && r != path && fr.in.Prog.initHasRoot(r) {
				return zeroVal(t)
			}
			if strings.HasPrefix(path, "g:"+modPath) {
				return top
			}
		}
	}
	if path == "g:strconv.ErrRange" || path == "g:strconv.ErrSyntax" {
		if st := fr.in.Prog.namedType("errors", "errorString"); st != nil {
			inner := Val{K: KPtr, S: path + "!"}
			return Val{K: KIface, T: types.NewPointer(st), Inner: &inner}
		}
	}
	if _, isMap := t.Underlying().(*types.Map); isMap {
		return Val{K: KPtr, S: path}
	}
	if !fr.in.Symbolic {
		return top
	}
	switch t.Underlying().(type) {
	case *types.Slice:
		return Val{K: KSlice, S: path, Len: -1}
	case *types.Pointer:
		return Val{K: KPtr, S: "(*" + path + ")"}
	case *types.Basic, *types.Interface:
		return symVal(path, false)
	}
	return top
}

func (fr *frame) load(path string, t types.Type) Val {
	in := fr.in
	if strings.HasPrefix(path, "$zero") {
		if isAggregate(t) {
			return Val{K: KAgg, S: path, Agg: map[string]cell{}}
		}
		return zeroVal(t)
	}
	if b, ok := in.PathBind[path]; ok {
		return b
	}
	if len(in.PathBind) > 0 && strings.HasSuffix(path, "]") && !strings.HasSuffix(path, "[*]") {
		// a binding of every element covers each constant index
		if i := strings.LastIndex(path, "["); i > 0 {
			if b, ok := in.PathBind[path[:i]+"[*]"]; ok {
				return b
			}
		}
	}
	st := fr.cur
	if isAggregate(t) {
		// a struct or array value: remembered as a copy of the cells below path
		agg := map[string]cell{}
		if leaves, ok := leafPaths(t); ok {
			for _, suffix := range leaves {
				if c, ok := st.get(path + suffix); ok {
					agg[suffix] = c
				} else if !in.noInitHeap && strings.Contains(path, ".init#") {
					if v, ok := in.Prog.initCell(path + suffix); ok {
						agg[suffix] = cell{V: v}
					}
				}
			}
		} else {
			for k, c := range st.flat() {
				if under(k, path) {
					agg[k[len(path):]] = c
				}
			}
		}
		src := path
		if c, ok := st.get(path); ok && c.V.K == KAgg {
			src = c.V.S
		} else if ok {
			return top
		}
		return Val{K: KAgg, S: src, Agg: agg}
	}
	fresh := strings.Contains(path, "#")
	if !fresh {
		if c, ok := st.get(path); ok {
			if !c.Maybe {
				return c.V
			}
			return join(c.V, fr.inputVal(path, t))
		}
		// a map or slice header is not changed by writes to its elements
		if _, isMap := t.Underlying().(*types.Map); isMap {
			return fr.inputVal(path, t)
		}
		// input memory: its symbolic value as long as nothing overlapping was written
		for k := range in.inputWrites {
			if _, live := st.get(k); !live {
				continue
			}
			if strings.HasPrefix(path, k+".") || strings.HasPrefix(path, k+"[") || strings.HasPrefix(k, path+".") || strings.HasPrefix(k, path+"[") {
				return top
			}
			if i := strings.LastIndex(path, "["); i >= 0 && strings.HasPrefix(k, path[:i]+"[") && k != path {
				if strings.HasSuffix(k, "[*]") || strings.HasSuffix(path, "[*]") || strings.Contains(k, "[+]") {
					return top
				}
			}
		}
		return fr.inputVal(path, t)
	}
	res := Val{K: KBot}
	maybe := true
	if !in.noInitHeap && strings.Contains(path, ".init#") {
		// an object built by a package initialiser for a read-only table
		if _, ok := st.get(path); !ok {
			if strings.HasSuffix(path, "[*]") {
				if all, ok := in.Prog.initCellsUnder(path[:len(path)-2]); ok {
					return all
				}
			} else if v, ok := in.Prog.initCell(path); ok {
				return v
			}
		}
	}
	if c, ok := st.get(path); ok {
		res = c.V
		// a cell of a summary object may also belong to a newer, still zero object
		maybe = c.Maybe || fr.multi(path)
	}
	// a store through an unknown index may alias any constant index
	if i := strings.LastIndex(path, "["); i >= 0 && strings.HasSuffix(path, "]") {
		if path[i:] == "[*]" {
			// loading an unknown element: join of everything stored under the base
			prefix := path[:i] + "["
			for k, c := range st.flat() {
				if strings.HasPrefix(k, prefix) && !strings.Contains(k[len(prefix):], ".") && strings.Count(k[len(prefix):], "[") == 0 && k != prefix+"*lo]" {
					res = join(res, c.V)
				}
			}
			res = join(res, fr.defaultAt(path, t))
			return res
		}
		if c, ok := st.get(path[:i] + "[*]"); ok {
			below := false
			if lo, ok := st.get(path[:i] + "[*lo]"); ok && lo.V.K == KInt && lo.V.I.IsInt64() {
				if idx, err := strconv.Atoi(path[i+1 : len(path)-1]); err == nil && int64(idx) < lo.V.I.Int64() {
					below = true
				}
			}
			if !below {
				res = join(res, c.V)
			}
		}
	}
	if maybe {
		res = join(res, fr.defaultAt(path, t))
	}
	return res
}

// defaultAt is what a fresh cell holds when the path itself was not written:
// the component of an aggregate copied into an enclosing cell, unknown below
// any other enclosing store, the zero value otherwise.
func (fr *frame) defaultAt(path string, t types.Type) Val {
	for i := len(path) - 1; i > 0; i-- {
		if path[i] == '.' || path[i] == '[' {
			if c, ok := fr.cur.get(path[:i]); ok && strings.Contains(path[:i], "#") {
				if c.V.K == KAgg && c.V.S != path[:i] {
					return fr.load(c.V.S+path[i:], t)
				}
				if c.V.K == KAgg {
					continue
				}
				return top
			}
		}
	}
	return zeroVal(t)
}

// havoc forgets what is known about the object a value points into.
func (fr *frame) havoc(v Val) {
	if v.K == KIface && v.Inner != nil {
		v = *v.Inner
	}
	if v.K != KPtr && v.K != KSlice {
		return
	}
	r := pathRoot(v.S)
	if r == "" {
		r = v.S
	}
	fr.escape(v, "")
	for k := range fr.cur.flat() {
		if k == r || under(k, r) {
			fr.w()[k] = cell{V: top}
		}
	}
	fr.w()[r+"[*]"] = cell{V: top}
}

// HeapAt returns what the analysed code left at a memory path (at the
// observed call while an observer runs, at the exits afterwards).
func (in *Interp) HeapAt(path string) (Val, bool) {
	c, ok := in.mem().get(path)
	return c.V, ok
}

func (in *Interp) mem() Store {
	if in.curFr != nil && in.curFr.cur != nil {
		return in.curFr.cur
	}
	if in.final != nil {
		return in.final
	}
	return nil
}

// FinalHeap returns the memory as the last run left it.
func (in *Interp) FinalHeap() map[string]Val {
	out := map[string]Val{}
	for k, c := range in.mem().flat() {
		if !strings.HasPrefix(k, "@") && !strings.HasPrefix(k, "^") && !strings.HasSuffix(k, "[*lo]") {
			out[k] = c.V
		}
	}
	return out
}

// Elem reads element i of a modelled slice.
func (in *Interp) Elem(s Val, i int, t types.Type) Val {
	fr := in.curFr
	if fr == nil || fr.cur == nil {
		fr = &frame{in: in, cur: in.mem()}
	}
	// (loads never write)
	return fr.load(fmt.Sprintf("%s[%d]", s.S, s.Off+i), t)
}

// Load reads a cell of known type from the memory the last run left.
func (in *Interp) Load(path string, t types.Type) Val {
	fr := in.curFr
	if fr == nil || fr.cur == nil {
		fr = &frame{in: in, cur: in.mem()}
	}
	return fr.load(path, t)
}

// ValueOf returns the value of v in this activation.
func (fr *frame) ValueOf(v ssa.Value) Val {
	fr.memo = map[ssa.Value]Val{}
	return fr.eval(v)
}

// ReturnVals lists the values of every reachable return, in source order.
func (fr *frame) ReturnVals() [][]Val {
	var rets []*ssa.Return
	for r := range fr.returns {
		rets = append(rets, r)
	}
	sort.Slice(rets, func(i, j int) bool { return rets[i].Pos() < rets[j].Pos() })
	var out [][]Val
	for _, r := range rets {
		out = append(out, fr.returns[r])
	}
	return out
}

// ReturnStores lists the memory at every reachable return, in the order of
// ReturnVals (top-level activations only).
func (fr *frame) ReturnStores() []Store {
	var rets []*ssa.Return
	for r := range fr.returns {
		rets = append(rets, r)
	}
	sort.Slice(rets, func(i, j int) bool { return rets[i].Pos() < rets[j].Pos() })
	var out []Store
	for _, r := range rets {
		out = append(out, fr.retStores[r])
	}
	return out
}

// At makes the rules' memory reads (HeapAt, Load, Elem) refer to the given store.
func (in *Interp) At(s Store) {
	in.curFr = nil
	in.final = s
}

// Reached reports whether instr was reached.
func (fr *frame) Reached(instr ssa.Instruction) bool { return fr.reached[instr] }

// ResetHeap forgets everything stored so far.
func (in *Interp) ResetHeap() {
	in.final = nil
	in.lastTop = nil
	in.curFr = nil
}

// nextRune implements Next over a known string in path mode.
func (fr *frame) nextRune(x *ssa.Next, s string) Val {
	r, _ := x.Iter.(*ssa.Range)
	pos := fr.iterPos[r]
	if pos >= len(s) {
		return Val{K: KTuple, Elems: []Val{boolVal(false), top, top}}
	}
	c, w := utf8.DecodeRuneInString(s[pos:])
	fr.iterPos[r] = pos + w
	return Val{K: KTuple, Elems: []Val{boolVal(true), int64Val(int64(pos)), int64Val(int64(c))}}
}

func diffStore(a, b Store) string {
	fa, fb := a.flat(), b.flat()
	var out []string
	for k, x := range fa {
		if y, ok := fb[k]; !ok {
			out = append(out, "-"+k)
		} else if !sameCell(x, y) {
			out = append(out, fmt.Sprintf("%s: %s/%v -> %s/%v", k, x.V, x.Maybe, y.V, y.Maybe))
		}
	}
	for k, y := range fb {
		if _, ok := fa[k]; !ok {
			out = append(out, fmt.Sprintf("+%s=%s", k, y.V))
		}
	}
	sort.Strings(out)
	if len(out) > 6 {
		out = append(out[:6], fmt.Sprintf("... %d more", len(out)-6))
	}
	return strings.Join(out, "; ")
}

// raw returns the topmost entry for k, deleted or not.
func (s *layer) raw(k string) (cell, bool) {
	for l := s; l != nil; l = l.parent {
		if c, ok := l.m[k]; ok {
			return c, true
		}
	}
	return cell{}, false
}

// collectGarbage rewrites the store a callee returns as one layer on top of
// the store it was entered with, leaving out the objects the callee allocated
// that nothing can reach any more: not its results, not its arguments, not
// the objects that existed before the call. Only what is unreachable is
// dropped, so no later load can tell the difference.
func collectGarbage(exit, entry Store, roots []Val) Store {
	if exit == nil || exit == entry {
		return exit
	}
	if commonAncestor(exit, entry) != entry {
		return exit
	}
	keys := map[string]bool{}
	exit.above(entry, keys)
	newRoots := map[string]bool{}
	for k := range keys {
		if strings.HasPrefix(k, "@") {
			if _, ok := entry.get(k); !ok {
				newRoots[k[1:]] = true
			}
		}
	}
	byRoot := map[string][]string{}
	reach := map[string]bool{}
	var work []string
	var mark func(v Val)
	mark = func(v Val) {
		switch v.K {
		case KPtr, KSlice:
			if r := pathRoot(v.S); r != "" && newRoots[r] && !reach[r] {
				reach[r] = true
				work = append(work, r)
			}
		case KIface:
			if v.Inner != nil {
				mark(*v.Inner)
			}
		case KTuple:
			for _, e := range v.Elems {
				mark(e)
			}
		case KAgg:
			if r := pathRoot(v.S); r != "" && newRoots[r] && !reach[r] {
				reach[r] = true
				work = append(work, r)
			}
			for _, c := range v.Agg {
				mark(c.V)
			}
		}
	}
	for k := range keys {
		if strings.HasPrefix(k, "@") || strings.HasPrefix(k, "^") {
			continue
		}
		if r := pathRoot(k); r != "" && newRoots[r] {
			byRoot[r] = append(byRoot[r], k)
		} else if c, ok := exit.get(k); ok {
			mark(c.V)
		}
	}
	for _, v := range roots {
		mark(v)
	}
	for len(work) > 0 {
		r := work[len(work)-1]
		work = work[:len(work)-1]
		for _, k := range byRoot[r] {
			if c, ok := exit.get(k); ok {
				mark(c.V)
			}
		}
	}
	out := &layer{parent: entry, m: make(map[string]cell, len(keys)), frozen: true}
	if entry != nil {
		out.depth = entry.depth + 1
	}
	for k := range keys {
		r := pathRoot(k)
		if strings.HasPrefix(k, "@") || strings.HasPrefix(k, "^") {
			r = k[1:]
		}
		if newRoots[r] && !reach[r] {
			continue
		}
		if c, ok := exit.raw(k); ok {
			if c.dead {
				if _, had := entry.get(k); !had {
					continue
				}
			}
			out.m[k] = c
		}
	}
	out.size = entry.sz() + len(out.m)
	return out
}

// mapHas reports what is known about a key of a declared input map: whether
// the analysed code or the declaration puts it there.
func (fr *frame) mapHas(m string, k Val) (present, known bool) {
	keys, declared := fr.in.MapKeys[m]
	if !declared || (k.K != KStr && k.K != KInt) {
		return false, false
	}
	if c, ok := fr.cur.get(m + "[" + k.String() + "]"); ok {
		return true, !c.Maybe
	}
	if _, wild := fr.cur.get(m + "[*]"); wild {
		return false, false
	}
	for _, d := range keys {
		if d.K == k.K && equalVal(d, k) {
			return true, true
		}
	}
	return false, true
}

// nextKey implements Next over a declared input map in path mode: the
// declared keys in order (the order of a real map is arbitrary; the rules only
// declare maps whose order does not matter).
func (fr *frame) nextKey(x *ssa.Next, m string, elem types.Type) Val {
	r, _ := x.Iter.(*ssa.Range)
	keys, ok := fr.iterKeys[r]
	if !ok {
		keys = append([]Val{}, fr.in.MapKeys[m]...)
		fr.iterKeys[r] = keys
	}
	pos := fr.iterPos[r]
	if pos >= len(keys) {
		return Val{K: KTuple, Elems: []Val{boolVal(false), top, top}}
	}
	fr.iterPos[r] = pos + 1
	k := keys[pos]
	return Val{K: KTuple, Elems: []Val{boolVal(true), k, fr.load(m+"["+k.String()+"]", elem)}}
}

// globalRoot: "g:<package path>.<Name>" of a path below a package-level variable.
func globalRoot(path string) string {
	if !strings.HasPrefix(path, "g:") {
		return ""
	}
	i := strings.LastIndex(path, "/")
	if i < 0 {
		i = 2
	}
	j := strings.Index(path[i:], ".")
	if j < 0 {
		return ""
	}
	for k := i + j + 1; k < len(path); k++ {
		if path[k] == '.' || path[k] == '[' {
			return path[:k]
		}
	}
	return path
}

// freshMapKeys: the keys of a map the evaluated code made, when every entry
// was stored under a constant key on the path followed (no store through an
// unknown key, no entry of a summary object, no maybe).
func (fr *frame) freshMapKeys(m string) ([]Val, bool) {
	if fr.multi(m + "[0]") {
		return nil, false
	}
	prefix := m + "["
	var keys []Val
	for k, c := range fr.cur.flat() {
		if !strings.HasPrefix(k, prefix) {
			continue
		}
		rest := k[len(prefix):]
		if !strings.HasSuffix(rest, "]") || c.dead {
			if c.dead {
				continue
			}
			return nil, false // a cell below an entry: not a flat map
		}
		rest = rest[:len(rest)-1]
		if rest == "*" || rest == "*lo" || rest == "+" || c.Maybe {
			return nil, false
		}
		if strings.HasPrefix(rest, "\"") {
			sv, err := strconv.Unquote(rest)
			if err != nil {
				return nil, false
			}
			keys = append(keys, strVal(sv))
		} else if i, ok := new(big.Int).SetString(rest, 10); ok {
			keys = append(keys, intVal(i))
		} else {
			return nil, false
		}
	}
	return keys, true
}
