package main

// Calls: module functions are evaluated in their own activation with the
// caller's store; a short list of standard-library functions that write
// through an argument (encoding/binary, strings.Builder, bytes.Buffer, fmt.F*)
// is modelled; every other call that leaves the module is unknown, and what it
// could have written through its arguments is forgotten.

import (
	"bytes"
	"fmt"
	"go/types"
	"math"
	"math/big"
	"regexp"
	"strconv"
	"strings"
	"unicode"

	"golang.org/x/tools/go/ssa"
)

func (fr *frame) call(c *ssa.Call) Val {
	com := c.Common()
	nres := com.Signature().Results().Len()
	unknown := func(dep bool) Val {
		if nres > 1 {
			el := make([]Val, nres)
			for i := range el {
				el[i] = topDep(dep)
			}
			return Val{K: KTuple, Elems: el}
		}
		return topDep(dep)
	}
	args := make([]Val, len(com.Args))
	dep := false
	for i, a := range com.Args {
		args[i] = fr.eval(a)
		dep = dep || args[i].Dep
		if args[i].K == KBot {
			return Val{K: KBot}
		}
	}
	if b, ok := com.Value.(*ssa.Builtin); ok {
		return fr.builtin(b.Name(), c, args)
	}
	var callee *ssa.Function
	var free []Val
	if com.IsInvoke() {
		recv := fr.eval(com.Value)
		if recv.K == KIface {
			sel := fr.in.Prog.SSA.MethodSets.MethodSet(recv.T).Lookup(com.Method.Pkg(), com.Method.Name())
			if sel != nil {
				callee = fr.in.Prog.SSA.MethodValue(sel)
				args = append([]Val{*recv.Inner}, args...)
			}
		}
		dep = dep || recv.Dep
	} else {
		callee = com.StaticCallee()
		if callee == nil {
			fv := fr.eval(com.Value)
			if fv.K == KFunc {
				callee = fv.Fn
				free = fv.Elems
			}
		} else if mc, ok := com.Value.(*ssa.MakeClosure); ok {
			free = fr.eval(mc).Elems
		}
	}
	named := func(name string) Val {
		if !fr.in.Symbolic {
			return unknown(dep)
		}
		var parts []string
		for ai, a := range args {
			switch a.K {
			case KSlice:
				if a.Len >= 0 {
					parts = append(parts, fmt.Sprintf("%s[%d:%d]", a.S, a.Off, a.Off+a.Len))
				} else {
					parts = append(parts, fmt.Sprintf("%s[%d:]", a.S, a.Off))
				}
			case KPtr:
				parts = append(parts, "&"+a.S)
			default:
				t, ok := termOf(a)
				if !ok {
					if ai == 0 && callee != nil && callee.Signature.Recv() != nil {
						continue // receiver of an external method (e.g. binary.BigEndian)
					}
					return unknown(dep)
				}
				parts = append(parts, t)
			}
		}
		term := name + "(" + strings.Join(parts, ",") + ")"
		mk := func(t types.Type, suffix string) Val {
			switch t.Underlying().(type) {
			case *types.Slice:
				return Val{K: KSlice, S: term + suffix, Len: -1}
			case *types.Basic, *types.Interface:
				return symVal(term+suffix, dep)
			}
			return topDep(dep)
		}
		res := com.Signature().Results()
		if nres == 1 {
			return mk(res.At(0).Type(), "")
		}
		el := make([]Val, nres)
		for i := range el {
			el[i] = mk(res.At(i).Type(), fmt.Sprintf("#%d", i))
		}
		return Val{K: KTuple, Elems: el}
	}
	if callee != nil && fr.in.OnCall != nil && fr.in.collect {
		fr.in.OnCall(c, callee, args, fr)
		fr.in.curFr = fr
	}
	if callee != nil && fr.in.CallModel != nil {
		if v, ok := fr.in.CallModel(callee, args, fr); ok {
			return v
		}
	}
	if callee == nil {
		// a dynamic call the evaluator cannot resolve may write through its
		// arguments - except an interface method declared in the module itself:
		// R12 (I2/I3) decides for every implementation in the module that
		// caller-owned slices and maps are never written, and implementations
		// outside the module are outside the properties' scope
		if !(com.IsInvoke() && com.Method.Pkg() != nil && strings.HasPrefix(com.Method.Pkg().Path(), modPath)) {
			for _, a := range args {
				fr.havocFresh(a)
			}
		}
		if com.IsInvoke() {
			recv := fr.eval(com.Value)
			if t, ok := termOf(recv); ok {
				return named(t + "." + com.Method.Name())
			}
		}
		return unknown(dep)
	}
	if fr.in.TextModel != nil && callee.Pkg != nil && callee.Pkg.Pkg.Path() == "strconv" && strings.HasPrefix(callee.Name(), "Format") && len(args) > 0 && !isConstVal(args[0]) {
		if t, ok := fr.in.TextModel(c, callee, fr); ok {
			return strVal(t)
		}
	}
	if v, ok := fr.pureCall(callee, args); ok {
		return v
	}
	if v, ok := fr.writerCall(c, callee, args); ok {
		return v
	}
	if v, ok := fr.sortCall(c, callee, args); ok {
		return v
	}
	if v, ok := fr.bytesWindowCall(callee, args); ok {
		return v
	}
	if v, ok := fr.predicateCall(c, callee, args); ok {
		return v
	}
	if v, ok := fr.matcherCall(c, callee, args); ok {
		return v
	}
	if moduleWrapper(callee) {
		// a thunk or bound-method wrapper the compiler made for a method of the
		// module: it only forwards, so it is evaluated like module code
	} else if !InModule(callee) || callee.Blocks == nil {
		if !readOnlyExternal(callee) {
			for _, a := range args {
				fr.havocFresh(a)
			}
		}
		return named(callee.Name())
	}
	ctx := c.Name()
	if n := fr.execCount[c]; n > 1 {
		ctx += fmt.Sprintf("~%d", n)
	}
	if fr.ctx != "" {
		ctx = fr.ctx + "/" + ctx
	}
	collect := fr.in.collect
	var out Outcome
	hit := false
	if rec := fr.callMemo[c]; rec != nil && !collect && len(rec.args) == len(args) && len(free) == 0 {
		hit = true
		for i := range args {
			if args[i].K != rec.args[i].K || args[i].Dep != rec.args[i].Dep || !equalVal(args[i], rec.args[i]) {
				hit = false
			}
		}
		if hit && sameStore(rec.entry, fr.cur) {
			out = rec.out
		} else {
			hit = false
		}
	}
	if !hit {
		entry := fr.share()
		fr.in.pendingFree = free
		out = fr.in.run(callee, args, nil, nil, entry, ctx)
		fr.in.pendingFree = nil
		if !collect && out.Frame != nil {
			fr.callMemo[c] = &callRec{args: args, entry: entry, out: out}
		}
	}
	fr.in.collect = collect
	fr.in.curFr = fr
	if !out.CanReturn {
		fr.must[c] = true
		return Val{K: KBot}
	}
	if out.Frame != nil {
		fr.cur = out.Exit
		fr.owned = false
	} else {
		// recursion or depth cut-off: nothing is known about what the call wrote
		for _, a := range args {
			fr.havocFresh(a)
		}
	}
	if out.CanPanic {
		fr.mayPanicCalls[c] = true
	}
	if nres == 0 {
		return top
	}
	if len(out.Ret) != nres {
		return unknown(dep) // recursion or depth cut-off: nothing known about the results
	}
	if nres == 1 {
		return out.Ret[0]
	}
	return Val{K: KTuple, Elems: out.Ret}
}

// havocFresh forgets the contents of a modelled object handed to code the
// evaluator does not follow.
func (fr *frame) havocFresh(a Val) {
	if a.K == KIface && a.Inner != nil {
		a = *a.Inner
	}
	if (a.K == KPtr || a.K == KSlice) && strings.Contains(a.S, "#") {
		fr.havoc(a)
	}
}

// readOnlyExternal lists the standard-library code that does not write
// through its arguments.
func readOnlyExternal(fn *ssa.Function) bool {
	if fn.Pkg == nil {
		// methods of instantiated generics, synthetic wrappers
		return false
	}
	path := fn.Pkg.Pkg.Path()
	name := fn.Name()
	switch path {
	case "strings", "strconv", "math", "math/bits", "unicode", "unicode/utf8", "errors", "regexp", "unicode/utf16":
		if recv := fn.Signature.Recv(); recv != nil {
			rt := recv.Type().String()
			if strings.Contains(rt, "Builder") || strings.Contains(rt, "Reader") || strings.Contains(rt, "Replacer") {
				return false
			}
		}
		if path == "strconv" && strings.HasPrefix(name, "Append") {
			return false
		}
		if path == "unicode/utf8" && (name == "EncodeRune" || name == "AppendRune") {
			return false
		}
		return true
	case "fmt":
		return strings.HasPrefix(name, "Sprint") || name == "Errorf" || strings.HasPrefix(name, "Print")
	case "bytes":
		switch name {
		case "Equal", "Compare", "Contains", "Index", "IndexByte", "HasPrefix", "HasSuffix", "Count", "LastIndex", "IndexAny", "ContainsAny", "ContainsRune", "IndexRune", "IndexFunc", "EqualFold":
			return true
		}
	case "encoding/binary":
		return strings.HasPrefix(name, "Uint") || name == "Size" || name == "String"
	case "encoding/hex":
		return name == "EncodeToString" || name == "EncodedLen" || name == "DecodedLen"
	case "reflect":
		return name == "TypeOf" || name == "DeepEqual"
	}
	return false
}

// beBytes splits an integer value into n big-endian byte values.
func (fr *frame) beBytes(v Val, n int, t types.Type) []Val {
	out := make([]Val, n)
	for i := 0; i < n; i++ {
		shift := uint(8 * (n - 1 - i))
		switch v.K {
		case KInt:
			x := new(big.Int).Rsh(wrapBits(v.I, 8*n), shift)
			x.And(x, big.NewInt(0xff))
			out[i] = Val{K: KInt, I: x, Dep: v.Dep}
		case KSym:
			if shift == 0 {
				out[i] = symVal("byte("+v.S+")", v.Dep)
			} else {
				out[i] = symVal(fmt.Sprintf("byte((%s>>%d))", v.S, shift), v.Dep)
			}
		default:
			out[i] = topDep(v.Dep)
		}
	}
	return out
}

// wrapBits reduces i to its unsigned n-bit representation.
func wrapBits(i *big.Int, n int) *big.Int {
	m := new(big.Int).Lsh(big.NewInt(1), uint(n))
	r := new(big.Int).Mod(i, m)
	if r.Sign() < 0 {
		r.Add(r, m)
	}
	return r
}

var typByteT = types.Typ[types.Uint8]

// appendTo models append(dst, elems...) on a modelled slice and returns the result.
func (fr *frame) appendTo(c *ssa.Call, a0 Val, elems []Val) Val {
	base := a0.S
	if a0.K != KSlice || !strings.Contains(a0.S, "#") {
		base = fr.siteName(c)
		fr.allocate(base)
		if a0.K == KNil || (a0.K == KSlice && a0.Len == 0) {
			a0 = Val{K: KSlice, S: base, Len: 0}
		} else {
			a0 = Val{K: KSlice, S: base, Len: -1}
		}
	}
	if a0.Len >= 0 {
		for i, e := range elems {
			fr.store(Val{K: KPtr, S: fmt.Sprintf("%s[%d]", base, a0.Off+a0.Len+i)}, e, nil)
		}
		return Val{K: KSlice, S: base, Len: a0.Len + len(elems), Off: a0.Off}
	}
	for _, e := range elems {
		fr.store(Val{K: KPtr, S: base + "[*]"}, e, nil)
	}
	return Val{K: KSlice, S: base, Len: -1, Off: a0.Off}
}

// sliceElems reads the elements of a slice of known, small length.
func (fr *frame) sliceElems(s Val, t types.Type) ([]Val, bool) {
	if s.K == KNil {
		return nil, true
	}
	if s.K == KStr {
		out := make([]Val, len(s.S))
		for i := range out {
			out[i] = int64Val(int64(s.S[i]))
		}
		return out, len(s.S) <= 256
	}
	if s.K != KSlice || s.Len < 0 || s.Len > 256 {
		return nil, false
	}
	out := make([]Val, s.Len)
	for i := range out {
		out[i] = fr.load(fmt.Sprintf("%s[%d]", s.S, s.Off+i), t)
	}
	return out, true
}

// bufKey names the modelled content of a strings.Builder or bytes.Buffer.
func bufKey(p Val) (string, bool) {
	if p.K == KIface && p.Inner != nil {
		p = *p.Inner
	}
	if p.K != KPtr {
		return "", false
	}
	return p.S + ".$buf", true
}

func isBuilderType(t types.Type) (string, bool) {
	if p, ok := t.(*types.Pointer); ok {
		t = p.Elem()
	}
	n, ok := t.(*types.Named)
	if !ok || n.Obj().Pkg() == nil {
		return "", false
	}
	switch n.Obj().Pkg().Path() + "." + n.Obj().Name() {
	case "strings.Builder":
		return "strings.Builder", true
	case "bytes.Buffer":
		return "bytes.Buffer", true
	}
	return "", false
}

// bufAppend appends text to a modelled text buffer; an unknown text makes the
// content unknown.
func (fr *frame) bufAppend(key string, text Val) {
	old := fr.load(key, types.Typ[types.String])
	nv := topDep(old.Dep || text.Dep)
	if old.K == KStr && text.K == KStr {
		nv = Val{K: KStr, S: old.S + text.S, Dep: old.Dep || text.Dep}
	}
	fr.store(Val{K: KPtr, S: key}, nv, nil)
}

// writerCall models the standard-library calls that write through an
// argument and whose effect the rules need.
func (fr *frame) writerCall(c *ssa.Call, fn *ssa.Function, args []Val) (Val, bool) {
	if fn.Pkg == nil {
		return Val{}, false
	}
	pkg := fn.Pkg.Pkg.Path()
	name := fn.Name()
	recvT := ""
	if r := fn.Signature.Recv(); r != nil {
		rt := r.Type()
		if p, ok := rt.(*types.Pointer); ok {
			rt = p.Elem()
		}
		if n, ok := rt.(*types.Named); ok {
			recvT = n.Obj().Name()
		}
	}
	dep := false
	for _, a := range args {
		dep = dep || a.Dep
	}
	switch {
	case pkg == "strconv" && strings.HasPrefix(name, "Append") && len(args) >= 2:
		// strconv.AppendX(dst, v, ...) is append(dst, strconv.FormatX(v, ...)...)
		text, known := "", false
		if fr.in.TextModel != nil && !isConstVal(args[1]) {
			text, known = fr.in.TextModel(c, fn, fr)
		}
		if !known {
			twin := "Format" + strings.TrimPrefix(name, "Append")
			if strings.HasPrefix(name, "AppendQuote") {
				twin = strings.TrimPrefix(name, "Append")
			}
			if tf := fn.Pkg.Func(twin); tf != nil {
				if v, ok := fr.pureCall(tf, args[1:]); ok && v.K == KStr {
					text, known = v.S, true
				}
			}
		}
		if !known {
			fr.havocFresh(args[0])
			return Val{}, false
		}
		elems := make([]Val, len(text))
		for i := 0; i < len(text); i++ {
			elems[i] = Val{K: KInt, I: big.NewInt(int64(text[i])), Dep: dep}
		}
		return fr.appendTo(c, args[0], elems), true
	case pkg == "encoding/binary" && (recvT == "bigEndian" || recvT == "littleEndian") &&
		(strings.HasPrefix(name, "PutUint") || strings.HasPrefix(name, "AppendUint")):
		n := 0
		switch strings.TrimPrefix(strings.TrimPrefix(name, "PutUint"), "AppendUint") {
		case "16":
			n = 2
		case "32":
			n = 4
		case "64":
			n = 8
		}
		if n == 0 || len(args) != 3 {
			return Val{}, false
		}
		bs := fr.beBytes(args[2], n, nil)
		if recvT == "littleEndian" {
			for i, j := 0, n-1; i < j; i, j = i+1, j-1 {
				bs[i], bs[j] = bs[j], bs[i]
			}
		}
		dst := args[1]
		if strings.HasPrefix(name, "Append") {
			return fr.appendTo(c, dst, bs), true
		}
		if dst.K == KSlice {
			for i, b := range bs {
				fr.store(Val{K: KPtr, S: fmt.Sprintf("%s[%d]", dst.S, dst.Off+i)}, b, nil)
			}
		} else {
			fr.havocFresh(dst)
		}
		return top, true
	case pkg == "encoding/binary" && (recvT == "bigEndian" || recvT == "littleEndian") && (name == "Uint16" || name == "Uint32" || name == "Uint64") && len(args) == 2:
		// reading bytes that are all known - written by the analysed code itself
		// (a scratch buffer) or bound by the query: the number they spell; unknown
		// or symbolic bytes of the input stay a named term
		n := map[string]int{"Uint16": 2, "Uint32": 4, "Uint64": 8}[name]
		src := args[1]
		if src.K != KSlice || (src.Len >= 0 && src.Len < n) {
			return Val{}, false
		}
		v := new(big.Int)
		for i := 0; i < n; i++ {
			idx := i
			if recvT == "littleEndian" {
				idx = n - 1 - i
			}
			e := fr.load(fmt.Sprintf("%s[%d]", src.S, src.Off+idx), typByteT)
			if e.K != KInt {
				return Val{}, false
			}
			v.Lsh(v, 8)
			v.Or(v, wrapBits(e.I, 8))
			dep = dep || e.Dep
		}
		return Val{K: KInt, I: v, Dep: dep}, true
	case pkg == "encoding/binary" && name == "Write" && len(args) == 3:
		// binary.Write(w, order, v) with a fixed-size integer or float value
		key, ok := bufKey(args[0])
		order := args[1]
		v := args[2]
		if !ok || order.K != KIface || v.K != KIface {
			fr.havocFresh(args[0])
			return topDep(dep), true
		}
		little := strings.Contains(order.T.String(), "little")
		inner := *v.Inner
		b, isBasic := v.T.Underlying().(*types.Basic)
		n := 0
		if isBasic {
			switch b.Kind() {
			case types.Uint8, types.Int8, types.Bool:
				n = 1
			case types.Uint16, types.Int16:
				n = 2
			case types.Uint32, types.Int32, types.Float32:
				n = 4
			case types.Uint64, types.Int64, types.Float64:
				n = 8
			}
		}
		bytesKey := strings.TrimSuffix(key, ".$buf") + ".$bytes"
		cur := fr.load(bytesKey, types.NewSlice(typByteT))
		if n == 0 || (isBasic && b.Info()&types.IsFloat != 0) || (cur.K != KSlice && cur.K != KNil) {
			fr.store(Val{K: KPtr, S: bytesKey}, top, nil)
			return topDep(dep), true
		}
		bs := fr.beBytes(inner, n, nil)
		if little {
			for i, j := 0, n-1; i < j; i, j = i+1, j-1 {
				bs[i], bs[j] = bs[j], bs[i]
			}
		}
		fr.store(Val{K: KPtr, S: bytesKey}, fr.appendTo(c, cur, bs), nil)
		return Val{K: KNil}, true
	case pkg == "fmt" && (name == "Fprintf" || name == "Fprint" || name == "Fprintln"):
		key, ok := bufKey(args[0])
		if !ok {
			fr.havocFresh(args[0])
			return Val{}, false
		}
		if w := args[0]; w.K == KIface {
			if _, isB := isBuilderType(w.T); !isB {
				return Val{}, false
			}
		}
		text := topDep(dep)
		if name == "Fprintf" {
			if s, ok := fr.sprintf(args[1], args[2]); ok {
				text = s
			}
		} else if s, ok := fr.sprint(args[1], name == "Fprintln"); ok {
			text = s
		}
		fr.bufAppend(key, text)
		return Val{K: KTuple, Elems: []Val{topDep(dep), Val{K: KNil}}}, true
	case (pkg == "strings" && recvT == "Builder") || (pkg == "bytes" && recvT == "Buffer"):
		key, ok := bufKey(args[0])
		if !ok {
			return Val{}, false
		}
		bytesKey := strings.TrimSuffix(key, ".$buf") + ".$bytes"
		two := func(n Val) Val { return Val{K: KTuple, Elems: []Val{n, Val{K: KNil}}} }
		switch name {
		case "WriteString":
			fr.bufAppend(key, args[1])
			fr.bufBytesOf(c, bytesKey, args[1])
			if args[1].K == KStr {
				return two(int64Val(int64(len(args[1].S)))), true
			}
			return two(topDep(dep)), true
		case "WriteByte":
			t := topDep(dep)
			if args[1].K == KInt && args[1].I.IsInt64() {
				t = Val{K: KStr, S: string([]byte{byte(args[1].I.Int64())}), Dep: dep}
			}
			fr.bufAppend(key, t)
			fr.bufBytes(c, bytesKey, []Val{args[1]}, true)
			return Val{K: KNil}, true
		case "WriteRune":
			t := topDep(dep)
			if args[1].K == KInt && args[1].I.IsInt64() {
				t = Val{K: KStr, S: string(rune(args[1].I.Int64())), Dep: dep}
			}
			fr.bufAppend(key, t)
			fr.bufBytesOf(c, bytesKey, t)
			return two(topDep(dep)), true
		case "Write":
			fr.bufAppend(key, topDep(dep))
			fr.bufBytesOf(c, bytesKey, args[1])
			return two(topDep(dep)), true
		case "String":
			return fr.load(key, types.Typ[types.String]), true
		case "Bytes":
			v := fr.load(bytesKey, types.NewSlice(typByteT))
			if v.K == KNil {
				return Val{K: KSlice, S: fr.siteName(c), Len: 0}, true
			}
			return v, true
		case "Len":
			if s := fr.load(key, types.Typ[types.String]); s.K == KStr {
				return int64Val(int64(len(s.S))), true
			}
			if v := fr.load(bytesKey, types.NewSlice(typByteT)); v.K == KSlice && v.Len >= 0 {
				return int64Val(int64(v.Len)), true
			}
			return topDep(dep), true
		case "Reset":
			fr.store(Val{K: KPtr, S: key}, strVal(""), nil)
			fr.store(Val{K: KPtr, S: bytesKey}, Val{K: KNil}, nil)
			return top, true
		case "Grow", "Cap":
			return topDep(dep), true
		}
		fr.store(Val{K: KPtr, S: key}, top, nil)
		fr.store(Val{K: KPtr, S: bytesKey}, top, nil)
		return Val{}, false
	}
	return Val{}, false
}

// bufBytes appends to the byte view of a modelled buffer (bytes.Buffer).
func (fr *frame) bufBytesOf(c *ssa.Call, bytesKey string, data Val) {
	elems, ok := fr.sliceElems(data, typByteT)
	fr.bufBytes(c, bytesKey, elems, ok)
}

func (fr *frame) bufBytes(c *ssa.Call, bytesKey string, elems []Val, ok bool) {
	cur := fr.load(bytesKey, types.NewSlice(typByteT))
	if cur.K != KSlice && cur.K != KNil {
		fr.store(Val{K: KPtr, S: bytesKey}, top, nil)
		return
	}
	if !ok {
		if cur.K == KNil {
			cur = Val{K: KSlice, S: fr.siteName(c), Len: -1}
			fr.allocate(cur.S)
		}
		fr.store(Val{K: KPtr, S: cur.S + "[*]"}, top, nil)
		cur.Len = -1
		fr.store(Val{K: KPtr, S: bytesKey}, cur, nil)
		return
	}
	fr.store(Val{K: KPtr, S: bytesKey}, fr.appendTo(c, cur, elems), nil)
}

// goArg turns an interface-boxed value into a Go value for fmt.
func goArg(e Val) (interface{}, bool, bool) {
	if e.K != KIface || e.Inner == nil {
		return nil, false, e.Dep
	}
	dep := e.Dep || e.Inner.Dep
	switch e.Inner.K {
	case KInt:
		if b, ok := e.T.Underlying().(*types.Basic); ok && e.Inner.I.IsInt64() {
			switch b.Kind() {
			case types.Uint8:
				return byte(e.Inner.I.Int64()), true, dep
			case types.Int32:
				return rune(e.Inner.I.Int64()), true, dep
			}
		}
		return e.Inner.I, true, dep
	case KStr:
		return e.Inner.S, true, dep
	case KBool:
		return e.Inner.B, true, dep
	case KFloat:
		if b, ok := e.T.Underlying().(*types.Basic); ok && b.Kind() == types.Float32 {
			return float32(e.Inner.F), true, dep
		}
		return e.Inner.F, true, dep
	}
	return nil, false, dep
}

func (fr *frame) sprintf(format, rest Val) (Val, bool) {
	if format.K != KStr {
		return Val{}, false
	}
	if rest.K == KNil {
		return Val{K: KStr, S: fmt.Sprintf(format.S), Dep: format.Dep}, true
	}
	if rest.K != KSlice || rest.Len < 0 || rest.Len > 8 {
		return Val{}, false
	}
	var goArgs []interface{}
	d := format.Dep
	for i := 0; i < rest.Len; i++ {
		e := fr.load(fmt.Sprintf("%s[%d]", rest.S, rest.Off+i), types.NewInterfaceType(nil, nil))
		g, ok, dep := goArg(e)
		d = d || dep
		if !ok {
			return topDep(true), true
		}
		goArgs = append(goArgs, g)
	}
	return Val{K: KStr, S: fmt.Sprintf(format.S, goArgs...), Dep: d}, true
}

func (fr *frame) sprint(rest Val, ln bool) (Val, bool) {
	if rest.K == KNil {
		if ln {
			return strVal("\n"), true
		}
		return strVal(""), true
	}
	if rest.K != KSlice || rest.Len < 0 || rest.Len > 8 {
		return Val{}, false
	}
	var goArgs []interface{}
	d := false
	for i := 0; i < rest.Len; i++ {
		e := fr.load(fmt.Sprintf("%s[%d]", rest.S, rest.Off+i), types.NewInterfaceType(nil, nil))
		g, ok, dep := goArg(e)
		d = d || dep
		if !ok {
			return topDep(true), true
		}
		goArgs = append(goArgs, g)
	}
	if ln {
		return Val{K: KStr, S: fmt.Sprintln(goArgs...), Dep: d}, true
	}
	return Val{K: KStr, S: fmt.Sprint(goArgs...), Dep: d}, true
}

var _ = math.Abs

// predicateCall models the strings functions that take a rune predicate when
// the string is known and the predicate is a function the evaluator can
// follow: the predicate is evaluated on each rune in turn.
func (fr *frame) predicateCall(c *ssa.Call, fn *ssa.Function, args []Val) (Val, bool) {
	if fn.Pkg != nil && fn.Pkg.Pkg.Path() == "strings" && fn.Name() == "Map" && len(args) == 2 && args[0].K == KFunc && args[1].K == KStr {
		mapping := args[0].Fn
		if !InModule(mapping) || mapping.Blocks == nil {
			return Val{}, false
		}
		var sb strings.Builder
		for i, r := range args[1].S {
			out := fr.in.run(mapping, []Val{int64Val(int64(r))}, nil, nil, fr.share(), fmt.Sprintf("%s/%sm%d", fr.ctx, c.Name(), i))
			fr.in.curFr = fr
			if !out.CanReturn || out.CanPanic || len(out.Ret) != 1 || out.Ret[0].K != KInt || !out.Ret[0].I.IsInt64() {
				return topDep(true), true
			}
			if m := out.Ret[0].I.Int64(); m >= 0 {
				sb.WriteRune(rune(m))
			}
		}
		return Val{K: KStr, S: sb.String(), Dep: args[1].Dep}, true
	}
	if fn.Pkg == nil || fn.Pkg.Pkg.Path() != "strings" || len(args) != 2 || args[0].K != KStr || args[1].K != KFunc {
		return Val{}, false
	}
	if fn.Name() == "Map" {
		// strings.Map(mapping, s): args are (mapping, s)
		return Val{}, false
	}
	switch fn.Name() {
	case "IndexFunc", "LastIndexFunc", "ContainsFunc", "TrimFunc", "TrimLeftFunc", "TrimRightFunc":
	default:
		return Val{}, false
	}
	pred := args[1].Fn
	s := args[0].S
	dep := args[0].Dep
	holds := func(r rune) (bool, bool) {
		if v, ok := fr.pureCall(pred, []Val{int64Val(int64(r))}); ok {
			return v.B, v.K == KBool
		}
		if !InModule(pred) || pred.Blocks == nil {
			return false, false
		}
		out := fr.in.run(pred, []Val{int64Val(int64(r))}, nil, nil, fr.share(), fr.ctx+"/"+c.Name()+"p")
		fr.in.curFr = fr
		if !out.CanReturn || out.CanPanic || len(out.Ret) != 1 || out.Ret[0].K != KBool {
			return false, false
		}
		return out.Ret[0].B, true
	}
	type hit struct {
		pos, width int
		in         bool
	}
	var hits []hit
	for i, r := range s {
		h, ok := holds(r)
		if !ok {
			return topDep(true), true
		}
		hits = append(hits, hit{i, len(string(r)), h})
	}
	switch fn.Name() {
	case "IndexFunc":
		for _, h := range hits {
			if h.in {
				return Val{K: KInt, I: big.NewInt(int64(h.pos)), Dep: dep}, true
			}
		}
		return Val{K: KInt, I: big.NewInt(-1), Dep: dep}, true
	case "LastIndexFunc":
		for i := len(hits) - 1; i >= 0; i-- {
			if hits[i].in {
				return Val{K: KInt, I: big.NewInt(int64(hits[i].pos)), Dep: dep}, true
			}
		}
		return Val{K: KInt, I: big.NewInt(-1), Dep: dep}, true
	case "ContainsFunc":
		for _, h := range hits {
			if h.in {
				return Val{K: KBool, B: true, Dep: dep}, true
			}
		}
		return Val{K: KBool, B: false, Dep: dep}, true
	}
	lo, hi := 0, len(s)
	if fn.Name() != "TrimRightFunc" {
		for _, h := range hits {
			if !h.in {
				break
			}
			lo = h.pos + h.width
		}
	}
	if fn.Name() != "TrimLeftFunc" {
		for i := len(hits) - 1; i >= 0 && hits[i].pos >= lo; i-- {
			if !hits[i].in {
				break
			}
			hi = hits[i].pos
		}
	}
	if hi < lo {
		hi = lo
	}
	return Val{K: KStr, S: s[lo:hi], Dep: dep}, true
}

// matcherCall models strings.Replacer and regexp.Regexp objects built from
// constants: the object is a fresh cell holding its definition, its matching
// methods are evaluated on known strings with the standard library's own
// implementation (the patterns are the analysed program's constants, the
// matching semantics are Go's).
func (fr *frame) matcherCall(c *ssa.Call, fn *ssa.Function, args []Val) (Val, bool) {
	if fn.Pkg == nil {
		return Val{}, false
	}
	pkg, name := fn.Pkg.Pkg.Path(), fn.Name()
	strT := types.Typ[types.String]
	recv := ""
	if r := fn.Signature.Recv(); r != nil {
		recv = r.Type().String()
	}
	dep := false
	for _, a := range args {
		dep = dep || a.Dep
	}
	switch {
	case pkg == "strings" && name == "NewReplacer" && recv == "":
		elems, ok := fr.sliceElems(args[0], strT)
		if !ok || len(elems)%2 != 0 {
			return Val{}, false
		}
		for _, e := range elems {
			if e.K != KStr {
				return Val{}, false
			}
		}
		base := fr.siteName(c)
		fr.allocate(base)
		fr.store(Val{K: KPtr, S: base + ".$pairs"}, Val{K: KTuple, Elems: elems}, nil)
		return Val{K: KPtr, S: base}, true
	case pkg == "strings" && strings.HasSuffix(recv, "strings.Replacer") && name == "Replace":
		if args[0].K != KPtr {
			return Val{}, false
		}
		pairs := fr.load(args[0].S+".$pairs", strT)
		if pairs.K != KTuple || args[1].K != KStr {
			return topDep(dep), true
		}
		var ps []string
		for _, e := range pairs.Elems {
			ps = append(ps, e.S)
		}
		return Val{K: KStr, S: strings.NewReplacer(ps...).Replace(args[1].S), Dep: dep}, true
	case pkg == "regexp" && (name == "MustCompile" || name == "Compile") && recv == "":
		if args[0].K != KStr {
			return Val{}, false
		}
		if _, err := regexp.Compile(args[0].S); err != nil {
			return Val{}, false
		}
		// a compiled pattern is an immutable object: its identity is the pattern
		re := Val{K: KPtr, S: regexpObj(args[0].S)}
		if name == "Compile" {
			return Val{K: KTuple, Elems: []Val{re, {K: KNil}}}, true
		}
		return re, true
	case pkg == "regexp" && name == "MatchString" && recv == "":
		if args[0].K == KStr && args[1].K == KStr {
			if m, err := regexp.MatchString(args[0].S, args[1].S); err == nil {
				return Val{K: KTuple, Elems: []Val{{K: KBool, B: m, Dep: dep}, {K: KNil}}}, true
			}
		}
		return Val{}, false
	case pkg == "regexp" && strings.HasSuffix(recv, "regexp.Regexp"):
		if args[0].K != KPtr {
			return Val{}, false
		}
		patS, isRe := regexpPattern(args[0].S)
		if !isRe {
			return Val{}, false
		}
		pat := strVal(patS)
		re, err := regexp.Compile(pat.S)
		if err != nil || len(args) < 2 || args[1].K != KStr {
			return Val{}, false
		}
		switch name {
		case "MatchString":
			return Val{K: KBool, B: re.MatchString(args[1].S), Dep: dep}, true
		case "FindString":
			return Val{K: KStr, S: re.FindString(args[1].S), Dep: dep}, true
		case "FindStringIndex":
			loc := re.FindStringIndex(args[1].S)
			if loc == nil {
				return Val{K: KNil}, true
			}
			base := fr.siteName(c)
			fr.allocate(base)
			for i, x := range loc {
				fr.store(Val{K: KPtr, S: fmt.Sprintf("%s[%d]", base, i)}, Val{K: KInt, I: big.NewInt(int64(x)), Dep: dep}, nil)
			}
			return Val{K: KSlice, S: base, Len: 2}, true
		}
	}
	return Val{}, false
}

// regexpObj names the modelled object of a compiled pattern; regexpPattern
// reads the pattern back from such a name.
func regexpObj(pattern string) string { return "regexp#" + strconv.Quote(pattern) }

func regexpPattern(path string) (string, bool) {
	if !strings.HasPrefix(path, "regexp#") {
		return "", false
	}
	s, err := strconv.Unquote(strings.TrimPrefix(path, "regexp#"))
	return s, err == nil
}

// moduleWrapper: a synthetic forwarding function (method-expression thunk,
// bound-method closure) around a method of the library.
func moduleWrapper(fn *ssa.Function) bool {
	if fn == nil || fn.Pkg != nil || fn.Synthetic == "" || len(fn.Blocks) == 0 {
		return false
	}
	if !strings.HasSuffix(fn.Name(), "$thunk") && !strings.HasSuffix(fn.Name(), "$bound") {
		return false
	}
	return strings.Contains(fn.String(), modPath)
}

// sortCall models sort.Slice / sort.SliceStable on a modelled slice of known,
// small length whose comparator is a function of the module that evaluates to
// a constant for every pair asked: the elements are put in order by insertion
// (for a strict weak order every sorting algorithm gives the same sequence up
// to ties, and ties make the model give up unless the sort is stable).
func (fr *frame) sortCall(c *ssa.Call, fn *ssa.Function, args []Val) (Val, bool) {
	if fn.Pkg == nil || fn.Pkg.Pkg.Path() != "sort" || (fn.Name() != "Slice" && fn.Name() != "SliceStable") || len(args) != 2 {
		return Val{}, false
	}
	x, less := args[0], args[1]
	if x.K != KIface || x.Inner == nil || x.Inner.K != KSlice || less.K != KFunc || less.Fn == nil || len(less.Fn.Blocks) == 0 {
		return Val{}, false
	}
	sl := *x.Inner
	st, isSlice := x.T.Underlying().(*types.Slice)
	if !isSlice || sl.Len < 0 || sl.Len > 16 || !strings.Contains(sl.S, "#") {
		return Val{}, false
	}
	giveUp := func() (Val, bool) {
		fr.havoc(sl)
		return Val{K: KTuple}, true
	}
	at := func(i int) Val { return Val{K: KPtr, S: fmt.Sprintf("%s[%d]", sl.S, sl.Off+i)} }
	callLess := func(i, j int) (bool, bool) {
		fr.in.pendingFree = less.Elems
		collect := fr.in.collect
		fr.in.collect = false
		out := fr.in.run(less.Fn, []Val{int64Val(int64(i)), int64Val(int64(j))}, nil, nil, fr.share(), fr.ctx+"/"+c.Name()+"less")
		fr.in.pendingFree = nil
		fr.in.collect = collect
		fr.in.curFr = fr
		if !out.CanReturn || len(out.Ret) != 1 || out.Ret[0].K != KBool {
			return false, false
		}
		return out.Ret[0].B, true
	}
	for i := 1; i < sl.Len; i++ {
		for j := i; j > 0; j-- {
			lt, ok := callLess(j, j-1)
			if !ok {
				return giveUp()
			}
			if !lt {
				if fn.Name() == "Slice" {
					// a tie leaves the order to the algorithm
					gt, ok := callLess(j-1, j)
					if !ok || !gt {
						return giveUp()
					}
				}
				break
			}
			a, b := fr.load(at(j).S, st.Elem()), fr.load(at(j-1).S, st.Elem())
			fr.store(at(j), b, st.Elem())
			fr.store(at(j-1), a, st.Elem())
		}
	}
	return Val{K: KTuple}, true
}

// bytesWindowCall models the functions of package bytes that return a window
// of their argument, for a slice of known length whose elements are known:
// Trim, TrimLeft, TrimRight, TrimSpace, TrimPrefix, TrimSuffix.
func (fr *frame) bytesWindowCall(fn *ssa.Function, args []Val) (Val, bool) {
	if fn.Pkg == nil || fn.Pkg.Pkg.Path() != "bytes" || len(args) < 1 || args[0].K != KSlice || args[0].Len < 0 || args[0].Len > 4096 {
		return Val{}, false
	}
	switch fn.Name() {
	case "Trim", "TrimLeft", "TrimRight", "TrimSpace", "TrimPrefix", "TrimSuffix":
	default:
		return Val{}, false
	}
	s := args[0]
	bs := make([]byte, s.Len)
	dep := s.Dep
	for i := range bs {
		e := fr.load(fmt.Sprintf("%s[%d]", s.S, s.Off+i), types.Typ[types.Uint8])
		if e.K != KInt || !e.I.IsInt64() {
			return Val{}, false
		}
		dep = dep || e.Dep
		bs[i] = byte(e.I.Int64())
	}
	arg := ""
	if fn.Name() != "TrimSpace" {
		if len(args) != 2 {
			return Val{}, false
		}
		switch args[1].K {
		case KStr:
			arg = args[1].S
		case KSlice:
			el, ok := fr.sliceElems(args[1], types.Typ[types.Uint8])
			if !ok {
				return Val{}, false
			}
			b2 := make([]byte, len(el))
			for i, e := range el {
				if e.K != KInt || !e.I.IsInt64() {
					return Val{}, false
				}
				b2[i] = byte(e.I.Int64())
			}
			arg = string(b2)
		default:
			return Val{}, false
		}
	}
	var res []byte
	switch fn.Name() {
	case "Trim":
		res = bytes.Trim(bs, arg)
	case "TrimLeft":
		res = bytes.TrimLeft(bs, arg)
	case "TrimRight":
		res = bytes.TrimRight(bs, arg)
	case "TrimSpace":
		res = bytes.TrimSpace(bs)
	case "TrimPrefix":
		res = bytes.TrimPrefix(bs, []byte(arg))
	case "TrimSuffix":
		res = bytes.TrimSuffix(bs, []byte(arg))
	}
	// the result is a window of the argument: find its start
	lead := 0
	if len(res) > 0 {
		lead = len(bs) - len(bytes.TrimLeft(bs, arg))
		switch fn.Name() {
		case "TrimRight", "TrimSuffix":
			lead = 0
		case "TrimSpace":
			lead = len(bs) - len(bytes.TrimLeftFunc(bs, unicode.IsSpace))
		case "TrimPrefix":
			lead = len(bs) - len(res)
		}
	}
	if len(res) == 0 && (fn.Name() == "Trim" || fn.Name() == "TrimLeft" || fn.Name() == "TrimRight" || fn.Name() == "TrimSpace") {
		// an all-trimmed slice comes back as nil
		return Val{K: KNil, Dep: dep}, true
	}
	return Val{K: KSlice, S: s.S, Off: s.Off + lead, Len: len(res), Dep: dep}, true
}

// isConstVal: a fully known scalar.
func isConstVal(v Val) bool {
	switch v.K {
	case KInt, KFloat, KBool, KStr:
		return true
	}
	return false
}
