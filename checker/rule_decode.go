package main

import (
	"fmt"
	"go/token"
	"go/types"
	"math/big"
	"os"
	"regexp"
	"sort"
	"strings"

	"golang.org/x/tools/go/ssa"
)

func isFactory(f *ssa.Function) bool {
	return f != nil && f.Pkg != nil && f.Pkg.Pkg.Name() == "ast" && strings.HasPrefix(f.Name(), "New") && strings.Contains(f.Name(), "Node") && f.Name() != "NewEmptyItemNode"
}

// decoderInterp prepares an interpreter for a method of hsms.parser with the
// receiver's input named p0.input.
func decoderInterp(p *Prog) *Interp {
	in := NewInterp(p)
	in.PathBind["p0.input"] = Val{K: KSlice, S: "p0.input", Len: -1}
	return in
}

// R1c format dispatch — for every value of an item's format byte the decoder
// reaches exactly the factory (and element width) of the E5 format with that
// code, and nothing for a code E5 does not define or for zero length bytes.
func ruleDecodeDispatch(p *Prog, r *Report) {
	const rule = "R1c-dispatch"
	fn := p.MustFunc(r, "hsms", "(*parser).parseMessageText")
	if fn == nil {
		return
	}
	pos := p.Pos(fn.Pos())
	type reach struct {
		fac string
		bs  int64
	}
	var bad, undec []string
	okCount := 0
	for c := 0; c < 256; c++ {
		in := decoderInterp(p)
		in.PathBind["p0.msgLength"] = int64Val(11)
		in.PathBind["p0.input[*]"] = Val{K: KInt, I: bigInt(int64(c)), Dep: true}
		// the input is long enough for whatever length the bytes declare: the
		// length check is decided, wherever it stands, and does not blur the
		// format code on the way back from a helper
		in.PathBind["len(p0.input)"] = int64Val(1 << 30)
		in.InitBind["p0.pos"] = int64Val(14)
		// a declared length every element width divides
		for k := 1; k <= c&3; k++ {
			lb := int64(0)
			if k == c&3 {
				lb = 8
			}
			in.PathBind[fmt.Sprintf("p0.input[%d]", 14+k)] = int64Val(lb)
		}
		got := map[reach]bool{}
		in.OnCall = func(call *ssa.Call, callee *ssa.Function, args []Val, fr *frame) {
			if !isFactory(callee) {
				return
			}
			rc := reach{fac: callee.Name(), bs: 0}
			if len(callee.Params) > 0 && callee.Params[0].Name() == "byteSize" {
				if len(args) > 0 && args[0].K == KInt && args[0].I.IsInt64() {
					rc.bs = args[0].I.Int64()
				} else {
					rc.bs = -1
				}
			}
			got[rc] = true
		}
		out := in.Run(fn, defaultArgs(fn), nil)
		if len(in.Stuck) > 0 {
			undec = append(undec, fmt.Sprintf("format byte %#02x: evaluation stuck at %v", c, in.Stuck))
			continue
		}
		canOK := false
		for _, rv := range out.Frame.ReturnVals() {
			if len(rv) == 2 && !(rv[1].K == KBool && !rv[1].B) {
				canOK = true
			}
		}
		var gl []string
		for g := range got {
			gl = append(gl, fmt.Sprintf("%s/%d", g.fac, g.bs))
		}
		sort.Strings(gl)
		f := formatByCode(c >> 2)
		if c&3 == 0 || f == nil {
			why := "zero length bytes"
			if c&3 != 0 {
				why = fmt.Sprintf("format code %#o is not an E5 format", c>>2)
			}
			if canOK || len(got) > 0 {
				bad = append(bad, fmt.Sprintf("format byte %#02x (%s) is not rejected: reaches %v, success possible=%v", c, why, gl, canOK))
			} else {
				okCount++
			}
			continue
		}
		want := fmt.Sprintf("%s/%d", f.Factory, f.ByteSz)
		if len(gl) == 1 && gl[0] == want && canOK {
			okCount++
		} else {
			bad = append(bad, fmt.Sprintf("format byte %#02x (E5 %s, code %#o): decoder reaches %v, success possible=%v; expected exactly %s", c, f.SML, f.Code, gl, canOK, want))
		}
	}
	key := rule + ":hsms.parseMessageText:format-byte"
	switch {
	case len(bad) > 0:
		r.bad(rule, key, pos, strings.Join(firstN(bad, 4), "; "))
	case len(undec) > 0:
		r.unk(rule, key, pos, strings.Join(firstN(undec, 3), "; "))
	default:
		r.ok(rule, key, pos, fmt.Sprintf("all 256 format-byte values: the 42 bytes with an E5 code and 1-3 length bytes reach exactly their factory and width, the other 214 are rejected (%d agree)", okCount))
	}
}

func bigInt(i int64) *bigIntT { return newBig(i) }

// R1d session types — the decoder accepts exactly PType 0 with an E37 SType,
// builds a data message only for SType 0, and Type() names them per E37.
func ruleSTypes(p *Prog, r *Report) {
	const rule = "R1d-stype"
	fn := p.MustFunc(r, "hsms", "(*parser).parseMessage")
	if fn != nil {
		var all []Val
		for i := 0; i < 256; i++ {
			all = append(all, int64Val(int64(i)))
		}
		ctorOf := map[string]bool{}
		builders := messageBuilders(p, fn)
		CheckDomain(p, r, DomainSpec{Rule: rule, Key: rule + ":hsms.parseMessage:ptype*stype", Fn: fn,
			Env: map[string]Val{"p0.input": {K: KSlice, S: "p0.input", Len: -1}, "p0.pos": int64Val(4)},
			Subjs: []Subj{
				{Name: "PType(header byte 4)", Kind: SPath, Path: "p0.input[8]", Type: types.Typ[types.Uint8], NoReps: true, Extra: []Val{int64Val(0), int64Val(1), int64Val(2), int64Val(128), int64Val(255)}},
				{Name: "SType(header byte 5)", Kind: SPath, Path: "p0.input[9]", Type: types.Typ[types.Uint8], NoReps: true, Extra: all},
			},
			What: "PType == 0 and SType in {0,1,2,3,4,5,6,7,9}",
			Accept: func(v []Val) bool {
				st := v[1].I.Int64()
				_, ctl := e37STypes[int(st)]
				return v[0].I.Sign() == 0 && (st == 0 || ctl)
			},
			Survive: func(out Outcome, in *Interp) bool {
				for _, rv := range out.Frame.ReturnVals() {
					// the ok flag is the last result (alone, or after the message)
					if k := len(rv) - 1; k >= 0 && !(rv[k].K == KBool && !rv[k].B) {
						return true
					}
				}
				return false
			}})
		// which constructor each SType reaches
		var bad []string
		for st := 0; st < 256; st++ {
			in := decoderInterp(p)
			in.PathBind["p0.pos"] = int64Val(4)
			in.PathBind["p0.input[8]"] = int64Val(0)
			in.PathBind["p0.input[9]"] = int64Val(int64(st))
			got := map[string]bool{}
			in.OnCall = func(call *ssa.Call, callee *ssa.Function, args []Val, fr *frame) {
				if callee.Pkg != nil && callee.Pkg.Pkg.Name() == "ast" && strings.HasPrefix(callee.Name(), "NewHSMS") && builders[fr.fn] {
					got[callee.Name()] = true
				}
			}
			in.Run(fn, defaultArgs(fn), nil)
			want := ""
			if st == 0 {
				want = "NewHSMSDataMessage"
			} else if _, ok := e37STypes[st]; ok {
				want = "NewHSMSControlMessage"
			}
			var gl []string
			for g := range got {
				gl = append(gl, g)
				ctorOf[g] = true
			}
			sort.Strings(gl)
			if strings.Join(gl, ",") != want {
				bad = append(bad, fmt.Sprintf("SType %d builds %v, expected [%s]", st, gl, want))
			}
		}
		key := rule + ":hsms.parseMessage:constructor-per-stype"
		if len(bad) > 0 {
			r.bad(rule, key, p.Pos(fn.Pos()), strings.Join(firstN(bad, 4), "; "))
		} else {
			r.ok(rule, key, p.Pos(fn.Pos()), "SType 0 builds a data message, the 8 E37 control STypes build a control message, every other value builds nothing")
		}
	}
	// Type() is the E37 naming, total over (PType, SType)
	if tf := p.MustFunc(r, "ast", "(*ControlMessage).Type"); tf != nil {
		var bad []string
		n := 0
		for _, pt := range []int64{0, 1, 2, 127, 128, 255} {
			for st := int64(0); st < 256; st++ {
				in := NewInterp(p)
				in.PathBind["p0.header"] = Val{K: KSlice, S: "p0.header", Len: 10}
				in.PathBind["p0.header[4]"] = int64Val(pt)
				in.PathBind["p0.header[5]"] = int64Val(st)
				out := in.Run(tf, defaultArgs(tf), nil)
				want := "undefined"
				if name, ok := e37STypes[int(st)]; ok && pt == 0 {
					want = name
				}
				n++
				rets := out.Frame.ReturnVals()
				if len(rets) != 1 || out.CanPanic || rets[0][0].K != KStr {
					bad = append(bad, fmt.Sprintf("PType %d SType %d: result not a single constant (%d returns, panic=%v)", pt, st, len(rets), out.CanPanic))
				} else if rets[0][0].S != want {
					bad = append(bad, fmt.Sprintf("PType %d SType %d: Type() = %q, E37 says %q", pt, st, rets[0][0].S, want))
				}
			}
		}
		key := rule + ":ast.(*ControlMessage).Type"
		if len(bad) > 0 {
			r.bad(rule, key, p.Pos(tf.Pos()), strings.Join(firstN(bad, 4), "; "))
		} else {
			r.ok(rule, key, p.Pos(tf.Pos()), fmt.Sprintf("Type() returns the E37 name for all %d (PType, SType) pairs examined (all 256 STypes x 6 PTypes), \"undefined\" otherwise, and never panics", n))
		}
	}
	if df := p.MustFunc(r, "ast", "(*DataMessage).Type"); df != nil {
		in := NewInterp(p)
		out := in.Run(df, defaultArgs(df), nil)
		rets := out.Frame.ReturnVals()
		if len(rets) == 1 && rets[0][0].K == KStr && rets[0][0].S == "data message" {
			r.ok(rule, rule+":ast.(*DataMessage).Type", p.Pos(df.Pos()), `returns "data message"`)
		} else {
			r.bad(rule, rule+":ast.(*DataMessage).Type", p.Pos(df.Pos()), `does not return the constant "data message"`)
		}
	}
	controlHeaderFree(p, r, rule)
}

// controlHeaderFree: whether a control message is accepted depends on its
// PType and SType only. The header decoder is evaluated on concrete 14-byte
// messages of every E37 control SType with header bytes 0-3 at their extremes
// (the bytes that mean stream, function and wait bit in a data message): each
// must be accepted and its ten header bytes handed on unchanged.
func controlHeaderFree(p *Prog, r *Report, rule string) {
	fn := p.Func("hsms", "(*parser).parseMessage")
	if fn == nil {
		return
	}
	key := rule + ":hsms.parseMessage:control-header-bytes"
	var bad, undec []string
	n := 0
	for st := range e37STypes {
		for _, sess := range []int64{0, 0xFF} {
			for _, b2 := range []int64{0, 0x7F, 0x80, 0xFF} {
				for _, b3 := range []int64{0, 1, 2, 0xFF} {
					hdr := []int64{sess, sess, b2, b3, 0, int64(st), 0x11, 0x22, 0x33, 0x44}
					in := NewInterp(p)
					in.PathBind["p0.input"] = Val{K: KSlice, S: "p0.input", Len: 14}
					in.PathBind["len(p0.input)"] = int64Val(14)
					in.PathBind["p0.msgLength"] = int64Val(10)
					in.InitBind["p0.pos"] = int64Val(4)
					for i, b := range hdr {
						in.PathBind[fmt.Sprintf("p0.input[%d]", 4+i)] = int64Val(b)
					}
					var got []string
					built := false
					in.OnCall = func(call *ssa.Call, callee *ssa.Function, a []Val, fr *frame) {
						if callee.Pkg == nil || callee.Pkg.Pkg.Name() != "ast" || !strings.HasPrefix(callee.Name(), "NewHSMS") || callee.Name() == "NewHSMSDataMessage" {
							return
						}
						built = true
						got = nil
						for _, av := range a {
							if av.K == KSlice && av.Len == 10 {
								for i := 0; i < 10; i++ {
									got = append(got, in.Elem(av, i, typByte).String())
								}
							}
						}
					}
					out := in.Run(fn, defaultArgs(fn), nil)
					n++
					what := fmt.Sprintf("SType %d with header %s", st, hexOf(hdr))
					if out.Frame == nil || len(in.Stuck) > 0 {
						undec = append(undec, what+": evaluation stuck")
						continue
					}
					acc, rej := false, false
					for _, rv := range out.Frame.ReturnVals() {
						if k := len(rv) - 1; k >= 0 && rv[k].K == KBool {
							if rv[k].B {
								acc = true
							} else {
								rej = true
							}
						} else {
							acc, rej = true, true
						}
					}
					if len(out.Frame.ReturnVals()) == 0 {
						rej = true
					}
					var want []string
					for _, b := range hdr {
						want = append(want, fmt.Sprint(b))
					}
					switch {
					case acc && rej:
						undec = append(undec, what+": the evaluation does not decide between acceptance and refusal")
					case rej:
						bad = append(bad, what+" is refused: a control message is accepted whatever its bytes 0-3 are")
					case !built:
						undec = append(undec, what+": accepted, but no control message constructor was seen")
					case len(got) == 10 && strings.Join(got, " ") != strings.Join(want, " "):
						bad = append(bad, fmt.Sprintf("%s is built from the bytes %v", what, got))
					}
				}
			}
		}
	}
	pos := p.Pos(fn.Pos())
	switch {
	case len(bad) > 0:
		sort.Strings(bad)
		r.bad(rule, key, pos, strings.Join(firstN(bad, 3), "; "))
	case len(undec) > 0:
		sort.Strings(undec)
		r.unk(rule, key, pos, strings.Join(firstN(undec, 3), "; "))
	default:
		r.ok(rule, key, pos, fmt.Sprintf("evaluated on %d concrete control messages (every E37 SType; session bytes 00/FF; byte 2 in 00 7F 80 FF; byte 3 in 00 01 02 FF): all accepted, the ten header bytes handed on unchanged", n))
	}
}

// R22 decode-width — each numeric branch reads, and reinterprets, its own
// width, and hands the value on untouched (R22b); R2 for the decoder: the
// dynamic types it hands to the factories.
func ruleDecodeWidth(p *Prog, r *Report) {
	const rule = "R22-width"
	type branch struct {
		fn   string
		k    int64
		typ  string
		term string // regexp on the symbolic term of the stored element
	}
	in0 := `p0\.input(\[[^\]]*\])+` // a byte of the input (possibly through a sub-slice)
	sl := `p0\.input\[[^\]]*\]`     // a sub-slice of the input (symbolic bounds are rendered as [+] or [a:b])
	_ = sl
	bs := []branch{
		{"parseInt", 1, "int8", `^int8\(` + in0 + `\)$`},
		{"parseInt", 2, "int16", `^int16\(Uint16\(.*\)\)$`},
		{"parseInt", 4, "int32", `^int32\(Uint32\(.*\)\)$`},
		{"parseInt", 8, "int64", `^int64\(Uint64\(.*\)\)$`},
		{"parseUint", 1, "uint8", `^(uint8\()?` + in0 + `\)?$`},
		{"parseUint", 2, "uint16", `^Uint16\(.*\)$`},
		{"parseUint", 4, "uint32", `^Uint32\(.*\)$`},
		{"parseUint", 8, "uint64", `^Uint64\(.*\)$`},
		{"parseFloat", 4, "float32", `^Float32frombits\(Uint32\(.*\)\)$`},
		{"parseFloat", 8, "float64", `^Float64frombits\(Uint64\(.*\)\)$`},
	}
	for _, b := range bs {
		key := fmt.Sprintf("%s:hsms.%s:width=%d", rule, b.fn, b.k)
		if pf := p.Func("hsms", "(*parser)."+b.fn); pf == nil || !callsFactoryDirectly(pf) {
			// the per-type decoder has another name or shape: decide from the
			// item decoder itself, evaluated on an item header of that format
			widthFromItemDecoder(p, r, rule, key, b.fn, b.k, b.typ, b.term)
			continue
		}
		fn := p.MustFunc(r, "hsms", "(*parser)."+b.fn)
		if fn == nil {
			continue
		}
		pos := p.Pos(fn.Pos())
		in := decoderInterp(p)
		in.Symbolic = true
		args := defaultArgs(fn)
		bi := paramIndex(fn, "byteSize")
		if bi < 0 {
			r.unk(rule, key, pos, "parameter byteSize not found")
			continue
		}
		args[bi] = int64Val(b.k)
		var elems []Val
		var facArgs []Val
		in.OnCall = func(call *ssa.Call, callee *ssa.Function, a []Val, fr *frame) {
			if isFactory(callee) && fr.fn == fn {
				facArgs = a
			}
		}
		in.Run(fn, args, nil)
		if facArgs == nil || len(facArgs) < 2 || facArgs[len(facArgs)-1].K != KSlice {
			r.unk(rule, key, pos, "the factory call and its value slice were not found")
			continue
		}
		vs := facArgs[len(facArgs)-1]
		// all stores into the value slice
		for path, v := range in.FinalHeap() {
			if strings.HasPrefix(path, vs.S+"[") {
				elems = append(elems, v)
			}
		}
		if len(elems) == 0 {
			r.bad(rule, key, pos, fmt.Sprintf("for element width %d nothing is stored into the values handed to the factory", b.k))
			continue
		}
		re := regexp.MustCompile(b.term)
		var probs []string
		// an element whose value is no term (the bytes come through a helper the
		// symbolic run does not follow): decide from the item decoder instead
		noTerm := false
		for _, e := range elems {
			if e.K != KIface || e.Inner == nil {
				noTerm = true
			} else if t, ok := termOf(*e.Inner); !ok || t == "" {
				noTerm = true
			}
		}
		if noTerm {
			widthFromItemDecoder(p, r, rule, key, b.fn, b.k, b.typ, b.term)
			continue
		}
		for _, e := range elems {
			if e.K != KIface {
				probs = append(probs, "an element of unknown type/value is stored ("+e.String()+")")
				continue
			}
			tn := types.TypeString(e.T, nil)
			if tn == "byte" {
				tn = "uint8"
			}
			t, _ := termOf(*e.Inner)
			t = normaliseBE(strings.ReplaceAll(t, "byte(", "uint8("))
			// one widening conversion around the exact-width value is harmless
			for _, w := range widenings[b.fn] {
				if tn == w && typeWidth(w) > b.k && strings.HasPrefix(t, w+"(") && strings.HasSuffix(t, ")") && re.MatchString(t[len(w)+1:len(t)-1]) {
					tn, t = b.typ, t[len(w)+1:len(t)-1]
				}
			}
			if tn != b.typ {
				probs = append(probs, fmt.Sprintf("dynamic type %s handed to the factory for the %d-byte format (expected %s, or one widening of it)", tn, b.k, b.typ))
			} else if !re.MatchString(t) {
				probs = append(probs, fmt.Sprintf("value %q is not the %d-byte big-endian read reinterpreted as %s without further arithmetic", t, b.k, b.typ))
			}
		}
		if len(probs) > 0 {
			r.bad(rule, key, pos, strings.Join(uniq(probs), "; "))
		} else {
			t, _ := termOf(*elems[0].Inner)
			r.ok(rule, key, pos, fmt.Sprintf("elements are %s values %s", b.typ, t))
		}
	}
	// binary, boolean, ASCII payloads in parseMessageText
	fn := p.MustFunc(r, "hsms", "(*parser).parseMessageText")
	if fn == nil {
		return
	}
	for _, c := range []struct {
		name string
		code int
		fac  string
	}{{"binary", 0o10, "NewBinaryNode"}, {"boolean", 0o11, "NewBooleanNode"}, {"ascii", 0o20, "NewASCIINode"}} {
		key := fmt.Sprintf("%s:hsms.parseMessageText:%s", rule, c.name)
		// by evaluation first: the item decoder on a header of this format
		// declaring three payload bytes, which stay symbolic
		fac, args, elems, ok := decodeItemRun(p, c.code, 1, 3)
		if c.name == "boolean" {
			// a boolean is chosen by a test of the byte: the payload 00 01 00
			res, okB := decodeItemBytes(p, c.code, 3, true)
			fac, args, elems, ok = res.fac, res.args, res.elems, okB
		}
		if ok && fac == c.fac {
			pos := p.Pos(fn.Pos())
			var probs []string
			switch c.name {
			case "ascii":
				t := ""
				if len(args) > 0 {
					t, _ = termOf(args[0])
				}
				if t != "string(p0.input[18:21])" {
					probs = append(probs, fmt.Sprintf("the ASCII payload handed to the factory is %q, not the three payload bytes converted once", t))
				}
			default:
				if len(elems) != 3 {
					probs = append(probs, fmt.Sprintf("%d values are handed to the factory for three payload bytes", len(elems)))
				}
				for i, v := range elems {
					if v.K != KIface || v.Inner == nil {
						probs = append(probs, "element of unknown type: "+v.String())
						continue
					}
					tn := types.TypeString(v.T, nil)
					t, _ := termOf(*v.Inner)
					t = normaliseBE(t)
					if c.name == "binary" {
						if want := fmt.Sprintf("int(p0.input[%d])", 18+i); tn != "int" || t != want {
							probs = append(probs, fmt.Sprintf("element %d is %s(%s): the factory accepts a byte value only as %s", i, tn, t, want))
						}
					} else if tn != "bool" {
						probs = append(probs, "element of type "+tn+" instead of bool")
					} else if v.Inner.K != KBool || v.Inner.B != (i%2 == 1) {
						probs = append(probs, fmt.Sprintf("the payload 00 01 00 gives %s at position %d", v.Inner, i))
					}
				}
			}
			if len(probs) > 0 {
				r.bad(rule, key, pos, strings.Join(uniq(probs), "; "))
			} else if c.name == "boolean" {
				r.ok(rule, key, pos, "evaluated on the payload 00 01 00: "+c.fac+" receives the bool values false, true, false")
			} else {
				r.ok(rule, key, pos, "evaluated on an item of three symbolic payload bytes: "+c.fac+" receives them with the type it accepts, each from its own position")
			}
			continue
		}
		in := decoderInterp(p)
		in.Symbolic = true
		in.PathBind["p0.msgLength"] = int64Val(11)
		// the format byte is the element at the current position; its code selects the branch
		code := c.code
		in.Bind = func(v ssa.Value, fr *frame) (Val, bool) {
			// formatCode := p.input[p.pos] >> 2 ; lengthBytesCount := int(p.input[p.pos] & 3)
			if bo, ok := v.(*ssa.BinOp); ok && fr.fn == fn {
				if _, isC := bo.Y.(*ssa.Const); isC && isInputElemLoad(bo.X) {
					switch bo.Op {
					case token.SHR:
						return int64Val(int64(code)), true
					case token.AND:
						return int64Val(1), true
					}
				}
			}
			return Val{}, false
		}
		var facArgs []Val
		seen := false
		in.OnCall = func(call *ssa.Call, callee *ssa.Function, a []Val, fr *frame) {
			if callee.Name() == c.fac && fr.fn == fn {
				facArgs = a
				seen = true
			}
		}
		in.Run(fn, defaultArgs(fn), nil)
		pos := p.Pos(fn.Pos())
		if !seen {
			r.unk(rule, key, pos, "the call of "+c.fac+" was not reached for format code "+fmt.Sprintf("%#o", c.code))
			continue
		}
		switch c.name {
		case "ascii":
			t, _ := termOf(facArgs[0])
			if regexp.MustCompile(`^string\(p0\.input\[.*\]\)$`).MatchString(t) {
				r.ok(rule, key, pos, "the string is the payload bytes converted once: "+t)
			} else {
				r.bad(rule, key, pos, fmt.Sprintf("the ASCII payload handed to the factory is %q, not a single conversion of the payload bytes", facArgs[0].String()))
			}
		default:
			vs := facArgs[len(facArgs)-1]
			var probs []string
			n := 0
			for path, v := range in.FinalHeap() {
				if !strings.HasPrefix(path, vs.S+"[") {
					continue
				}
				n++
				if v.K != KIface {
					probs = append(probs, "element of unknown type: "+v.String())
					continue
				}
				tn := types.TypeString(v.T, nil)
				t, _ := termOf(*v.Inner)
				t = normaliseBE(t)
				if c.name == "binary" {
					if tn != "int" || !regexp.MustCompile(`^int\(p0\.input.*\)$`).MatchString(t) {
						probs = append(probs, fmt.Sprintf("element %s(%s): the factory accepts a byte value only as int(payload byte)", tn, t))
					}
				} else {
					if tn != "bool" {
						probs = append(probs, "element of type "+tn+" instead of bool")
					}
				}
			}
			if n == 0 {
				probs = append(probs, "nothing is stored into the values handed to the factory")
			}
			if len(probs) > 0 {
				r.bad(rule, key, pos, strings.Join(uniq(probs), "; "))
			} else {
				r.ok(rule, key, pos, "elements handed to "+c.fac+" have the type the factory accepts and are the payload bytes")
			}
		}
	}
	r.Floor(rule, 13)
}

// typeWidth: bytes of a basic numeric type by name (int and uint are 8 on the
// assumed platform).
func typeWidth(name string) int64 {
	switch name {
	case "int8", "uint8", "byte":
		return 1
	case "int16", "uint16":
		return 2
	case "int32", "uint32", "float32":
		return 4
	}
	return 8
}

var widenings = map[string][]string{
	"parseInt":   {"int", "int64", "int32", "int16"},
	"parseUint":  {"uint", "uint64", "uint32", "uint16"},
	"parseFloat": {"float64"},
}

func isInputElemLoad(v ssa.Value) bool {
	if c, ok := v.(*ssa.Convert); ok {
		v = c.X
	}
	u, ok := v.(*ssa.UnOp)
	if !ok || u.Op != token.MUL {
		return false
	}
	ia, ok := u.X.(*ssa.IndexAddr)
	if !ok {
		return false
	}
	ld, ok := ia.X.(*ssa.UnOp)
	if !ok {
		return false
	}
	f := fieldOf(ld.X)
	return f != nil && f.Name() == "input"
}

// R21d — the decoder reads header fields from the offsets E37 puts them at.
func ruleDecodeHeader(p *Prog, r *Report) {
	const rule = "R21-decode-header"
	fn := p.MustFunc(r, "hsms", "(*parser).parseMessage")
	if fn == nil {
		return
	}
	pos := p.Pos(fn.Pos())
	in := decoderInterp(p)
	in.Symbolic = true
	in.PathBind["p0.pos"] = int64Val(4)
	in.PathBind["p0.input[8]"] = int64Val(0)
	var dataArgs, ctlArgs []Val
	var u16 *Val
	// bytes of a slice as terms, whether it is a window of the input or a private copy
	bytesOf := func(v Val) []string {
		if v.K != KSlice || v.Len < 0 {
			return nil
		}
		var out []string
		for i := 0; i < v.Len; i++ {
			if strings.Contains(v.S, "#") {
				out = append(out, in.Elem(v, i, typByte).String())
			} else {
				out = append(out, fmt.Sprintf("%s[%d]", v.S, v.Off+i))
			}
		}
		return out
	}
	builders := messageBuilders(p, fn)
	in.OnCall = func(call *ssa.Call, callee *ssa.Function, a []Val, fr *frame) {
		if !builders[fr.fn] {
			return
		}
		if callee.Name() == "Uint16" && len(a) > 0 {
			v := a[len(a)-1]
			u16 = &v
		}
		switch callee.Name() {
		case "NewHSMSDataMessage":
			dataArgs = a
		case "NewHSMSControlMessage":
			ctlArgs = a
		}
	}
	in.Run(fn, defaultArgs(fn), nil)
	if dataArgs == nil || len(dataArgs) != 8 {
		r.unk(rule, rule+":data", pos, "call of ast.NewHSMSDataMessage with 8 arguments not found in parseMessage")
	} else {
		want := []struct{ name, re string }{
			{"name", `^""$`},
			{"stream", `^int\(\(p0\.input\[6\]&127\)\)$`},
			{"function", `^int\(p0\.input\[7\]\)$`},
			{"waitBit", `^int\(\(p0\.input\[6\]>>7\)\)$`},
			{"direction", `^"H<->E"$`},
			{"dataItem", ``},
			{"sessionID", `^int\(Uint16\(.*\)\)$`},
		}
		for i, w := range want {
			if w.re == "" {
				continue
			}
			t, _ := termOf(dataArgs[i])
			key := rule + ":data:" + w.name
			if regexp.MustCompile(w.re).MatchString(t) {
				r.ok(rule, key, pos, w.name+" = "+t)
			} else {
				r.bad(rule, key, pos, fmt.Sprintf("%s handed to NewHSMSDataMessage is %q; E37 puts it at %s", w.name, dataArgs[i].String(), w.re))
			}
		}
		sidTerm, _ := termOf(dataArgs[6])
		if sidTerm == "int(Uint16(p0.input[4:6]))" || sidTerm == "int(Uint16(p0.input[4:14][0:2]))" {
			// the term itself names the window the big-endian read is taken from
			r.ok(rule, rule+":data:sessionID-bytes", pos, "the session id is read big-endian from input[4], input[5]")
		} else if u16 == nil || strings.Join(bytesOf(*u16), ",") != "p0.input[4],p0.input[5]" {
			got := "?"
			if u16 != nil {
				got = strings.Join(bytesOf(*u16), ",")
			}
			r.bad(rule, rule+":data:sessionID-bytes", pos, "the session id is read big-endian from ("+got+"), E37 puts it at header bytes 0-1 (input[4], input[5])")
		} else {
			r.ok(rule, rule+":data:sessionID-bytes", pos, "the session id is read big-endian from input[4], input[5]")
		}
		sb := dataArgs[7]
		if strings.Join(bytesOf(sb), ",") == "p0.input[10],p0.input[11],p0.input[12],p0.input[13]" {
			r.ok(rule, rule+":data:systemBytes", pos, "system bytes = input[10:14]")
		} else {
			r.bad(rule, rule+":data:systemBytes", pos, "system bytes handed to NewHSMSDataMessage are "+sb.String()+", E37 puts them at header bytes 6-9 (input[10:14])")
		}
	}
	if ctlArgs == nil || len(ctlArgs) != 1 {
		r.unk(rule, rule+":control", pos, "call of ast.NewHSMSControlMessage not found in parseMessage")
	} else if h := ctlArgs[0]; h.K == KSlice && h.S == "p0.input" && h.Off == 4 && h.Len == 10 {
		r.ok(rule, rule+":control:header", pos, "the control message is built from input[4:14], the 10 header bytes")
	} else if h := ctlArgs[0]; h.K == KSlice && strings.Contains(h.S, "#") && h.Len == 10 {
		// a private copy is fine as long as every byte is the header byte itself
		var probs []string
		for i := 0; i < 10; i++ {
			e := in.Elem(h, i, typByte)
			if i == 4 && e.String() == "0" {
				continue // the query fixes PType (header byte 4) to 0 to reach this branch
			}
			if e.String() != fmt.Sprintf("p0.input[%d]", 4+i) {
				probs = append(probs, fmt.Sprintf("byte %d of the buffer handed to NewHSMSControlMessage is %s, not header byte %d", i, e, i))
			}
		}
		if len(probs) == 0 {
			r.ok(rule, rule+":control:header", pos, "the control message is built from an unmodified copy of the 10 header bytes")
		} else {
			r.bad(rule, rule+":control:header", pos, strings.Join(firstN(probs, 3), "; "))
		}
	} else {
		r.bad(rule, rule+":control:header", pos, "the control message is built from "+ctlArgs[0].String()+" instead of the 10 header bytes input[4:14]")
	}
	r.Floor(rule, 8)
}

// R5 consume-all and the length checks of the framing.
func ruleFraming(p *Prog, r *Report) {
	const rule = "R5-framing"
	// (a) at least 14 bytes
	if p.Func("hsms", "(*parser).parseMessageLength") == nil && framingThroughParse(p, r, rule) {
		// the framing is not a function of its own: decided on Parse itself
	} else if fn := p.MustFunc(r, "hsms", "(*parser).parseMessageLength"); fn != nil && framingByEvaluation(p, r, rule, fn) {
		// decided by evaluation
	} else if fn != nil {
		CheckDomain(p, r, DomainSpec{Rule: rule, Key: rule + ":hsms.parseMessageLength:len(input)", Fn: fn,
			Subjs:  []Subj{{Name: "len(input)", Kind: SLen, Path: "p0.input", Type: typInt}},
			Consts: []int64{0, 4, 10, 13, 14, 15}, What: "len(input) >= 14",
			Accept: func(v []Val) bool { return v[0].K == KInt && v[0].I.Cmp(newBig(14)) >= 0 },
			Survive: func(out Outcome, in *Interp) bool {
				for _, rv := range out.Frame.ReturnVals() {
					if len(rv) == 1 && !(rv[0].K == KBool && !rv[0].B) {
						return true
					}
				}
				return false
			}})
		// (b) success only when the declared length equals the bytes present
		key := rule + ":hsms.parseMessageLength:declared==present"
		okEq := false
		detail := "no return of parseMessageLength compares the declared length with the bytes present for equality"
		for _, b := range fn.Blocks {
			ret, ok := b.Instrs[len(b.Instrs)-1].(*ssa.Return)
			if !ok || len(ret.Results) != 1 {
				continue
			}
			if c, isC := ret.Results[0].(*ssa.Const); isC {
				if v := constVal(c); v.K == KBool && !v.B {
					continue
				}
				detail = "parseMessageLength can return the constant true without comparing lengths"
				okEq = false
				break
			}
			if bo, ok := ret.Results[0].(*ssa.BinOp); ok && bo.Op == token.EQL {
				l, d := dependsOn(bo.X), dependsOn(bo.Y)
				if (l.lenInput && d.declared) || (d.lenInput && l.declared) {
					okEq = true
					continue
				}
			}
			detail = "a successful return of parseMessageLength is not the equality of declared length and bytes present (" + ret.Results[0].String() + ")"
			okEq = false
			break
		}
		if okEq {
			r.ok(rule, key, p.Pos(fn.Pos()), "success is exactly 'bytes after the length field == declared length'")
		} else {
			r.bad(rule, key, p.Pos(fn.Pos()), detail)
		}
	}
	// (c) every byte of the text is consumed before a data message is built
	if fn := p.MustFunc(r, "hsms", "(*parser).parseMessage"); fn != nil && consumedAllByEvaluation(p, r, rule, fn) {
		// decided by evaluation
	} else if fn != nil {
		key := rule + ":hsms.parseMessage:consumed-all"
		found := false
		var callBlk *ssa.BasicBlock
		var callPos token.Pos
		// the function that builds the data message: parseMessage itself or a
		// helper of the same package it hands the data case to
		var sites []*ssa.BasicBlock
		for g := range messageBuilders(p, fn) {
			for _, b := range g.Blocks {
				for _, instr := range b.Instrs {
					if c, ok := instr.(*ssa.Call); ok {
						if sc := c.Common().StaticCallee(); sc != nil && sc.Name() == "NewHSMSDataMessage" {
							sites = append(sites, b)
							callBlk, callPos = b, c.Pos()
						}
					}
				}
			}
		}
		if len(sites) != 1 {
			callBlk = nil
		}
		if callBlk == nil {
			r.unk(rule, key, p.Pos(fn.Pos()), "a single call of ast.NewHSMSDataMessage in parseMessage or one of its helpers was not found")
		} else {
			for _, b := range callBlk.Parent().Blocks {
				iff, ok := b.Instrs[len(b.Instrs)-1].(*ssa.If)
				if !ok || !b.Dominates(callBlk) {
					continue
				}
				bo, ok := iff.Cond.(*ssa.BinOp)
				if !ok || (bo.Op != token.EQL && bo.Op != token.NEQ) {
					continue
				}
				l, d := dependsOn(bo.X), dependsOn(bo.Y)
				if !((l.pos && (d.lenInput || d.declared)) || (d.pos && (l.lenInput || l.declared))) {
					continue
				}
				eqSide := 0
				if bo.Op == token.NEQ {
					eqSide = 1
				}
				if !reaches(b.Succs[1-eqSide], callBlk, b) {
					found = true
				}
			}
			if found {
				r.ok(rule, key, p.Pos(callPos), "the data message is built only on the 'position == end of input' side of a comparison")
			} else {
				r.bad(rule, key, p.Pos(callPos), "ast.NewHSMSDataMessage is reachable without the decoder having compared its position with the end of the input: bytes after the item would be ignored")
			}
		}
	}
}

type deps struct{ pos, lenInput, declared bool }

// dependsOn classifies what a value is computed from (within its function).
func dependsOn(v ssa.Value) deps {
	var d deps
	seen := map[ssa.Value]bool{}
	var walk func(v ssa.Value, depth int)
	walk = func(v ssa.Value, depth int) {
		if v == nil || seen[v] || depth > 12 {
			return
		}
		seen[v] = true
		switch x := v.(type) {
		case *ssa.UnOp:
			if f := fieldOf(x.X); f != nil {
				switch f.Name() {
				case "pos":
					d.pos = true
				case "msgLength":
					d.declared = true
				}
			}
			walk(x.X, depth+1)
		case *ssa.Call:
			if bi, ok := x.Call.Value.(*ssa.Builtin); ok && bi.Name() == "len" {
				if inputDerived(x.Call.Args[0], 0) {
					d.lenInput = true
				}
				return
			}
			if sc := x.Common().StaticCallee(); sc != nil && sc.Pkg != nil && sc.Pkg.Pkg.Path() == "encoding/binary" {
				d.declared = true
			}
		case *ssa.BinOp:
			walk(x.X, depth+1)
			walk(x.Y, depth+1)
		case *ssa.Convert:
			walk(x.X, depth+1)
		case *ssa.Phi:
			for _, e := range x.Edges {
				walk(e, depth+1)
			}
		}
	}
	walk(v, 0)
	return d
}

func inputDerived(v ssa.Value, depth int) bool {
	if depth > 6 {
		return false
	}
	switch x := v.(type) {
	case *ssa.UnOp:
		if f := fieldOf(x.X); f != nil && f.Name() == "input" {
			return true
		}
	case *ssa.Slice:
		return inputDerived(x.X, depth+1)
	case *ssa.Parameter:
		return isByteSlice(x.Type())
	}
	return false
}

// R17 sibling guards — every numeric handler rejects a payload length that is
// not a multiple of the element width.
func ruleDivisibility(p *Prog, r *Report) {
	const rule = "R17-divisible"
	for _, h := range []struct {
		fn     string
		widths []int64
	}{{"parseInt", []int64{1, 2, 4, 8}}, {"parseUint", []int64{1, 2, 4, 8}}, {"parseFloat", []int64{4, 8}}} {
		if pf := p.Func("hsms", "(*parser)."+h.fn); pf == nil || paramIndex(pf, "byteSize") < 0 || paramIndex(pf, "length") < 0 {
			// the per-type decoder has another name or signature: decide from the
			// item decoder, evaluated on items with every payload length 0..4k+1
			node := map[string]string{"parseInt": "IntNode", "parseUint": "UintNode", "parseFloat": "FloatNode"}[h.fn]
			for _, k := range h.widths {
				key := fmt.Sprintf("%s:hsms.%s:width=%d", rule, h.fn, k)
				code := -1
				for _, f := range e5Formats {
					if f.Node == node && int64(f.ByteSz) == k {
						code = f.Code
					}
				}
				var bad, undec []string
				for L := int64(0); L <= 4*k+1; L++ {
					res, ok := decodeItemBytes(p, code, L, true)
					if !ok || code < 0 || len(res.success) == 0 {
						undec = append(undec, fmt.Sprintf("length %d: not evaluable", L))
						continue
					}
					canSucceed := false
					for _, sv := range res.success {
						if !(sv.K == KBool && !sv.B) {
							canSucceed = true
						}
					}
					if canSucceed != (L%k == 0) {
						bad = append(bad, fmt.Sprintf("a payload of %d bytes is %s (width %d)", L, map[bool]string{true: "accepted", false: "refused"}[canSucceed], k))
					}
				}
				pos := ""
				if tf := p.Func("hsms", "(*parser).parseMessageText"); tf != nil {
					pos = p.Pos(tf.Pos())
				}
				switch {
				case len(bad) > 0:
					r.bad(rule, key, pos, strings.Join(firstN(bad, 4), "; "))
				case len(undec) > 0:
					r.unk(rule, key, pos, strings.Join(firstN(undec, 3), "; "))
				default:
					r.ok(rule, key, pos, fmt.Sprintf("evaluated from the item decoder for every payload length 0..%d: exactly the multiples of %d are accepted", 4*k+1, k))
				}
			}
			continue
		}
		fn := p.MustFunc(r, "hsms", "(*parser)."+h.fn)
		if fn == nil {
			continue
		}
		bi, li := paramIndex(fn, "byteSize"), paramIndex(fn, "length")
		if bi < 0 || li < 0 {
			r.unk(rule, rule+":hsms."+h.fn, p.Pos(fn.Pos()), "parameters byteSize/length not found")
			continue
		}
		for _, k := range h.widths {
			k := k
			var extra []Val
			for i := int64(0); i <= 4*k+1; i++ {
				extra = append(extra, int64Val(i))
			}
			CheckDomain(p, r, DomainSpec{Rule: rule, Key: fmt.Sprintf("%s:hsms.%s:width=%d", rule, h.fn, k), Fn: fn,
				Args:   map[int]Val{bi: int64Val(k)},
				Env:    map[string]Val{"p0.input": {K: KSlice, S: "p0.input", Len: -1}},
				Subjs:  []Subj{{Name: "length", Kind: SParam, Param: li, Type: typInt, NoReps: true, Extra: extra}},
				What:   fmt.Sprintf("length is a multiple of %d", k),
				Accept: func(v []Val) bool { return v[0].I.Int64()%k == 0 },
				Survive: func(out Outcome, in *Interp) bool {
					for _, rv := range out.Frame.ReturnVals() {
						if len(rv) == 2 && !(rv[1].K == KBool && !rv[1].B) {
							return true
						}
					}
					return false
				}})
		}
	}
	r.Floor(rule, 10)
}

type bigIntT = big.Int

func newBig(i int64) *big.Int { return big.NewInt(i) }

// messageBuilders lists parseMessage and the functions of its package it
// (transitively, two levels) calls that build an HSMS message themselves: the
// decoder's header handling may be split over such helpers.
func messageBuilders(p *Prog, fn *ssa.Function) map[*ssa.Function]bool {
	out := map[*ssa.Function]bool{fn: true}
	buildsMsg := func(g *ssa.Function) bool {
		for _, b := range g.Blocks {
			for _, instr := range b.Instrs {
				if c, ok := instr.(*ssa.Call); ok {
					if sc := c.Common().StaticCallee(); sc != nil && sc.Pkg != nil && sc.Pkg.Pkg.Name() == "ast" && strings.HasPrefix(sc.Name(), "NewHSMS") {
						return true
					}
				}
			}
		}
		return false
	}
	var walk func(g *ssa.Function, depth int)
	walk = func(g *ssa.Function, depth int) {
		if depth > 2 {
			return
		}
		for _, b := range g.Blocks {
			for _, instr := range b.Instrs {
				c, ok := instr.(*ssa.Call)
				if !ok {
					continue
				}
				sc := c.Common().StaticCallee()
				if sc == nil || sc.Pkg != fn.Pkg || out[sc] {
					continue
				}
				if buildsMsg(sc) {
					out[sc] = true
				}
				walk(sc, depth+1)
			}
		}
	}
	walk(fn, 0)
	return out
}

func callsFactoryDirectly(fn *ssa.Function) bool {
	for _, b := range fn.Blocks {
		for _, instr := range b.Instrs {
			if c, ok := instr.(*ssa.Call); ok {
				if sc := c.Common().StaticCallee(); sc != nil && isFactory(sc) {
					return true
				}
			}
		}
	}
	return false
}

// decodeItemRun evaluates (*parser).parseMessageText on an input whose item
// header at offset 16 is the given format code with one length byte and a
// payload of n elements of width k; the payload bytes stay symbolic. It
// returns the factory reached, its arguments and the elements of the value
// slice handed to it.
func decodeItemRun(p *Prog, code int, k, n int64) (fac string, args []Val, elems []Val, ok bool) {
	res, ok := decodeItemBytes(p, code, n*k, false)
	return res.fac, res.args, res.elems, ok && res.fac != ""
}

type decodeResult struct {
	fac     string
	args    []Val
	elems   []Val
	endPos  Val   // p.pos when parseMessageText returns
	success []Val // the ok result of every reachable return
}

// decodeItemBytes is decodeItemRun for a payload of L bytes (L need not be a
// multiple of the element width).
func decodeItemBytes(p *Prog, code int, L int64, concrete bool) (res decodeResult, ok bool) {
	fn := p.Func("hsms", "(*parser).parseMessageText")
	if fn == nil {
		return res, false
	}
	const at = 16
	in := decoderInterp(p)
	in.Symbolic = true
	in.InitBind["p0.pos"] = int64Val(at)
	in.PathBind["p0.msgLength"] = int64Val(at - 4 + 2 + L)
	in.PathBind["len(p0.input)"] = int64Val(at + 2 + L)
	in.PathBind[fmt.Sprintf("p0.input[%d]", at)] = int64Val(int64(code)<<2 | 1)
	in.PathBind[fmt.Sprintf("p0.input[%d]", at+1)] = int64Val(L)
	for i := int64(0); concrete && i < L; i++ {
		// payload values that every format accepts (where only the position matters)
		in.PathBind[fmt.Sprintf("p0.input[%d]", at+2+i)] = int64Val(i % 2)
	}
	in.OnCall = func(call *ssa.Call, callee *ssa.Function, a []Val, fr *frame) {
		if isFactory(callee) && callee.Name() != "NewEmptyItemNode" {
			res.fac = callee.Name()
			res.args = append([]Val{}, a...)
			res.elems = nil
			if len(a) > 0 && a[len(a)-1].K == KSlice && a[len(a)-1].Len >= 0 {
				for i := 0; i < a[len(a)-1].Len; i++ {
					res.elems = append(res.elems, in.Elem(a[len(a)-1], i, types.NewInterfaceType(nil, nil)))
				}
			}
		}
	}
	out := in.Run(fn, defaultArgs(fn), nil)
	if len(in.Stuck) > 0 {
		return res, false
	}
	for _, rv := range out.Frame.ReturnVals() {
		if len(rv) == 2 {
			res.success = append(res.success, rv[1])
		}
	}
	res.endPos = in.Load("p0.pos", types.Typ[types.Int])
	return res, true
}

// widthFromItemDecoder decides one width obligation from decodeItemRun.
func widthFromItemDecoder(p *Prog, r *Report, rule, key, family string, k int64, typ, term string) {
	pos := ""
	if fn := p.Func("hsms", "(*parser).parseMessageText"); fn != nil {
		pos = p.Pos(fn.Pos())
	}
	node := map[string]string{"parseInt": "IntNode", "parseUint": "UintNode", "parseFloat": "FloatNode"}[family]
	code := -1
	for _, f := range e5Formats {
		if f.Node == node && int64(f.ByteSz) == k {
			code = f.Code
		}
	}
	const n = 3
	fac, args, elems, ok := decodeItemRun(p, code, k, n)
	if code < 0 || !ok {
		r.unk(rule, key, pos, "neither (*parser)."+family+" with a direct factory call nor an evaluable item decoder found")
		return
	}
	re := regexp.MustCompile(term)
	var probs []string
	if fac != "New"+node {
		probs = append(probs, fmt.Sprintf("format code %#o builds %s, expected New%s", code, fac, node))
	}
	if !(len(args) > 0 && args[0].K == KInt && args[0].I.Int64() == k) {
		probs = append(probs, fmt.Sprintf("the factory is called with byteSize %s for the %d-byte format", args[0], k))
	}
	if len(elems) != n {
		probs = append(probs, fmt.Sprintf("a payload of %d elements yields %d values", n, len(elems)))
	}
	for i, e := range elems {
		if e.K != KIface || e.Inner == nil {
			probs = append(probs, "an element of unknown type/value is stored ("+e.String()+")")
			continue
		}
		tn := types.TypeString(e.T, nil)
		if tn == "byte" {
			tn = "uint8"
		}
		t, _ := termOf(*e.Inner)
		t = normaliseBE(strings.ReplaceAll(t, "byte(", "uint8("))
		for _, w := range widenings[family] {
			if tn == w && typeWidth(w) > k && strings.HasPrefix(t, w+"(") && strings.HasSuffix(t, ")") && re.MatchString(t[len(w)+1:len(t)-1]) {
				tn, t = typ, t[len(w)+1:len(t)-1]
			}
		}
		switch {
		case tn != typ:
			probs = append(probs, fmt.Sprintf("dynamic type %s handed to the factory for the %d-byte format (expected %s, or one widening of it)", tn, k, typ))
		case !re.MatchString(t):
			probs = append(probs, fmt.Sprintf("value %q is not the %d-byte big-endian read reinterpreted as %s without further arithmetic", t, k, typ))
		case !strings.Contains(t, fmt.Sprintf("p0.input[%d", 18+int64(i)*k)):
			probs = append(probs, fmt.Sprintf("element %d is %q: not read from its own offset %d of the payload", i, t, int64(i)*k))
		}
	}
	if len(probs) > 0 {
		r.bad(rule, key, pos, strings.Join(uniq(probs), "; "))
	} else {
		t, _ := termOf(*elems[0].Inner)
		r.ok(rule, key, pos, fmt.Sprintf("evaluated on an item of %d elements with symbolic payload: element i is the %s value read at its own offset, e.g. %s", n, typ, t))
	}
}

// framingByEvaluation: parseMessageLength, the first method Parse calls on the
// parser it has just made (position 0), evaluated on inputs of 0 to 20 and
// 300 bytes whose first four bytes declare a length at and around the bytes
// that follow: it must succeed exactly when the input has at least 14 bytes
// and the declared length equals the number of bytes after the length field.
// Reports false when an evaluation does not decide.
func framingByEvaluation(p *Prog, r *Report, rule string, fn *ssa.Function) bool {
	var badLen, badEq []string
	n := 0
	lens := []int64{0, 1, 3, 4, 5, 10, 13, 14, 15, 16, 20, 300}
	for _, total := range lens {
		for _, declared := range []int64{total - 4, total - 5, total - 3, 0, 10, total, 1 << 24, (total - 4) + 1<<16} {
			if declared < 0 || declared > 0xFFFFFFFF {
				continue
			}
			in := NewInterp(p)
			in.PathBind["p0.input"] = Val{K: KSlice, S: "p0.input", Len: int(total)}
			in.PathBind["len(p0.input)"] = int64Val(total)
			in.InitBind["p0.pos"] = int64Val(0)
			for i := int64(0); i < 4 && i < total; i++ {
				in.PathBind[fmt.Sprintf("p0.input[%d]", i)] = int64Val((declared >> (8 * uint(3-i))) & 0xFF)
			}
			out := in.Run(fn, defaultArgs(fn), nil)
			if out.Frame == nil || len(in.Stuck) > 0 {
				return false
			}
			rets := out.Frame.ReturnVals()
			acc, rej := false, len(rets) == 0
			for _, rv := range rets {
				k := len(rv) - 1 // the ok flag is the last result
				if k < 0 || rv[k].K != KBool {
					return false
				}
				if rv[k].B {
					acc = true
				} else {
					rej = true
				}
			}
			if acc && rej {
				return false
			}
			n++
			want := total >= 14 && declared == total-4
			if acc != want {
				msg := fmt.Sprintf("an input of %d bytes declaring a length of %d is %s", total, declared, map[bool]string{true: "accepted", false: "refused"}[acc])
				if total < 14 {
					badLen = append(badLen, msg)
				} else {
					badEq = append(badEq, msg)
				}
			}
		}
	}
	pos := p.Pos(fn.Pos())
	if len(badLen) > 0 {
		r.bad(rule, rule+":hsms.parseMessageLength:len(input)", pos, strings.Join(firstN(badLen, 3), "; ")+" (a message has at least 14 bytes)")
	} else {
		r.ok(rule, rule+":hsms.parseMessageLength:len(input)", pos, fmt.Sprintf("evaluated on %d inputs of 0 to 300 bytes: every input shorter than 14 bytes is refused", n))
	}
	if len(badEq) > 0 {
		r.bad(rule, rule+":hsms.parseMessageLength:declared==present", pos, strings.Join(firstN(badEq, 3), "; ")+" (success is 'bytes after the length field == declared length')")
	} else {
		r.ok(rule, rule+":hsms.parseMessageLength:declared==present", pos, fmt.Sprintf("evaluated on %d inputs whose declared length is the bytes present, one less, one more, 0, 10, the total, 2^24 and 2^16 too many: success is exactly 'bytes after the length field == declared length'", n))
	}
	return true
}

// consumedAllByEvaluation: parseMessage evaluated on concrete data messages
// whose text is one item, and on the same messages with further bytes behind
// the item (inside the declared length): the first must be accepted and
// built, the others refused.
func consumedAllByEvaluation(p *Prog, r *Report, rule string, fn *ssa.Function) bool {
	key := rule + ":hsms.parseMessage:consumed-all"
	header := []int64{0, 1, 0x81, 3, 0, 0, 9, 8, 7, 6}
	items := [][]int64{{0xA5, 1, 7}, {0x01, 0}, {0x41, 2, 0x61, 0x62}}
	tails := [][]int64{nil, {0}, {0xA5, 1, 8}, {0x01, 0}, {0xFF}}
	var bad []string
	n := 0
	for _, item := range items {
		for _, tail := range tails {
			text := append(append([]int64{}, item...), tail...)
			total := 4 + 10 + len(text)
			in := NewInterp(p)
			in.Recursion = 1
			in.PathBind["p0.input"] = Val{K: KSlice, S: "p0.input", Len: total}
			in.PathBind["len(p0.input)"] = int64Val(int64(total))
			in.PathBind["p0.msgLength"] = int64Val(int64(total - 4))
			in.InitBind["p0.pos"] = int64Val(4)
			for i, b := range append(append([]int64{}, header...), text...) {
				in.PathBind[fmt.Sprintf("p0.input[%d]", 4+i)] = int64Val(b)
			}
			built := false
			in.OnCall = func(call *ssa.Call, callee *ssa.Function, a []Val, fr *frame) {
				if callee.Name() == "NewHSMSDataMessage" {
					built = true
				}
			}
			out := in.Run(fn, defaultArgs(fn), nil)
			if out.Frame == nil || len(in.Stuck) > 0 {
				return false
			}
			rets := out.Frame.ReturnVals()
			acc, rej := false, len(rets) == 0
			for _, rv := range rets {
				k := len(rv) - 1 // the ok flag is the last result
				if k < 0 || rv[k].K != KBool {
					return false
				}
				if rv[k].B {
					acc = true
				} else {
					rej = true
				}
			}
			if acc && rej {
				return false
			}
			n++
			what := fmt.Sprintf("a data message whose text is the item %s followed by [%s]", hexOf(item), hexOf(tail))
			switch {
			case len(tail) == 0 && !(acc && built):
				bad = append(bad, fmt.Sprintf("a data message whose text is exactly the item %s is refused", hexOf(item)))
			case len(tail) > 0 && acc:
				bad = append(bad, what+" is accepted: bytes after the item are ignored")
			}
		}
	}
	if len(bad) > 0 {
		r.bad(rule, key, p.Pos(fn.Pos()), strings.Join(firstN(bad, 3), "; "))
	} else {
		r.ok(rule, key, p.Pos(fn.Pos()), fmt.Sprintf("evaluated on %d concrete data messages: the text of exactly one item is accepted and built; the same text followed by one byte, by another item or by an empty list is refused", n))
	}
	return true
}

// framingThroughParse: the framing obligations decided on hsms.Parse itself,
// for a decoder whose length check is not a function of its own. Parse is
// evaluated on whole messages of 0 to 100 bytes — a linktest request for 14
// bytes, a data message whose text is one binary item filling the rest beyond
// that (15 bytes cannot be a message and are left out) — each with the declared lengths of
// framingByEvaluation: accepted exactly when the bytes are a message and the
// declared length is the bytes present.
func framingThroughParse(p *Prog, r *Report, rule string) bool {
	fn := p.Func("hsms", "Parse")
	if fn == nil || len(fn.Params) != 1 {
		return false
	}
	var badLen, badEq []string
	n := 0
	for _, total := range []int64{0, 1, 3, 4, 5, 10, 13, 14, 16, 17, 20, 100} {
		var body []int64
		switch {
		case total <= 14:
			body = []int64{0xFF, 0xFF, 0, 0, 0, 5, 1, 2, 3, 4}
		default:
			body = []int64{0, 1, 0x81, 1, 0, 0, 9, 8, 7, 6}
			rest := total - 14
			switch {
			case rest-2 <= 255:
				body = append(body, 0x21, rest-2)
			default:
				body = append(body, 0x22, (rest-3)>>8, (rest-3)&0xFF)
			}
			for int64(len(body)) < total-4 {
				body = append(body, 0)
			}
		}
		for _, declared := range []int64{total - 4, total - 5, total - 3, 0, 10, total, 1 << 24, (total - 4) + 1<<16} {
			if declared < 0 || declared > 0xFFFFFFFF {
				continue
			}
			in := NewInterp(p)
			in.Recursion = 1
			in.PathBind["p0"] = Val{K: KSlice, S: "p0", Len: int(total)}
			in.PathBind["len(p0)"] = int64Val(total)
			for i := int64(0); i < total; i++ {
				b := int64(0)
				if i < 4 {
					b = (declared >> (8 * uint(3-i))) & 0xFF
				} else if int(i-4) < len(body) {
					b = body[i-4]
				}
				in.PathBind[fmt.Sprintf("p0[%d]", i)] = int64Val(b)
			}
			out := in.Run(fn, defaultArgs(fn), nil)
			if out.Frame == nil || len(in.Stuck) > 0 {
				if os.Getenv("SC_TRACE_FRAME") != "" {
					fmt.Fprintf(os.Stderr, "framingThroughParse total=%d declared=%d: stuck %v\n", total, declared, in.Stuck)
				}
				return false
			}
			rets := out.Frame.ReturnVals()
			acc, rej := false, len(rets) == 0 || out.CanPanic
			for _, rv := range rets {
				k := len(rv) - 1
				if k < 0 || rv[k].K != KBool {
					if os.Getenv("SC_TRACE_FRAME") != "" {
						fmt.Fprintf(os.Stderr, "framingThroughParse total=%d declared=%d: returns %v\n", total, declared, rets)
					}
					return false
				}
				if rv[k].B {
					acc = true
				} else {
					rej = true
				}
			}
			if acc && rej {
				if os.Getenv("SC_TRACE_FRAME") != "" {
					fmt.Fprintf(os.Stderr, "framingThroughParse total=%d declared=%d: both %v panic=%v\n", total, declared, rets, out.CanPanic)
				}
				return false
			}
			n++
			want := total >= 14 && declared == total-4
			if acc != want {
				msg := fmt.Sprintf("a message of %d bytes declaring a length of %d is %s", total, declared, map[bool]string{true: "accepted", false: "refused"}[acc])
				if total < 14 {
					badLen = append(badLen, msg)
				} else {
					badEq = append(badEq, msg)
				}
			}
		}
	}
	pos := p.Pos(fn.Pos())
	if len(badLen) > 0 {
		r.bad(rule, rule+":hsms.parseMessageLength:len(input)", pos, strings.Join(firstN(badLen, 3), "; ")+" (a message has at least 14 bytes)")
	} else {
		r.ok(rule, rule+":hsms.parseMessageLength:len(input)", pos, fmt.Sprintf("Parse evaluated on %d whole messages of 0 to 100 bytes: every input shorter than 14 bytes is refused", n))
	}
	if len(badEq) > 0 {
		r.bad(rule, rule+":hsms.parseMessageLength:declared==present", pos, strings.Join(firstN(badEq, 3), "; ")+" (success is 'bytes after the length field == declared length')")
	} else {
		r.ok(rule, rule+":hsms.parseMessageLength:declared==present", pos, fmt.Sprintf("Parse evaluated on %d whole messages (a linktest request, data messages of one binary item) whose declared length is the bytes present, one less, one more, 0, 10, the total, 2^24 and 2^16 too many: accepted exactly when the declared length is the bytes present", n))
	}
	return true
}
