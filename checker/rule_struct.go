package main

import (
	"fmt"
	"go/token"
	"go/types"
	"sort"
	"strings"

	"golang.org/x/tools/go/ssa"
)

// ---------------------------------------------------------------------------
// R13 ckrep — nothing leaves a factory or producer unvalidated.
//
// For every allocation of a struct type that has a checkRep method, every CFG
// path from the allocation to a return passes through a call of checkRep on
// that allocation (directly, or through a module function that does so on the
// corresponding parameter on all of its paths).

func checkRepMethod(p *Prog, t types.Type) *ssa.Function {
	ptr := types.NewPointer(t)
	ms := p.SSA.MethodSets.MethodSet(ptr)
	for i := 0; i < ms.Len(); i++ {
		if ms.At(i).Obj().Name() == "checkRep" {
			return p.SSA.MethodValue(ms.At(i))
		}
	}
	return nil
}

// callValidates reports whether call validates v: it is checkRep with v as
// receiver, or a module function that validates the parameter v is passed as.
func callValidates(p *Prog, call *ssa.Call, v ssa.Value, ck *ssa.Function, depth int) bool {
	callee := call.Common().StaticCallee()
	if callee == nil {
		return false
	}
	args := call.Common().Args
	if callee == ck {
		return len(args) > 0 && args[0] == v
	}
	if depth > 2 || !InModule(callee) || callee.Blocks == nil {
		return false
	}
	for i, a := range args {
		if a == v && i < len(callee.Params) {
			if validatedOnAllPaths(p, callee, callee.Params[i], callee.Blocks[0], 0, ck, depth+1) == nil {
				return true
			}
		}
	}
	return false
}

// validatedOnAllPaths returns nil if every path from (blk, idx) to a Return
// validates v; otherwise the offending Return.
func validatedOnAllPaths(p *Prog, fn *ssa.Function, v ssa.Value, blk *ssa.BasicBlock, idx int, ck *ssa.Function, depth int) *ssa.Return {
	seen := map[*ssa.BasicBlock]bool{}
	var walk func(b *ssa.BasicBlock, from int) *ssa.Return
	walk = func(b *ssa.BasicBlock, from int) *ssa.Return {
		for i := from; i < len(b.Instrs); i++ {
			switch x := b.Instrs[i].(type) {
			case *ssa.Call:
				if callValidates(p, x, v, ck, depth) {
					return nil
				}
			case *ssa.Return:
				return x
			case *ssa.Panic:
				return nil
			}
		}
		for _, s := range b.Succs {
			if !seen[s] {
				seen[s] = true
				if r := walk(s, 0); r != nil {
					return r
				}
			}
		}
		return nil
	}
	return walk(blk, idx)
}

func ruleCkRep(pkgs ...string) func(p *Prog, r *Report) {
	return func(p *Prog, r *Report) {
		const rule = "R13-ckrep"
		n := 0
		for _, fn := range p.Funcs {
			for _, b := range fn.Blocks {
				for i, instr := range b.Instrs {
					al, ok := instr.(*ssa.Alloc)
					if !ok {
						continue
					}
					et := al.Type().Underlying().(*types.Pointer).Elem()
					named, ok := et.(*types.Named)
					if !ok || named.Obj().Pkg() == nil || !strings.HasPrefix(named.Obj().Pkg().Path(), modPath) {
						continue
					}
					if _, isStruct := named.Underlying().(*types.Struct); !isStruct {
						continue
					}
					ck := checkRepMethod(p, named)
					if ck == nil {
						continue
					}
					if spillOfParameter(al) {
						continue // the local copy of a value receiver or parameter: no new object
					}
					n++
					key := fmt.Sprintf("%s:%s:alloc(%s)", rule, FnName(fn), named.Obj().Name())
					ret := validatedOnAllPaths(p, fn, al, b, i+1, ck, 0)
					if ret != nil && len(ret.Results) == 1 && ret.Results[0] == al && !exported(fn) && returnsFresh(fn, 0) {
						// a private helper that hands the new object to its callers:
						// the obligation moves to every one of them
						callers, bad := 0, ""
						for _, cf := range p.Funcs {
							for _, cb := range cf.Blocks {
								for ci, cinstr := range cb.Instrs {
									cc, ok := cinstr.(*ssa.Call)
									if !ok || cc.Common().StaticCallee() != fn {
										continue
									}
									callers++
									n++
									ckey := fmt.Sprintf("%s:%s:alloc(%s)", rule, FnName(cf), named.Obj().Name())
									if cret := validatedOnAllPaths(p, cf, cc, cb, ci+1, ck, 0); cret != nil {
										if bad == "" {
											bad = fmt.Sprintf("%s (call at %s, return at %s)", FnName(cf), p.Pos(cc.Pos()), p.Pos(cret.Pos()))
										}
										r.bad(rule, ckey, p.Pos(cc.Pos()), fmt.Sprintf("a %s obtained from the helper %s reaches the return at %s without %s being called on it: the object leaves unvalidated",
											named.Obj().Name(), FnName(fn), p.Pos(cret.Pos()), FnName(ck)))
									} else {
										r.ok(rule, ckey, p.Pos(cc.Pos()), fmt.Sprintf("every path from the call of the allocating helper %s to a return calls %s on the new object", FnName(fn), FnName(ck)))
									}
								}
							}
						}
						addrTaken := false
						if refs := fn.Referrers(); refs != nil {
							for _, ref := range *refs {
								if c, ok := ref.(*ssa.Call); !ok || c.Common().Value != fn {
									addrTaken = true
								}
							}
						}
						switch {
						case addrTaken:
							r.bad(rule, key, p.Pos(al.Pos()), fmt.Sprintf("a %s allocated in %s is returned without %s being called on it, and %s is used as a function value: its callers cannot all be checked", named.Obj().Name(), FnName(fn), FnName(ck), FnName(fn)))
						case bad != "":
							r.bad(rule, key, p.Pos(al.Pos()), fmt.Sprintf("a %s allocated in the helper %s is returned unvalidated, and its caller %s lets it reach a return without calling %s on it", named.Obj().Name(), FnName(fn), bad, FnName(ck)))
						default:
							r.ok(rule, key, p.Pos(al.Pos()), fmt.Sprintf("the private helper returns the new object unvalidated; each of its %d call sites calls %s on the result on every path to a return", callers, FnName(ck)))
						}
						continue
					}
					if ret != nil {
						r.bad(rule, key, p.Pos(al.Pos()), fmt.Sprintf("a %s allocated in %s reaches the return at %s without %s being called on it: the object leaves unvalidated",
							named.Obj().Name(), FnName(fn), p.Pos(ret.Pos()), FnName(ck)))
					} else {
						r.ok(rule, key, p.Pos(al.Pos()), fmt.Sprintf("every path from the allocation to a return calls %s on it", FnName(ck)))
					}
				}
			}
		}
		r.Floor(rule, 13)
	}
}

// ---------------------------------------------------------------------------
// R9 err-discipline — no conversion error is dropped.

type errException struct {
	fn, callee string
	reason     string
}

// The accepted exceptions, confirmed by reading the code: in these two
// functions strconv.Atoi is applied to a substring of a token the lexer only
// emits for \d+ (or to the documented empty lower bound of "[..n]"), so the
// only possible failure is a range overflow, on which Atoi returns the clamped
// extreme that the callers' range checks reject (R14-sml stream/function; the
// size check for sizes). Keyed by function and callee, not by position.
var errExceptions = []errException{
	{"(*sml.parser).parseStreamFunctionCode", "strconv.Atoi", "digits of the stream/function code; overflow clamps to MaxInt, which the [0,128) / [0,256) checks reject (R14-sml)"},
	{"(*sml.parser).parseDataItemSize", "strconv.Atoi", "digits of a size bound, or the documented empty lower bound of [..n] (0); overflow clamps to MaxInt, no item has that size, so the size check reports it"},
}

// errExceptionFor: the exception recorded for fn itself, or - fn being a
// helper called from nowhere but functions with that exception - for all of
// its callers (two levels at most).
func errExceptionFor(p *Prog, fn *ssa.Function, cname string, depth int) string {
	for _, e := range errExceptions {
		if e.fn == FnName(fn) && e.callee == cname {
			return e.reason
		}
	}
	if depth >= 2 || exported(fn) {
		return ""
	}
	node := p.CG.Nodes[fn]
	if node == nil || len(node.In) == 0 {
		return ""
	}
	reason := ""
	for _, e := range node.In {
		if e.Caller.Func == fn {
			continue
		}
		rsn := errExceptionFor(p, e.Caller.Func, cname, depth+1)
		if rsn == "" {
			return ""
		}
		reason = rsn
	}
	if reason == "" {
		return ""
	}
	return reason + " (in a helper called only from there)"
}

func usedValue(v ssa.Value) bool {
	refs := v.Referrers()
	if refs == nil {
		return false
	}
	for _, r := range *refs {
		if _, ok := r.(*ssa.DebugRef); ok {
			continue
		}
		return true
	}
	return false
}

func ruleErrDiscipline(p *Prog, r *Report) {
	const rule = "R9-err"
	n := 0
	for _, fn := range p.Funcs {
		ord := map[string]int{}
		for _, b := range fn.Blocks {
			for _, instr := range b.Instrs {
				call, ok := instr.(*ssa.Call)
				if !ok {
					continue
				}
				callee := call.Common().StaticCallee()
				if callee == nil || callee.Pkg == nil || callee.Pkg.Pkg.Path() != "strconv" {
					continue
				}
				res := callee.Signature.Results()
				errIdx := -1
				for i := 0; i < res.Len(); i++ {
					if types.Identical(res.At(i).Type(), types.Universe.Lookup("error").Type()) {
						errIdx = i
					}
				}
				if errIdx < 0 {
					continue
				}
				cname := "strconv." + callee.Name()
				k := ord[cname]
				ord[cname]++
				n++
				key := fmt.Sprintf("%s:%s:%s#%d", rule, FnName(fn), cname, k)
				used := false
				if refs := call.Referrers(); refs != nil {
					for _, ref := range *refs {
						if ex, ok := ref.(*ssa.Extract); ok && ex.Index == errIdx && usedValue(ex) {
							used = true
						}
					}
				}
				if used {
					r.ok(rule, key, p.Pos(call.Pos()), "the error result is inspected")
					continue
				}
				exc := errExceptionFor(p, fn, cname, 0)
				if exc != "" {
					r.ok(rule, key, p.Pos(call.Pos()), "error discarded — accepted exception: "+exc)
				} else {
					r.bad(rule, key, p.Pos(call.Pos()), fmt.Sprintf("%s discards the error of %s: a malformed or out-of-range literal is silently replaced by the zero or clamped value", FnName(fn), cname))
				}
			}
		}
	}
	r.Floor(rule, 9)
}

// ---------------------------------------------------------------------------
// R4 shift-trunc — no shift that discards bits before widening.

type finding struct {
	fn   *ssa.Function
	pos  token.Pos
	what string
	key  string
}

func findShiftTrunc(funcs []*ssa.Function) []finding {
	sizes := types.SizesFor("gc", "amd64")
	var out []finding
	for _, fn := range funcs {
		k := 0
		for _, b := range fn.Blocks {
			for _, instr := range b.Instrs {
				bo, ok := instr.(*ssa.BinOp)
				if !ok || bo.Op != token.SHL {
					continue
				}
				bits, _, ok := intRange(bo.Type(), sizes)
				if !ok || bits >= 64 {
					continue
				}
				if c, ok := bo.Y.(*ssa.Const); ok {
					if v := constVal(c); v.K == KInt && v.I.Sign() == 0 {
						continue
					}
				}
				if _, isConst := bo.X.(*ssa.Const); isConst {
					continue
				}
				refs := bo.Referrers()
				if refs == nil {
					continue
				}
				nWide, nOther := 0, 0
				for _, ref := range *refs {
					switch x := ref.(type) {
					case *ssa.DebugRef:
					case *ssa.Convert:
						wb, _, ok := intRange(x.Type(), sizes)
						if ok && wb > bits {
							nWide++
						} else {
							nOther++
						}
					default:
						nOther++
					}
				}
				if nWide > 0 && nOther == 0 {
					out = append(out, finding{fn, bo.Pos(), fmt.Sprintf("%s << %s is computed in %d bits and only then widened: the bits shifted past bit %d are lost",
						bo.X.Name(), bo.Y.Name(), bits, bits-1), fmt.Sprintf("%s#%d", FnName(fn), k)})
					k++
				}
			}
		}
	}
	return out
}

func ruleShiftTrunc(p *Prog, r *Report) {
	const rule = "R4-shift"
	fs := findShiftTrunc(p.Funcs)
	for _, f := range fs {
		r.bad(rule, rule+":"+f.key, p.Pos(f.pos), f.what)
	}
	// the decoder's length accumulation must exist and be examined
	fn := p.MustFunc(r, "hsms", "(*parser).parseMessageText")
	if fn == nil {
		return
	}
	nsh := 0
	for _, b := range fn.Blocks {
		for _, instr := range b.Instrs {
			if bo, ok := instr.(*ssa.BinOp); ok && bo.Op == token.SHL {
				nsh++
				ok2 := true
				for _, f := range fs {
					if f.pos == bo.Pos() {
						ok2 = false
					}
				}
				if ok2 {
					bits, _, _ := intRange(bo.Type(), types.SizesFor("gc", "amd64"))
					r.ok(rule, fmt.Sprintf("%s:%s:shl", rule, FnName(fn)), p.Pos(bo.Pos()), fmt.Sprintf("shift is computed in %d bits (operand widened before shifting)", bits))
				}
			}
		}
	}
	if nsh == 0 {
		// a decoder without a shift may build the length another way
		// (multiplication, binary.BigEndian); nothing to check then
		r.ok(rule, rule+":"+FnName(fn)+":no-shift", p.Pos(fn.Pos()), "the length is not assembled by shifting")
	}
	fixtureMustFire(p, r, rule, "shifttrunc", findShiftTrunc)
}

// ---------------------------------------------------------------------------
// R8 recursion-bound — input-driven recursion is depth-limited.

func ruleRecursion(entryPkg string) func(p *Prog, r *Report) {
	return func(p *Prog, r *Report) {
		const rule = "R8-recursion"
		entry := p.MustFunc(r, entryPkg, "Parse")
		if entry == nil {
			return
		}
		// reachable module functions
		reach := map[*ssa.Function]bool{}
		var dfs func(f *ssa.Function)
		succ := func(f *ssa.Function) []*ssa.Function {
			var out []*ssa.Function
			n := p.CG.Nodes[f]
			if n == nil {
				return nil
			}
			seen := map[*ssa.Function]bool{}
			for _, e := range n.Out {
				c := e.Callee.Func
				if InModule(c) && c.Blocks != nil && !seen[c] {
					seen[c] = true
					out = append(out, c)
				}
			}
			sort.Slice(out, func(i, j int) bool { return out[i].String() < out[j].String() })
			return out
		}
		dfs = func(f *ssa.Function) {
			if reach[f] {
				return
			}
			reach[f] = true
			for _, c := range succ(f) {
				dfs(c)
			}
		}
		dfs(entry)
		// Tarjan SCC
		index, low := map[*ssa.Function]int{}, map[*ssa.Function]int{}
		on := map[*ssa.Function]bool{}
		var stack []*ssa.Function
		idx := 0
		var sccs [][]*ssa.Function
		var strong func(v *ssa.Function)
		strong = func(v *ssa.Function) {
			index[v], low[v] = idx, idx
			idx++
			stack = append(stack, v)
			on[v] = true
			for _, w := range succ(v) {
				if _, ok := index[w]; !ok {
					strong(w)
					if low[w] < low[v] {
						low[v] = low[w]
					}
				} else if on[w] && index[w] < low[v] {
					low[v] = index[w]
				}
			}
			if low[v] == index[v] {
				var comp []*ssa.Function
				for {
					w := stack[len(stack)-1]
					stack = stack[:len(stack)-1]
					on[w] = false
					comp = append(comp, w)
					if w == v {
						break
					}
				}
				self := false
				for _, w := range succ(v) {
					if w == v {
						self = true
					}
				}
				if len(comp) > 1 || self {
					sccs = append(sccs, comp)
				}
			}
		}
		var fl []*ssa.Function
		for f := range reach {
			fl = append(fl, f)
		}
		sort.Slice(fl, func(i, j int) bool { return fl[i].String() < fl[j].String() })
		for _, f := range fl {
			if _, ok := index[f]; !ok {
				strong(f)
			}
		}
		n := 0
		for _, comp := range sccs {
			inPkg := false
			var names []string
			for _, f := range comp {
				if f.Pkg.Pkg.Name() == entryPkg {
					inPkg = true
				}
				names = append(names, FnName(f))
			}
			if !inPkg {
				continue // recursion over an already built tree; its depth is that of the parser's descent
			}
			sort.Strings(names)
			n++
			// the cycle is named by where it is entered from outside (two cycles
			// cannot share an entry): helpers put on the cycle leave the name
			// alone, a different cycle gets a different one
			inComp := map[*ssa.Function]bool{}
			for _, f := range comp {
				inComp[f] = true
			}
			entries := map[*ssa.Function]bool{}
			for f := range reach {
				if inComp[f] {
					continue
				}
				for _, c := range succ(f) {
					if inComp[c] {
						entries[c] = true
					}
				}
			}
			var entryNames, backNames []string
			backs := map[string]bool{}
			for _, f := range comp {
				if entries[f] {
					entryNames = append(entryNames, FnName(f))
				}
				for _, c := range succ(f) {
					if entries[c] && !backs[FnName(f)] {
						backs[FnName(f)] = true
						backNames = append(backNames, FnName(f))
					}
				}
			}
			sort.Strings(entryNames)
			sort.Strings(backNames)
			_ = backNames
			key := rule + ":" + strings.Join(entryNames, "+")
			if len(entryNames) == 0 {
				key = rule + ":" + strings.Join(names, "+")
			}
			if g := depthGuard(comp); g != "" {
				r.ok(rule, key, p.Pos(comp[0].Pos()), "the cycle is depth-limited: "+g)
			} else {
				r.bad(rule, key, p.Pos(comp[0].Pos()), "recursive cycle {"+strings.Join(names, ", ")+"} reachable from "+FnName(entry)+
					" has no depth bound: nesting depth is chosen by the input, and a goroutine stack overflow is a fatal error no recover can catch")
			}
		}
		if n == 0 {
			r.ok(rule, rule+":"+entryPkg+":no-cycle", p.Pos(entry.Pos()), "no recursive cycle through package "+entryPkg+" is reachable from Parse")
		}
	}
}

// depthGuard recognises a depth counter: some function of the cycle compares
// an integer parameter or receiver field with a constant, and the recursive
// call passes that parameter plus a constant (or the field is incremented
// before the call). Returns a description, or "".
func depthGuard(comp []*ssa.Function) string {
	in := map[*ssa.Function]bool{}
	for _, f := range comp {
		in[f] = true
	}
	for _, f := range comp {
		for _, b := range f.Blocks {
			for _, instr := range b.Instrs {
				call, ok := instr.(*ssa.Call)
				if !ok {
					continue
				}
				callee := call.Common().StaticCallee()
				if callee == nil || !in[callee] {
					continue
				}
				for ai, a := range call.Common().Args {
					bo, ok := a.(*ssa.BinOp)
					if !ok || bo.Op != token.ADD {
						continue
					}
					prm, ok := bo.X.(*ssa.Parameter)
					if !ok {
						continue
					}
					if _, ok := bo.Y.(*ssa.Const); !ok {
						continue
					}
					// the parameter must be compared with a constant in a
					// conditional that dominates the call
					if refs := prm.Referrers(); refs != nil {
						for _, ref := range *refs {
							cmp, ok := ref.(*ssa.BinOp)
							if !ok {
								continue
							}
							switch cmp.Op {
							case token.GTR, token.GEQ, token.LSS, token.LEQ:
							default:
								continue
							}
							if crefs := cmp.Referrers(); crefs != nil {
								for _, cr := range *crefs {
									if iff, ok := cr.(*ssa.If); ok && iff.Block().Dominates(b) && iff.Block() != b {
										return fmt.Sprintf("%s compares its parameter %s with a bound before recursing with %s+const (argument %d)", FnName(f), prm.Name(), prm.Name(), ai)
									}
								}
							}
						}
					}
				}
			}
		}
	}
	return ""
}

// ---------------------------------------------------------------------------
// R7 panic-containment — refusals raised below a parser never escape it.

type containCtx struct {
	p        *Prog
	mayPanic map[*ssa.Function]bool
}

func computeMayPanic(p *Prog) map[*ssa.Function]bool {
	mp := map[*ssa.Function]bool{}
	for _, fn := range p.Funcs {
		for _, b := range fn.Blocks {
			for _, instr := range b.Instrs {
				switch x := instr.(type) {
				case *ssa.Panic:
					mp[fn] = true
				case *ssa.TypeAssert:
					if !x.CommaOk {
						mp[fn] = true
					}
				}
			}
		}
	}
	for changed := true; changed; {
		changed = false
		for _, fn := range p.Funcs {
			if mp[fn] {
				continue
			}
			for _, b := range fn.Blocks {
				for _, instr := range b.Instrs {
					ci, ok := instr.(ssa.CallInstruction)
					if !ok {
						continue
					}
					if _, isDefer := instr.(*ssa.Defer); isDefer {
						continue
					}
					for _, c := range p.Callees(ci) {
						if mp[c] && !mp[fn] {
							mp[fn] = true
							changed = true
						}
					}
				}
			}
		}
	}
	return mp
}

// recoveringDefers returns the Defer instructions of fn whose deferred
// function calls recover().
func recoveringDefers(fn *ssa.Function) []*ssa.Defer {
	var out []*ssa.Defer
	for _, b := range fn.Blocks {
		for _, instr := range b.Instrs {
			d, ok := instr.(*ssa.Defer)
			if !ok {
				continue
			}
			var target *ssa.Function
			switch v := d.Call.Value.(type) {
			case *ssa.MakeClosure:
				target, _ = v.Fn.(*ssa.Function)
			case *ssa.Function:
				target = v
			}
			if target != nil && callsRecover(target) {
				out = append(out, d)
			}
		}
	}
	return out
}

func callsRecover(fn *ssa.Function) bool {
	for _, b := range fn.Blocks {
		for _, instr := range b.Instrs {
			if c, ok := instr.(*ssa.Call); ok {
				if bi, ok := c.Call.Value.(*ssa.Builtin); ok && bi.Name() == "recover" {
					return true
				}
			}
		}
	}
	return false
}

func instrIndex(b *ssa.BasicBlock, in ssa.Instruction) int {
	for i, x := range b.Instrs {
		if x == in {
			return i
		}
	}
	return -1
}

func locallyProtected(fn *ssa.Function, site ssa.Instruction) bool {
	for _, d := range recoveringDefers(fn) {
		db, sb := d.Block(), site.Block()
		if db == sb {
			if instrIndex(db, d) < instrIndex(sb, site) {
				return true
			}
		} else if db.Dominates(sb) {
			return true
		}
	}
	return false
}

func ruleContain(entryPkg string) func(p *Prog, r *Report) {
	return func(p *Prog, r *Report) {
		const rule = "R7-contain"
		entry := p.MustFunc(r, entryPkg, "Parse")
		if entry == nil {
			return
		}
		mp := computeMayPanic(p)
		type state struct {
			fn   *ssa.Function
			prot bool
		}
		seen := map[state]bool{}
		reported := map[string]bool{}
		var visit func(fn *ssa.Function, prot bool, boundary string, path []string)
		report := func(key, pos, detail string, bad bool) {
			if reported[key] {
				return
			}
			reported[key] = true
			if bad {
				r.bad(rule, key, pos, detail)
			} else {
				r.ok(rule, key, pos, detail)
			}
		}
		visit = func(fn *ssa.Function, prot bool, boundary string, path []string) {
			st := state{fn, prot}
			if seen[st] {
				return
			}
			seen[st] = true
			inPkg := fn.Pkg.Pkg.Name() == entryPkg
			ord := map[string]int{}
			for _, b := range fn.Blocks {
				for _, instr := range b.Instrs {
					var what string
					var callees []*ssa.Function
					switch x := instr.(type) {
					case *ssa.Panic:
						what = "panic"
					case *ssa.TypeAssert:
						if !x.CommaOk {
							what = "assert(" + types.TypeString(x.AssertedType, func(*types.Package) string { return "" }) + ")"
						}
					case *ssa.Go:
						report(fmt.Sprintf("%s:%s:go-statement:%s", rule, FnName(entry), FnName(fn)), p.Pos(x.Pos()),
							"a goroutine is started below "+FnName(entry)+": a panic on it cannot be recovered by the parser", true)
						continue
					case *ssa.Defer:
						continue
					case *ssa.Call:
						for _, c := range p.Callees(x) {
							if mp[c] && InModule(c) {
								callees = append(callees, c)
							}
						}
						if len(callees) == 0 {
							continue
						}
					default:
						continue
					}
					sp := prot || locallyProtected(fn, instr)
					if what != "" {
						// a panic origin
						bkey := boundary
						if inPkg || bkey == "" {
							k := ord[what]
							ord[what]++
							bkey = fmt.Sprintf("%s:%s:%s#%d", FnName(entry), FnName(fn), what, k)
						}
						if inPkg {
							key := rule + ":" + bkey
							if !reported[key] && fn != entry {
								// a site in a helper stands for each of the helper's call sites
								if k := staticCallSites(p, fn, entryPkg); k > 1 {
									r.Credit(rule, k-1)
								}
							}
							if sp {
								report(key, p.Pos(instr.Pos()), "may-panic site is under a deferred recover on every path from "+FnName(entry), false)
							} else {
								report(key, p.Pos(instr.Pos()), fmt.Sprintf("%s in %s can panic and no deferred recover protects it on the path %s", what, FnName(fn), strings.Join(path, " -> ")), true)
							}
						} else if !sp {
							key := rule + ":" + bkey
							// overwrite a previous 'ok' for this boundary
							if !reported[key+"!"] {
								reported[key+"!"] = true
								r.bad(rule, key+":unprotected", p.Pos(instr.Pos()), fmt.Sprintf("%s at %s is reachable from %s along %s with no deferred recover on the way",
									what, FnName(fn), FnName(entry), strings.Join(path, " -> ")))
							}
						}
						continue
					}
					for _, c := range callees {
						nb := boundary
						if inPkg && c.Pkg.Pkg.Name() != entryPkg {
							k := ord["call:"+FnName(c)]
							ord["call:"+FnName(c)]++
							nb = fmt.Sprintf("%s:%s->%s#%d", FnName(entry), FnName(fn), FnName(c), k)
							key := rule + ":" + nb
							if sp {
								report(key, p.Pos(instr.Pos()), fmt.Sprintf("call of %s (which can refuse by panicking) is under a deferred recover", FnName(c)), false)
							}
						}
						visit(c, sp, nb, append(append([]string{}, path...), FnName(c)))
					}
				}
			}
		}
		visit(entry, false, "", []string{FnName(entry)})

		// the recovering closure of hsms.Parse must turn the panic into ok=false
		if entryPkg == "hsms" {
			ds := recoveringDefers(entry)
			key := rule + ":hsms.Parse:recover-sets-ok-false"
			okFalse := false
			for _, d := range ds {
				if mc, ok := d.Call.Value.(*ssa.MakeClosure); ok {
					cl := mc.Fn.(*ssa.Function)
					for _, b := range cl.Blocks {
						for _, instr := range b.Instrs {
							if st, ok := instr.(*ssa.Store); ok {
								if c, ok := st.Val.(*ssa.Const); ok && c.Value != nil && constVal(c).K == KBool && !constVal(c).B {
									if fv, ok := st.Addr.(*ssa.FreeVar); ok {
										// the free variable must be the named bool result
										for bi, binding := range mc.Bindings {
											if cl.FreeVars[bi] == fv {
												if al, ok := binding.(*ssa.Alloc); ok && isNamedResult(entry, al, 1) {
													okFalse = true
												}
											}
										}
									}
								}
							}
						}
					}
				}
			}
			if len(ds) > 0 && entry.Blocks[0] == ds[0].Block() && okFalse {
				r.ok(rule, key, p.Pos(ds[0].Pos()), "Parse defers, in its entry block, a closure that recovers and stores false into the ok result")
			} else {
				r.bad(rule, key, p.Pos(entry.Pos()), "hsms.Parse has no deferred recover in its entry block that sets the ok result to false: a refusal would escape as a panic or be reported as success")
			}
		}
		if entryPkg == "sml" {
			r.Floor(rule, 15)
		} else {
			r.Floor(rule, 8)
		}
	}
}

// isNamedResult reports whether al is the storage of fn's idx-th named result.
func isNamedResult(fn *ssa.Function, al *ssa.Alloc, idx int) bool {
	res := fn.Signature.Results()
	if idx >= res.Len() {
		return false
	}
	return al.Comment == res.At(idx).Name() && res.At(idx).Name() != ""
}

// staticCallSites counts the static call sites of fn in the functions of the
// named package.
func staticCallSites(p *Prog, fn *ssa.Function, pkg string) int {
	n := 0
	for _, g := range p.PkgFuncs(pkg) {
		for _, b := range g.Blocks {
			for _, instr := range b.Instrs {
				if c, ok := instr.(*ssa.Call); ok && c.Common().StaticCallee() == fn {
					n++
				}
			}
		}
	}
	return n
}

// spillOfParameter: a stack slot that only ever holds a parameter of the
// function (the compiler's copy of a by-value receiver or argument whose
// address is taken) and does not escape.
func spillOfParameter(al *ssa.Alloc) bool {
	if al.Heap {
		return false
	}
	refs := al.Referrers()
	if refs == nil {
		return false
	}
	n := 0
	for _, ref := range *refs {
		if st, ok := ref.(*ssa.Store); ok && st.Addr == ssa.Value(al) {
			if _, isPrm := st.Val.(*ssa.Parameter); !isPrm {
				return false
			}
			n++
		}
	}
	return n == 1
}
