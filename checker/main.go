package main

import (
	"encoding/json"
	"flag"
	"fmt"
	"os"
	"path/filepath"
	"runtime/debug"
	"runtime/pprof"
	"sort"
	"strconv"
	"strings"
	"time"
)

func main() {
	var (
		propID   = flag.String("property", "", "property id (C01..C19) or 'all'")
		tier     = flag.String("tier", "quick", "quick|thorough")
		repo     = flag.String("repo", "/repo", "repository root")
		evidence = flag.String("evidence", "", "evidence file to write (default /verif/evidence/<id>.json)")
		known    = flag.String("known", "/verif/known_findings.json", "known findings file")
		overlay  = flag.String("overlay", "", "JSON file {abs filename: contents} applied in memory (self test)")
		list     = flag.Bool("list", false, "list obligations instead of judging")
		graph    = flag.String("graph", "vta", "call graph: vta|cha")
		debugFn  = flag.String("debug", "", "pkg:Func — evaluate symbolically and dump returns and heap (development aid)")
	)
	decodeDbg := flag.Int("decode", -1, "format code: evaluate the hsms item decoder on an item of that format, width and count given as arguments (development aid)")
	parseDbg := flag.String("parse", "", "item text: lex it and evaluate (*parser).parseDataItem on the tokens (development aid)")
	lexDbg := flag.String("lex", "", "state function name: evaluate it on the input given as first argument (development aid)")
	flag.Parse()
	if pf := os.Getenv("SC_PROF"); pf != "" {
		f, err := os.Create(pf)
		if err == nil {
			pprof.StartCPUProfile(f)
			go func() {
				time.Sleep(60 * time.Second)
				pprof.StopCPUProfile()
				f.Close()
			}()
		}
	}
	if *parseDbg != "" {
		prog, err := Load(*repo, nil)
		if err != nil {
			fmt.Println(err)
			os.Exit(2)
		}
		toks, ok := lexAll(prog, "lexMessageText", *parseDbg, 300)
		fmt.Printf("lexed ok=%v %d tokens\n", ok, len(toks))
		obs, diags, ok := parseRun(prog, prog.Func("sml", "(*parser).parseDataItem"), toks, 4)
		fmt.Printf("ok=%v diags=%q\n", ok, diags)
		for _, o := range obs {
			fmt.Printf("  %s %v\n", o.factory, o.elems)
		}
		return
	}
	if *decodeDbg >= 0 {
		prog, err := Load(*repo, nil)
		if err != nil {
			fmt.Println(err)
			os.Exit(2)
		}
		k, _ := strconv.Atoi(flag.Arg(0))
		n, _ := strconv.Atoi(flag.Arg(1))
		res, ok := decodeItemBytes(prog, *decodeDbg, int64(k)*int64(n), flag.NArg() > 2)
		fmt.Printf("ok=%v fac=%s args=%v elems=%v end=%s success=%v\n", ok, res.fac, res.args, res.elems, res.endPos, res.success)
		return
	}
	if *lexDbg != "" {
		prog, err := Load(*repo, nil)
		if err != nil {
			fmt.Println(err)
			os.Exit(2)
		}
		fn := prog.Func("sml", *lexDbg)
		pos, _ := strconv.Atoi(flag.Arg(1))
		if strings.HasPrefix(*lexDbg, "all:") {
			toks, ok := lexAll(prog, strings.TrimPrefix(*lexDbg, "all:"), flag.Arg(0), 200)
			fmt.Printf("ok=%v toks=%v\n", ok, toks)
			return
		}
		var res lexResult
		var ok bool
		if flag.NArg() > 3 {
			st, _ := strconv.Atoi(flag.Arg(3))
			res, ok = lexRunFrom(prog, fn, flag.Arg(0), st, pos, flag.Arg(2), int64Val(11))
		} else {
			res, ok = lexRun(prog, fn, flag.Arg(0), pos, flag.Arg(2))
		}
		fmt.Printf("ok=%v end=%d next=%q toks=%q\n", ok, res.end, res.next, res.toks)
		return
	}
	if *debugFn != "" {
		debugDump(*repo, *debugFn)
		return
	}
	seed := 0
	if s := os.Getenv("VERIF_SEED"); s != "" {
		seed, _ = strconv.Atoi(s)
	}
	if t := os.Getenv("VERIF_TIER"); t != "" && *tier == "" {
		*tier = t
	}
	var ids []string
	if *propID == "all" {
		for id := range properties {
			ids = append(ids, id)
		}
		sort.Strings(ids)
	} else {
		if properties[*propID] == nil {
			fmt.Fprintf(os.Stderr, "unknown property %q\n", *propID)
			os.Exit(2)
		}
		ids = []string{*propID}
	}
	var ov map[string][]byte
	if *overlay != "" {
		b, err := os.ReadFile(*overlay)
		if err != nil {
			fmt.Fprintln(os.Stderr, err)
			os.Exit(2)
		}
		var m map[string]string
		if err := json.Unmarshal(b, &m); err != nil {
			fmt.Fprintln(os.Stderr, err)
			os.Exit(2)
		}
		ov = map[string][]byte{}
		for k, v := range m {
			ov[k] = []byte(v)
		}
	}
	kf, err := LoadKnown(*known)
	if err != nil {
		fmt.Fprintln(os.Stderr, "known findings:", err)
		os.Exit(2)
	}
	exit := 0
	for _, id := range ids {
		start := time.Now()
		prop := properties[id]
		ev := *evidence
		if ev == "" || len(ids) > 1 {
			ev = filepath.Join("/verif/evidence", id+".json")
		}
		rep := NewReport()
		p, err := Load(*repo, ov)
		if err != nil {
			// a tree that cannot be loaded or type-checked cannot be judged
			rep.Add(Obligation{Rule: "load", Key: "load:" + id, Status: Undecided, Detail: err.Error()})
			p = &Prog{Dir: *repo}
		} else {
			if *graph == "cha" {
				p.CG = p.CHA
			}
			runRules(prop, p, rep)
			if *tier == "thorough" {
				runThorough(prop, p, rep, *repo)
			}
		}
		if *list {
			for _, o := range rep.Obls {
				fmt.Printf("%-10s %-11s %s  [%s] %s\n", o.Rule, o.Status, o.Key, o.Pos, o.Detail)
			}
		}
		code := Finish(prop, *tier, seed, rep, p, kf, ev, time.Since(start).Seconds(), nil)
		if code > exit {
			exit = code
		}
	}
	os.Exit(exit)
}

// runRules applies every rule of the property; a panic inside a rule is an
// undecided obligation (the machinery never passes by crashing quietly).
func runRules(prop *Property, p *Prog, rep *Report) {
	for _, rule := range prop.Rules {
		func() {
			defer func() {
				if e := recover(); e != nil {
					rep.Add(Obligation{Rule: rule.Name, Key: "panic:" + rule.Name, Status: Undecided,
						Detail: fmt.Sprintf("rule engine panicked: %v\n%s", e, debug.Stack())})
				}
			}()
			rule.Run(p, rep)
		}()
	}
}

func debugDump(repo, spec string) {
	p, err := Load(repo, nil)
	if err != nil {
		fmt.Println(err)
		os.Exit(2)
	}
	var pkg, name string
	for i := 0; i < len(spec); i++ {
		if spec[i] == ':' {
			pkg, name = spec[:i], spec[i+1:]
			break
		}
	}
	fn := p.Func(pkg, name)
	if fn == nil {
		fmt.Println("no such function")
		os.Exit(2)
	}
	in := NewInterp(p)
	in.Symbolic = true
	for _, kv := range flag.Args() {
		for i := 0; i < len(kv); i++ {
			if kv[i] == '=' {
				var n int64
				if _, err := fmt.Sscanf(kv[i+1:], "%d", &n); err == nil {
					in.PathBind[kv[:i]] = int64Val(n)
				} else {
					in.PathBind[kv[:i]] = strVal(kv[i+1:])
				}
			}
		}
	}
	dargs := defaultArgs(fn)
	for i, prm := range fn.Params {
		if v, ok := in.PathBind[prm.Name()]; ok {
			dargs[i] = v
		}
	}
	out := in.Run(fn, dargs, nil)
	fmt.Println("canReturn", out.CanReturn, "canPanic", out.CanPanic, "ret", out.Ret)
	var keys []string
	for k := range in.FinalHeap() {
		keys = append(keys, k)
	}
	sort.Strings(keys)
	for _, k := range keys {
		fmt.Printf("  %s = %s\n", k, in.FinalHeap()[k])
	}
	fmt.Println("stuck", in.Stuck)
}
