package main

// Three-valued abstract evaluation of go/ssa functions.
//
// This is the engine behind every "what does this guard refuse" question. A
// query binds a few SSA values (the subjects: a parameter, a receiver field,
// a loop element, a length) to concrete constants and leaves everything else
// unknown. The function's control-flow graph is then explored: a branch whose
// condition evaluates to a constant follows one edge, an unknown condition
// follows both. Nothing of the library is executed; the result says which
// returns, panics and instructions are reachable for SOME value of the
// unknowns. Run over one representative per cell of the arrangement cut out by
// the constants a function compares its subject with, this gives the exact
// denotation of the function's guards on that subject (see denote.go).
//
// Memory is modelled as far as the immutable-object idiom needs it: fresh
// allocations are named by their allocation site, a field or constant-index
// element of a fresh object holds the join of the values stored to it (or the
// zero value when nothing is stored), everything else is unknown. Calls to
// module functions are evaluated recursively (bounded depth); calls that leave
// the module are unknown except for a short list of pure functions.

import (
	"fmt"
	"go/constant"
	"go/token"
	"go/types"
	"math"
	"math/big"
	"math/bits"
	"strconv"
	"strings"
	"unicode"
	"unicode/utf8"

	"golang.org/x/tools/go/ssa"
)

type Kind int

const (
	KBot   Kind = iota // no value yet (unreached)
	KTop               // unknown
	KInt               // integer constant (mathematical value, already wrapped to its type)
	KFloat             // float64 (or float32 rounded) constant
	KBool
	KStr
	KPtr   // address of a modelled memory cell: path
	KSlice // slice over modelled memory: path of backing store, Len if known (-1)
	KIface // interface holding a value of known dynamic type
	KNil
	KTuple
	KFunc // known function value
	KSym  // unknown value with a name: a term over parameters and unmodified input memory
	KAgg  // struct or array value: a copy of the cells below path S (Agg: the cells written there)
)

type Val struct {
	K     Kind
	I     *big.Int
	F     float64
	B     bool
	S     string // KStr: the string; KPtr/KSlice: memory path
	Len   int    // KSlice: length, -1 unknown; KStr n/a
	Off   int    // KSlice: index of element 0 within the backing store named by S
	T     types.Type
	Inner *Val
	Elems []Val
	Fn    *ssa.Function
	Agg   map[string]cell
	Dep   bool // (KTop) derived from a bound subject through something the evaluator cannot follow
}

var top = Val{K: KTop}

func topDep(dep bool) Val { return Val{K: KTop, Dep: dep} }
func intVal(i *big.Int) Val {
	return Val{K: KInt, I: i}
}
func int64Val(i int64) Val   { return Val{K: KInt, I: big.NewInt(i)} }
func boolVal(b bool) Val     { return Val{K: KBool, B: b} }
func strVal(s string) Val    { return Val{K: KStr, S: s} }
func floatVal(f float64) Val { return Val{K: KFloat, F: f} }

func (v Val) known() bool { return v.K != KTop && v.K != KBot && v.K != KSym }

func symVal(term string, dep bool) Val { return Val{K: KSym, S: term, Dep: dep} }

// termOf renders a value as a term; ok is false for unknown values.
func termOf(v Val) (string, bool) {
	switch v.K {
	case KSym:
		return v.S, true
	case KInt, KBool, KStr, KFloat:
		return v.String(), true
	}
	return "", false
}

func (v Val) String() string {
	switch v.K {
	case KBot:
		return "⊥"
	case KTop:
		if v.Dep {
			return "⊤(subject)"
		}
		return "⊤"
	case KInt:
		return v.I.String()
	case KFloat:
		return fmt.Sprint(v.F)
	case KBool:
		return fmt.Sprint(v.B)
	case KStr:
		return fmt.Sprintf("%q", v.S)
	case KPtr:
		return "&" + v.S
	case KSlice:
		return fmt.Sprintf("%s[:%d]", v.S, v.Len)
	case KIface:
		return fmt.Sprintf("iface(%s:%s)", v.T, v.Inner)
	case KNil:
		return "nil"
	case KTuple:
		var s []string
		for _, e := range v.Elems {
			s = append(s, e.String())
		}
		return "(" + strings.Join(s, ", ") + ")"
	case KFunc:
		return "func " + v.Fn.String()
	case KSym:
		return v.S
	case KAgg:
		return "copy(" + v.S + ")"
	}
	return "?"
}

func equalVal(a, b Val) bool {
	if a.K != b.K {
		return false
	}
	switch a.K {
	case KInt:
		return a.I.Cmp(b.I) == 0
	case KFloat:
		return a.F == b.F || (a.F != a.F && b.F != b.F)
	case KBool:
		return a.B == b.B
	case KStr, KSym:
		return a.S == b.S
	case KPtr:
		return a.S == b.S
	case KSlice:
		return a.S == b.S && a.Len == b.Len && a.Off == b.Off
	case KIface:
		return types.Identical(a.T, b.T) && equalVal(*a.Inner, *b.Inner)
	case KTuple:
		if len(a.Elems) != len(b.Elems) {
			return false
		}
		for i := range a.Elems {
			if !equalVal(a.Elems[i], b.Elems[i]) {
				return false
			}
		}
		return true
	case KFunc:
		if a.Fn != b.Fn || len(a.Elems) != len(b.Elems) {
			return false
		}
		for i := range a.Elems {
			if !equalVal(a.Elems[i], b.Elems[i]) {
				return false
			}
		}
		return true
	case KTop:
		return a.Dep == b.Dep
	case KAgg:
		if a.S != b.S || len(a.Agg) != len(b.Agg) {
			return false
		}
		for k, x := range a.Agg {
			y, ok := b.Agg[k]
			if !ok || !sameCell(x, y) {
				return false
			}
		}
		return true
	}
	return true
}

func join(a, b Val) Val {
	if a.K == KBot {
		return b
	}
	if b.K == KBot {
		return a
	}
	if a.K == KTop || b.K == KTop {
		return topDep(a.Dep || b.Dep)
	}
	if equalVal(a, b) {
		if b.Dep {
			a.Dep = true
		}
		return a
	}
	if a.K == KSlice && b.K == KSlice && a.S == b.S && a.Off == b.Off {
		return Val{K: KSlice, S: a.S, Len: -1, Off: a.Off}
	}
	// nil or a slice over a known store: that slice, of unknown length (a nil
	// slice has no elements to read, and a comparison with nil stays unknown)
	if a.K == KNil && b.K == KSlice {
		return Val{K: KSlice, S: b.S, Len: -1, Off: b.Off, Dep: a.Dep || b.Dep}
	}
	if b.K == KNil && a.K == KSlice {
		return Val{K: KSlice, S: a.S, Len: -1, Off: a.Off, Dep: a.Dep || b.Dep}
	}
	if a.K == KIface && b.K == KIface && types.Identical(a.T, b.T) {
		inner := join(*a.Inner, *b.Inner)
		return Val{K: KIface, T: a.T, Inner: &inner, Dep: a.Dep || b.Dep}
	}
	if a.K == KTuple && b.K == KTuple && len(a.Elems) == len(b.Elems) {
		out := Val{K: KTuple, Elems: make([]Val, len(a.Elems))}
		for i := range a.Elems {
			out.Elems[i] = join(a.Elems[i], b.Elems[i])
		}
		return out
	}
	return topDep(a.Dep || b.Dep)
}

// ---------------------------------------------------------------------------

// ---------------------------------------------------------------------------
// value evaluation

func (fr *frame) eval1(v ssa.Value) Val {
	switch x := v.(type) {
	case *ssa.Const:
		return constVal(x)
	case *ssa.Parameter:
		for i, p := range fr.fn.Params {
			if p == x && i < len(fr.args) && fr.args[i].K != KBot && fr.args[i].K != KTop {
				return fr.args[i]
			}
		}
		if fr.in.Symbolic {
			return symVal(x.Name(), false)
		}
		return top
	case *ssa.Function:
		return Val{K: KFunc, Fn: x}
	case *ssa.Phi:
		b := x.Block()
		if !fr.blocks[b] {
			return top
		}
		res := Val{K: KBot}
		for i, pred := range b.Preds {
			if fr.edges[edge{pred, b}] {
				res = join(res, fr.eval(x.Edges[i]))
			}
		}
		if fr.start != fr.fn.Blocks[0] {
			// region query: edges from outside the region are not tracked
			if fr.outer != nil {
				if o, ok := fr.outer[x]; ok {
					return join(res, o)
				}
			}
			if b == fr.start {
				return top
			}
		}
		return res
	case *ssa.BinOp:
		return fr.binop(x)
	case *ssa.UnOp:
		return fr.unop(x)
	case *ssa.Convert:
		xv := fr.eval(x.X)
		if r, ok := fr.convertSeq(x, xv); ok {
			return r
		}
		return convertVal(xv, x.X.Type(), x.Type(), fr.in.Sizes)
	case *ssa.ChangeType:
		return fr.eval(x.X)
	case *ssa.ChangeInterface:
		return fr.eval(x.X)
	case *ssa.MakeInterface:
		inner := fr.eval(x.X)
		if inner.K == KBot {
			return inner
		}
		return Val{K: KIface, T: x.X.Type(), Inner: &inner, Dep: inner.Dep}
	case *ssa.TypeAssert:
		return fr.typeAssert(x)
	case *ssa.Extract:
		t := fr.eval(x.Tuple)
		if t.K == KTuple && x.Index < len(t.Elems) {
			return t.Elems[x.Index]
		}
		if t.K == KBot {
			return t
		}
		return topDep(t.Dep)
	case *ssa.Alloc:
		return Val{K: KPtr, S: fr.siteName(x)}
	case *ssa.MakeSlice:
		n := fr.eval(x.Len)
		l := -1
		if n.K == KInt && n.I.IsInt64() && n.I.Int64() >= 0 && n.I.Int64() < 1<<20 {
			l = int(n.I.Int64())
		}
		return Val{K: KSlice, S: fr.siteName(x), Len: l}
	case *ssa.MakeMap:
		return Val{K: KPtr, S: fr.siteName(x)}
	case *ssa.MakeClosure:
		if f, ok := x.Fn.(*ssa.Function); ok {
			// a closure carries the values of the variables it captured
			fv := Val{K: KFunc, Fn: f}
			for _, b := range x.Bindings {
				fv.Elems = append(fv.Elems, fr.eval(b))
			}
			return fv
		}
		return top
	case *ssa.MakeChan:
		return top
	case *ssa.FieldAddr:
		base := fr.eval(x.X)
		if base.K == KPtr {
			st := derefStruct(x.X.Type())
			if st != nil {
				return Val{K: KPtr, S: base.S + fieldSuffix(st, x.Field)}
			}
		}
		if base.K == KBot {
			return base
		}
		return topDep(base.Dep)
	case *ssa.Field:
		base := fr.eval(x.X)
		if base.K == KBot {
			return base
		}
		if base.K == KAgg {
			if st, ok := x.X.Type().Underlying().(*types.Struct); ok {
				suffix := fieldSuffix(st, x.Field)
				if suffix == "" {
					return base // an embedded struct: the same cells under the same names
				}
				if isAggregate(x.Type()) {
					sub := map[string]cell{}
					for k, c := range base.Agg {
						if under(k, suffix) {
							sub[k[len(suffix):]] = c
						}
					}
					return Val{K: KAgg, S: base.S + suffix, Agg: sub}
				}
				if c, ok := base.Agg[suffix]; ok && !c.Maybe {
					return c.V
				}
				return fr.load(base.S+suffix, x.Type())
			}
		}
		return topDep(base.Dep)
	case *ssa.IndexAddr:
		base := fr.eval(x.X)
		idx := fr.eval(x.Index)
		if base.K == KPtr || base.K == KSlice {
			if idx.K == KInt && idx.I.IsInt64() {
				return Val{K: KPtr, S: fmt.Sprintf("%s[%d]", base.S, idx.I.Int64()+int64(base.Off))}
			}
			return Val{K: KPtr, S: base.S + "[*]"}
		}
		if base.K == KBot {
			return base
		}
		return topDep(base.Dep || idx.Dep)
	case *ssa.Index:
		base := fr.eval(x.X)
		idx := fr.eval(x.Index)
		if base.K == KAgg && idx.K == KInt && idx.I.IsInt64() {
			// an element of an array value
			suffix := fmt.Sprintf("[%d]", idx.I.Int64())
			if isAggregate(x.Type()) {
				sub := map[string]cell{}
				for k, c := range base.Agg {
					if under(k, suffix) {
						sub[k[len(suffix):]] = c
					}
				}
				return Val{K: KAgg, S: base.S + suffix, Agg: sub}
			}
			if c, ok := base.Agg[suffix]; ok && !c.Maybe {
				return c.V
			}
			return fr.load(base.S+suffix, x.Type())
		}
		if base.K == KStr && idx.K == KInt && idx.I.IsInt64() {
			i := idx.I.Int64()
			if i >= 0 && int(i) < len(base.S) {
				return int64Val(int64(base.S[i]))
			}
		}
		return topDep(base.Dep || idx.Dep)
	case *ssa.Slice:
		return fr.slice(x)
	case *ssa.Lookup:
		m := fr.eval(x.X)
		k := fr.eval(x.Index)
		if m.K == KBot || k.K == KBot {
			return Val{K: KBot}
		}
		if m.K == KStr && k.K == KInt && k.I.IsInt64() {
			i := k.I.Int64()
			if i >= 0 && int(i) < len(m.S) {
				return Val{K: KInt, I: big.NewInt(int64(m.S[i])), Dep: m.Dep || k.Dep}
			}
		}
		if present, known := fr.mapHas(m.S, k); m.K == KPtr && known {
			if mt, _ := x.X.Type().Underlying().(*types.Map); mt != nil {
				v := zeroVal(mt.Elem())
				if present {
					v = fr.load(m.S+"["+k.String()+"]", mt.Elem())
				}
				if k.Dep {
					v.Dep = true
				}
				if x.CommaOk {
					return Val{K: KTuple, Elems: []Val{v, {K: KBool, B: present, Dep: k.Dep}}}
				}
				return v
			}
		}
		if m.K == KPtr && strings.Contains(m.S, ".init#") && !fr.in.noInitHeap && (k.K == KStr || k.K == KInt) {
			// a read-only table built by the package initialiser: its entries are
			// exactly those the initialiser stored
			if mt, _ := x.X.Type().Underlying().(*types.Map); mt != nil && fr.in.Prog.initHasRoot(m.S) {
				path := m.S + "[" + k.String() + "]"
				if _, written := fr.cur.get(path); !written {
					v, present := fr.in.Prog.initCell(path)
					if !present {
						v = zeroVal(mt.Elem())
					}
					if k.Dep {
						v.Dep = true
					}
					if x.CommaOk {
						return Val{K: KTuple, Elems: []Val{v, {K: KBool, B: present, Dep: k.Dep}}}
					}
					return v
				}
			}
		}
		if m.K == KPtr && strings.Contains(m.S, "#") && (k.K == KStr || k.K == KInt) {
			mt, _ := x.X.Type().Underlying().(*types.Map)
			if mt != nil {
				path := m.S + "[" + k.String() + "]"
				pc, present := fr.cur.get(path)
				_, wild := fr.cur.get(m.S + "[*]")
				v := fr.load(path, mt.Elem())
				if k.Dep {
					v.Dep = true
				}
				if x.CommaOk {
					okv := top
					if !present && !wild {
						okv = boolVal(false)
					} else if present && !pc.Maybe && !fr.multi(path) {
						okv = boolVal(true)
					}
					return Val{K: KTuple, Elems: []Val{v, okv}}
				}
				return v
			}
		}
		d := topDep(m.Dep || k.Dep)
		if x.CommaOk {
			return Val{K: KTuple, Elems: []Val{d, d}}
		}
		return d
	case *ssa.Call:
		return fr.call(x)
	case *ssa.Range:
		return fr.eval(x.X)
	case *ssa.Next:
		it := fr.eval(x.Iter)
		if x.IsString && it.K == KStr && it.S == "" {
			return Val{K: KTuple, Elems: []Val{boolVal(false), top, top}}
		}
		if rg, isRange := x.Iter.(*ssa.Range); isRange && !x.IsString && it.K == KPtr {
			if mt, isMap := rg.X.Type().Underlying().(*types.Map); isMap {
				if keys, declared := fr.in.MapKeys[it.S]; declared {
					if len(keys) == 0 {
						return Val{K: KTuple, Elems: []Val{boolVal(false), top, top}}
					}
					if fr.pathMode {
						return fr.nextKey(x, it.S, mt.Elem())
					}
				}
				if n, ok := fr.in.PathBind["len("+it.S+")"]; ok && n.K == KInt && n.I.Sign() == 0 {
					return Val{K: KTuple, Elems: []Val{boolVal(false), top, top}}
				}
				// a map made by the evaluated code itself that holds no entry or
				// exactly one (so that the order of iteration cannot matter)
				if fr.pathMode && strings.Contains(it.S, "#") {
					if keys, ok := fr.freshMapKeys(it.S); ok && len(keys) <= 1 {
						if _, started := fr.iterKeys[rg]; !started {
							fr.iterKeys[rg] = keys
						}
						return fr.nextKey(x, it.S, mt.Elem())
					}
				}
			}
		}
		if _, isRange := x.Iter.(*ssa.Range); isRange && fr.pathMode && x.IsString && it.K == KStr && !it.Dep {
			return fr.nextRune(x, it.S)
		}
		if it.K == KBot {
			return it
		}
		d := topDep(it.Dep)
		return Val{K: KTuple, Elems: []Val{d, d, d}}
	case *ssa.Select:
		return top
	case *ssa.Global:
		// only the two error sentinels of strconv are given an identity: the
		// parsers compare the cause of a conversion failure with them
		if x.Pkg != nil && x.Pkg.Pkg.Path() == "strconv" && (x.Name() == "ErrRange" || x.Name() == "ErrSyntax") {
			return Val{K: KPtr, S: "g:strconv." + x.Name()}
		}
		// a package-level pattern of the module, compiled once in the package
		// initialiser from a constant and never assigned again
		if _, ok := fr.in.Prog.globalPattern(x); ok {
			return Val{K: KPtr, S: "g:" + x.Pkg.Pkg.Path() + "." + x.Name()}
		}
		// a read-only table of the module: what the package initialiser built
		if fr.in.noInitHeap && x.Pkg != nil && strings.HasPrefix(x.Pkg.Pkg.Path(), modPath) {
			return Val{K: KPtr, S: "g:" + x.Pkg.Pkg.Path() + "." + x.Name()}
		}
		if ro, _ := fr.in.Prog.globalReadOnly(x); ro {
			return Val{K: KPtr, S: "g:" + x.Pkg.Pkg.Path() + "." + x.Name()}
		}
		return top
	case *ssa.FreeVar:
		for i, fv := range fr.fn.FreeVars {
			if fv == x && i < len(fr.free) && fr.free[i].K != KBot {
				return fr.free[i]
			}
		}
		return top
	case *ssa.Builtin:
		return top
	}
	return top
}

func allocName(v ssa.Value) string {
	fn := v.Parent()
	return fmt.Sprintf("%s#%s", FnName(fn), v.Name())
}

func derefStruct(t types.Type) *types.Struct {
	if p, ok := t.Underlying().(*types.Pointer); ok {
		if s, ok := p.Elem().Underlying().(*types.Struct); ok {
			return s
		}
	}
	return nil
}

func constVal(c *ssa.Const) Val {
	if c.Value == nil {
		// zero value of non-basic type or nil
		switch c.Type().Underlying().(type) {
		case *types.Pointer, *types.Slice, *types.Map, *types.Chan, *types.Interface, *types.Signature:
			return Val{K: KNil}
		case *types.Struct, *types.Array:
			// the zero value of an aggregate: every component reads as zero
			return Val{K: KAgg, S: "$zero", Agg: map[string]cell{}}
		}
		return top
	}
	switch c.Value.Kind() {
	case constant.Bool:
		return boolVal(constant.BoolVal(c.Value))
	case constant.String:
		return strVal(constant.StringVal(c.Value))
	case constant.Int:
		if isFloatType(c.Type()) {
			f, _ := constant.Float64Val(c.Value)
			return floatVal(f)
		}
		i, ok := new(big.Int).SetString(c.Value.ExactString(), 10)
		if !ok {
			return top
		}
		return intVal(i)
	case constant.Float:
		if isIntType(c.Type()) {
			if iv := constant.ToInt(c.Value); iv.Kind() == constant.Int {
				i, ok := new(big.Int).SetString(iv.ExactString(), 10)
				if ok {
					return intVal(i)
				}
			}
			return top
		}
		f, _ := constant.Float64Val(c.Value)
		if b, ok := c.Type().Underlying().(*types.Basic); ok && b.Kind() == types.Float32 {
			f = float64(float32(f))
		}
		return floatVal(f)
	}
	return top
}

func isIntType(t types.Type) bool {
	b, ok := t.Underlying().(*types.Basic)
	return ok && b.Info()&types.IsInteger != 0
}
func isFloatType(t types.Type) bool {
	b, ok := t.Underlying().(*types.Basic)
	return ok && b.Info()&types.IsFloat != 0
}
func isStringType(t types.Type) bool {
	b, ok := t.Underlying().(*types.Basic)
	return ok && b.Info()&types.IsString != 0
}

// intRange returns bit size and signedness of an integer type on amd64.
func intRange(t types.Type, sizes types.Sizes) (bits int, signed bool, ok bool) {
	b, isb := t.Underlying().(*types.Basic)
	if !isb || b.Info()&types.IsInteger == 0 {
		return 0, false, false
	}
	if b.Info()&types.IsUntyped != 0 {
		return 0, true, false
	}
	bits = int(sizes.Sizeof(t)) * 8
	return bits, b.Info()&types.IsUnsigned == 0, true
}

// TypeBounds returns the min and max mathematical values of an integer type.
func TypeBounds(t types.Type, sizes types.Sizes) (*big.Int, *big.Int, bool) {
	bits, signed, ok := intRange(t, sizes)
	if !ok {
		return nil, nil, false
	}
	one := big.NewInt(1)
	if signed {
		max := new(big.Int).Sub(new(big.Int).Lsh(one, uint(bits-1)), one)
		min := new(big.Int).Neg(new(big.Int).Lsh(one, uint(bits-1)))
		return min, max, true
	}
	max := new(big.Int).Sub(new(big.Int).Lsh(one, uint(bits)), one)
	return big.NewInt(0), max, true
}

// wrap reduces a mathematical integer to the value a Go variable of type t holds.
func wrap(i *big.Int, t types.Type, sizes types.Sizes) *big.Int {
	bits, signed, ok := intRange(t, sizes)
	if !ok {
		return i
	}
	mod := new(big.Int).Lsh(big.NewInt(1), uint(bits))
	r := new(big.Int).Mod(i, mod) // Mod is Euclidean: 0 <= r < mod
	if signed {
		half := new(big.Int).Lsh(big.NewInt(1), uint(bits-1))
		if r.Cmp(half) >= 0 {
			r.Sub(r, mod)
		}
	}
	return r
}

func convertVal(v Val, from, to types.Type, sizes types.Sizes) Val {
	r := convertVal0(v, from, to, sizes)
	if v.Dep {
		r.Dep = true
	}
	return r
}

func convertVal0(v Val, from, to types.Type, sizes types.Sizes) Val {
	switch v.K {
	case KSym:
		return symVal(types.TypeString(to, nil)+"("+v.S+")", v.Dep)
	case KBot:
		return v
	case KTop:
		return v
	case KInt:
		if isIntType(to) {
			return intVal(wrap(v.I, to, sizes))
		}
		if isFloatType(to) {
			f, _ := new(big.Float).SetInt(v.I).Float64()
			if b, ok := to.Underlying().(*types.Basic); ok && b.Kind() == types.Float32 {
				f = float64(float32(f))
			}
			return floatVal(f)
		}
		if isStringType(to) {
			if v.I.IsInt64() {
				return strVal(string(rune(v.I.Int64())))
			}
		}
	case KFloat:
		if isFloatType(to) {
			f := v.F
			if b, ok := to.Underlying().(*types.Basic); ok && b.Kind() == types.Float32 {
				f = float64(float32(f))
			}
			return floatVal(f)
		}
		if isIntType(to) {
			if v.F != v.F || math.IsInf(v.F, 0) {
				return topDep(true)
			}
			bi, _ := big.NewFloat(math.Trunc(v.F)).Int(nil)
			return intVal(wrap(bi, to, sizes))
		}
	case KStr:
		if isStringType(to) {
			return v
		}
	case KSlice:
		if isStringType(to) && !strings.Contains(v.S, "#") {
			if v.Len >= 0 {
				return symVal(fmt.Sprintf("string(%s[%d:%d])", v.S, v.Off, v.Off+v.Len), v.Dep)
			}
			return symVal(fmt.Sprintf("string(%s[%d:?])", v.S, v.Off), v.Dep)
		}
	}
	return topDep(v.Dep)
}

func (fr *frame) unop(x *ssa.UnOp) Val {
	a := fr.eval(x.X)
	switch x.Op {
	case token.MUL: // load
		if a.K == KPtr {
			return fr.load(a.S, x.Type())
		}
		if a.K == KBot {
			return a
		}
		return topDep(a.Dep)
	case token.NOT:
		if a.K == KBool {
			return Val{K: KBool, B: !a.B, Dep: a.Dep}
		}
	case token.SUB:
		if a.K == KInt {
			return Val{K: KInt, I: wrap(new(big.Int).Neg(a.I), x.Type(), fr.in.Sizes), Dep: a.Dep}
		}
		if a.K == KFloat {
			return Val{K: KFloat, F: -a.F, Dep: a.Dep}
		}
	case token.XOR:
		if a.K == KInt {
			return Val{K: KInt, I: wrap(new(big.Int).Not(a.I), x.Type(), fr.in.Sizes), Dep: a.Dep}
		}
	case token.ARROW:
		return top
	}
	if a.K == KBot {
		return a
	}
	return topDep(a.Dep)
}

func cmpResult(op token.Token, c int) bool {
	switch op {
	case token.EQL:
		return c == 0
	case token.NEQ:
		return c != 0
	case token.LSS:
		return c < 0
	case token.LEQ:
		return c <= 0
	case token.GTR:
		return c > 0
	case token.GEQ:
		return c >= 0
	}
	return false
}

func (fr *frame) binop(x *ssa.BinOp) Val {
	a, b := fr.eval(x.X), fr.eval(x.Y)
	if a.K == KBot || b.K == KBot {
		return Val{K: KBot}
	}
	dep := a.Dep || b.Dep
	if _, isStruct := x.X.Type().Underlying().(*types.Struct); isStruct && (x.Op == token.EQL || x.Op == token.NEQ) {
		// struct values are equal when all their (flattened) fields are
		if leaves, ok := leafPaths(x.X.Type()); ok {
			leaf := func(v Val, orig ssa.Value, suffix string, t types.Type) Val {
				if c, isC := orig.(*ssa.Const); isC && c.Value == nil {
					return zeroVal(t)
				}
				if v.K != KAgg {
					return top
				}
				if c, ok := v.Agg[suffix]; ok && !c.Maybe {
					return c.V
				}
				return fr.load(v.S+suffix, t)
			}
			allEq, known := true, true
			for _, suffix := range leaves {
				if strings.Contains(suffix, "$") || strings.Contains(suffix, "[*]") {
					continue
				}
				t := typeAtSuffix(x.X.Type(), suffix)
				if t == nil {
					known = false
					break
				}
				if isAggregate(t) {
					continue
				}
				l, r := leaf(a, x.X, suffix, t), leaf(b, x.Y, suffix, t)
				switch {
				case l.K == KInt && r.K == KInt:
					allEq = allEq && l.I.Cmp(r.I) == 0
				case l.K == KStr && r.K == KStr:
					allEq = allEq && l.S == r.S
				case l.K == KBool && r.K == KBool:
					allEq = allEq && l.B == r.B
				case l.K == KFloat && r.K == KFloat:
					allEq = allEq && l.F == r.F
				default:
					known = false
				}
				if !allEq {
					break
				}
			}
			if !allEq {
				return Val{K: KBool, B: x.Op == token.NEQ, Dep: dep}
			}
			if known {
				return Val{K: KBool, B: x.Op == token.EQL, Dep: dep}
			}
		}
		return topDep(dep)
	}
	switch x.Op {
	case token.EQL, token.NEQ, token.LSS, token.LEQ, token.GTR, token.GEQ:
		bv := func(t bool) Val { return Val{K: KBool, B: t, Dep: dep} }
		if a.K == KInt && b.K == KInt && fr.in.CutSink != nil && a.Dep != b.Dep {
			if a.Dep {
				fr.in.CutSink(b.I)
			} else {
				fr.in.CutSink(a.I)
			}
		}
		switch {
		case a.K == KInt && b.K == KInt:
			return bv(cmpResult(x.Op, a.I.Cmp(b.I)))
		case a.K == KFloat && b.K == KFloat:
			if a.F != a.F || b.F != b.F { // NaN
				return bv(x.Op == token.NEQ)
			}
			c := 0
			if a.F < b.F {
				c = -1
			} else if a.F > b.F {
				c = 1
			}
			return bv(cmpResult(x.Op, c))
		case a.K == KStr && b.K == KStr:
			return bv(cmpResult(x.Op, strings.Compare(a.S, b.S)))
		case a.K == KBool && b.K == KBool && (x.Op == token.EQL || x.Op == token.NEQ):
			return bv((a.B == b.B) == (x.Op == token.EQL))
		case a.K == KNil && b.K == KNil:
			return bv(x.Op == token.EQL)
		case a.K == KIface && b.K == KIface && a.Inner != nil && b.Inner != nil && a.Inner.K == KPtr && b.Inner.K == KPtr &&
			(x.Op == token.EQL || x.Op == token.NEQ):
			// two interfaces holding pointers to modelled objects: equal iff the same object
			same := a.Inner.S == b.Inner.S && types.Identical(a.T, b.T)
			return bv(same == (x.Op == token.EQL))
		case (a.K == KNil && (b.K == KPtr || b.K == KSlice && b.Len > 0 || b.K == KIface || b.K == KFunc)) ||
			(b.K == KNil && (a.K == KPtr || a.K == KSlice && a.Len > 0 || a.K == KIface || a.K == KFunc)):
			if x.Op == token.EQL || x.Op == token.NEQ {
				return bv(x.Op == token.NEQ)
			}
		}
		if fr.in.Symbolic && (a.K == KSym || b.K == KSym) {
			ta, oka := termOf(a)
			tb, okb := termOf(b)
			if oka && okb && len(ta)+len(tb) < 400 {
				return symVal("("+ta+x.Op.String()+tb+")", dep)
			}
		}
		return topDep(dep)
	}
	if a.K == KSym || b.K == KSym {
		ta, oka := termOf(a)
		tb, okb := termOf(b)
		if oka && okb && len(ta)+len(tb) < 400 {
			return symVal("("+ta+x.Op.String()+tb+")", dep)
		}
		return topDep(dep)
	}
	if a.K == KStr && b.K == KStr && x.Op == token.ADD {
		return Val{K: KStr, S: a.S + b.S, Dep: dep}
	}
	if a.K == KFloat && b.K == KFloat {
		var f float64
		switch x.Op {
		case token.ADD:
			f = a.F + b.F
		case token.SUB:
			f = a.F - b.F
		case token.MUL:
			f = a.F * b.F
		case token.QUO:
			f = a.F / b.F
		default:
			return topDep(true)
		}
		if bt, ok := x.Type().Underlying().(*types.Basic); ok && bt.Kind() == types.Float32 {
			f = float64(float32(f))
		}
		return Val{K: KFloat, F: f, Dep: dep}
	}
	if a.K == KInt && b.K == KInt {
		r := new(big.Int)
		switch x.Op {
		case token.ADD:
			r.Add(a.I, b.I)
		case token.SUB:
			r.Sub(a.I, b.I)
		case token.MUL:
			r.Mul(a.I, b.I)
		case token.QUO:
			if b.I.Sign() == 0 {
				return topDep(true)
			}
			r.Quo(a.I, b.I) // truncated, like Go
		case token.REM:
			if b.I.Sign() == 0 {
				return topDep(true)
			}
			r.Rem(a.I, b.I) // truncated, like Go
		case token.AND:
			r.And(a.I, b.I)
		case token.OR:
			r.Or(a.I, b.I)
		case token.XOR:
			r.Xor(a.I, b.I)
		case token.AND_NOT:
			r.AndNot(a.I, b.I)
		case token.SHL:
			if b.I.Sign() < 0 || !b.I.IsInt64() {
				return topDep(true)
			}
			s := b.I.Int64()
			if s > 256 {
				s = 256
			}
			r.Lsh(a.I, uint(s))
		case token.SHR:
			if b.I.Sign() < 0 || !b.I.IsInt64() {
				return topDep(true)
			}
			s := b.I.Int64()
			if s > 256 {
				s = 256
			}
			r.Rsh(a.I, uint(s)) // arithmetic for negative: big.Int Rsh rounds toward -inf, as Go
		default:
			return topDep(true)
		}
		return Val{K: KInt, I: wrap(r, x.Type(), fr.in.Sizes), Dep: dep}
	}
	return topDep(dep)
}

func (fr *frame) typeAssert(x *ssa.TypeAssert) Val {
	v := fr.eval(x.X)
	if v.K == KBot {
		return v
	}
	if v.K == KSym || (v.K == KPtr && !strings.Contains(v.S, "#")) {
		// an input interface value: name the asserted view
		name := v.S + ".(" + types.TypeString(x.AssertedType, func(*types.Package) string { return "" }) + ")"
		var res Val
		if _, isPtr := x.AssertedType.Underlying().(*types.Pointer); isPtr {
			res = Val{K: KPtr, S: "(*" + name + ")"}
		} else {
			res = symVal(name, v.Dep)
		}
		if x.CommaOk {
			return Val{K: KTuple, Elems: []Val{res, topDep(v.Dep)}}
		}
		return res
	}
	if v.K != KIface {
		if v.K == KNil {
			if x.CommaOk {
				return Val{K: KTuple, Elems: []Val{top, boolVal(false)}}
			}
			fr.must[x] = true
			return Val{K: KBot}
		}
		d := topDep(v.Dep)
		if x.CommaOk {
			return Val{K: KTuple, Elems: []Val{d, d}}
		}
		return d
	}
	ok := false
	if types.IsInterface(x.AssertedType) {
		ok = types.Implements(v.T, x.AssertedType.Underlying().(*types.Interface))
	} else {
		ok = types.Identical(v.T, x.AssertedType)
	}
	var res Val
	if ok {
		if types.IsInterface(x.AssertedType) {
			res = v
		} else {
			res = *v.Inner
		}
	} else {
		res = top
	}
	if x.CommaOk {
		return Val{K: KTuple, Elems: []Val{res, boolVal(ok)}}
	}
	if !ok {
		fr.must[x] = true // the assertion panics
		return Val{K: KBot}
	}
	return res
}

func (fr *frame) slice(x *ssa.Slice) Val {
	base := fr.eval(x.X)
	if base.K == KBot {
		return base
	}
	lowV, highV := int64Val(0), top
	if x.Low != nil {
		lowV = fr.eval(x.Low)
	}
	if x.High != nil {
		highV = fr.eval(x.High)
	}
	switch base.K {
	case KStr:
		if x.High == nil {
			highV = int64Val(int64(len(base.S)))
		}
		if lowV.K == KInt && highV.K == KInt && lowV.I.IsInt64() && highV.I.IsInt64() {
			l, h := lowV.I.Int64(), highV.I.Int64()
			if 0 <= l && l <= h && int(h) <= len(base.S) {
				return strVal(base.S[l:h])
			}
		}
		return topDep(true)
	case KPtr, KSlice: // pointer to array, or slice
		n := -1
		off := 0
		if base.K == KSlice {
			n = base.Len
			off = base.Off
		} else if p, ok := x.X.Type().Underlying().(*types.Pointer); ok {
			if arr, ok := p.Elem().Underlying().(*types.Array); ok {
				n = int(arr.Len())
			}
		}
		if x.High == nil && n >= 0 {
			highV = int64Val(int64(n))
		}
		l := -1
		if lowV.K == KInt && highV.K == KInt && lowV.I.IsInt64() && highV.I.IsInt64() {
			l = int(highV.I.Int64() - lowV.I.Int64())
			if l < 0 {
				l = -1
			}
		}
		if lowV.K == KInt && lowV.I.IsInt64() && lowV.I.Int64() >= 0 && lowV.I.Int64() < 1<<20 {
			return Val{K: KSlice, S: base.S, Len: l, Off: off + int(lowV.I.Int64())}
		}
		return Val{K: KSlice, S: base.S + "[+]", Len: l}
	}
	return topDep(base.Dep || lowV.Dep || highV.Dep)
}

// ---------------------------------------------------------------------------
// memory

func zeroVal(t types.Type) Val {
	switch u := t.Underlying().(type) {
	case *types.Basic:
		switch {
		case u.Info()&types.IsInteger != 0:
			return int64Val(0)
		case u.Info()&types.IsFloat != 0:
			return floatVal(0)
		case u.Info()&types.IsBoolean != 0:
			return boolVal(false)
		case u.Info()&types.IsString != 0:
			return strVal("")
		}
	case *types.Pointer, *types.Slice, *types.Map, *types.Chan, *types.Interface, *types.Signature:
		return Val{K: KNil}
	}
	return top
}

func (fr *frame) builtin(name string, c *ssa.Call, args []Val) Val {
	switch name {
	case "len":
		a := args[0]
		switch a.K {
		case KStr:
			return int64Val(int64(len(a.S)))
		case KSlice:
			if v, ok := fr.in.PathBind["len("+a.S+")"]; ok && a.Len < 0 && a.Off == 0 {
				return v // the whole slice at that path (not a window of it)
			}
			if a.Len >= 0 {
				return int64Val(int64(a.Len))
			}
			if fr.in.Symbolic && a.Off == 0 {
				return symVal("len("+a.S+")", a.Dep)
			}
			if fr.in.Symbolic {
				return symVal(fmt.Sprintf("(len(%s)-%d)", a.S, a.Off), a.Dep)
			}
		case KNil:
			return int64Val(0)
		case KSym:
			return symVal("len("+a.S+")", a.Dep)
		case KPtr:
			if v, ok := fr.in.PathBind["len("+a.S+")"]; ok {
				return v
			}
			if keys, ok := fr.in.MapKeys[a.S]; ok {
				return int64Val(int64(len(keys)))
			}
			// a map the evaluated code made, every entry stored under a constant key
			if _, isMap := c.Call.Args[0].Type().Underlying().(*types.Map); isMap && strings.Contains(a.S, "#") {
				if keys, ok := fr.freshMapKeys(a.S); ok {
					return int64Val(int64(len(keys)))
				}
			}
			if fr.in.Symbolic && !strings.Contains(a.S, "#") {
				return symVal("len("+a.S+")", a.Dep)
			}
		}
		return topDep(a.Dep)
	case "append":
		if len(args) != 2 {
			return Val{K: KSlice, S: fr.siteName(c), Len: -1}
		}
		a0, a1 := args[0], args[1]
		if a1.K == KStr && len(a1.S) <= 256 {
			// append(bytes, str...): the bytes of a known string
			elems := make([]Val, len(a1.S))
			for i := range elems {
				elems[i] = Val{K: KInt, I: big.NewInt(int64(a1.S[i])), Dep: a1.Dep}
			}
			if fr.in.OnAppend != nil && fr.in.collect {
				fr.in.OnAppend(c, a1, elems, fr)
			}
			return fr.appendTo(c, a0, elems)
		}
		if a1.K == KSym && isStringType(c.Call.Args[1].Type()) && a0.K == KSlice && a0.Len >= 0 && strings.Contains(a0.S, "#") {
			// append(bytes, str...) of an unknown string: its bytes, from the
			// current end on
			if fr.in.OnAppend != nil && fr.in.collect {
				fr.in.OnAppend(c, a1, nil, fr)
			}
			fr.storeFrom(a0.S, a0.Off+a0.Len, symVal(a1.S+"[*]", a1.Dep))
			return Val{K: KSlice, S: a0.S, Len: -1, Off: a0.Off}
		}
		if fr.in.OnAppend != nil && fr.in.collect {
			var elems []Val
			if a1.K == KSlice && a1.Len >= 0 && a1.Len <= 64 {
				et := types.Type(types.Typ[types.Invalid])
				if st, ok := c.Type().Underlying().(*types.Slice); ok {
					et = st.Elem()
				}
				for i := 0; i < a1.Len; i++ {
					elems = append(elems, fr.load(fmt.Sprintf("%s[%d]", a1.S, a1.Off+i), et))
				}
			}
			fr.in.OnAppend(c, a1, elems, fr)
		}
		base := a0.S
		if a0.K != KSlice || !strings.Contains(a0.S, "#") {
			base = fr.siteName(c)
			fr.allocate(base)
			if a0.K == KNil || (a0.K == KSlice && a0.Len == 0) {
				a0 = Val{K: KSlice, S: base, Len: 0}
			} else {
				a0 = Val{K: KSlice, S: base, Len: -1}
			}
		}
		elemT := types.Type(types.Typ[types.Invalid])
		if st, ok := c.Type().Underlying().(*types.Slice); ok {
			elemT = st.Elem()
		}
		switch {
		case a1.K == KSlice && a1.Len >= 0 && a1.Len <= 64 && a0.Len >= 0:
			for i := 0; i < a1.Len; i++ {
				fr.store(Val{K: KPtr, S: fmt.Sprintf("%s[%d]", base, a0.Off+a0.Len+i)}, fr.load(fmt.Sprintf("%s[%d]", a1.S, a1.Off+i), elemT), nil)
			}
			return Val{K: KSlice, S: base, Len: a0.Len + a1.Len, Off: a0.Off}
		case a1.K == KSlice && a0.Len >= 0:
			// many or unknown many elements appended at a known position: only
			// the indices from there on are affected
			fr.storeFrom(base, a0.Off+a0.Len, fr.load(a1.S+"[*]", elemT))
			l := -1
			if a1.Len >= 0 {
				l = a0.Len + a1.Len
			}
			return Val{K: KSlice, S: base, Len: l, Off: a0.Off}
		case a1.K == KSlice:
			n := a1.Len
			if n < 0 || n > 64 {
				n = -1
			}
			if n >= 0 {
				for i := 0; i < n; i++ {
					fr.store(Val{K: KPtr, S: base + "[*]"}, fr.load(fmt.Sprintf("%s[%d]", a1.S, a1.Off+i), elemT), nil)
				}
			} else {
				fr.store(Val{K: KPtr, S: base + "[*]"}, fr.load(a1.S+"[*]", elemT), nil)
			}
			return Val{K: KSlice, S: base, Len: -1, Off: a0.Off}
		case a1.K == KNil:
			return a0
		}
		fr.store(Val{K: KPtr, S: base + "[*]"}, top, nil)
		return Val{K: KSlice, S: base, Len: -1}
	case "cap":
		return top
	case "copy":
		// dst[i] = src[i]; with unknown extents every element of dst may change
		if len(args) == 2 && args[0].K == KSlice {
			dst, src := args[0], args[1]
			et := types.Type(types.Typ[types.Invalid])
			if st, ok := c.Call.Args[0].Type().Underlying().(*types.Slice); ok {
				et = st.Elem()
			}
			n := -1
			if src.K == KStr && len(src.S) <= 256 {
				// copy(bytes, str): the bytes of a known string
				n = len(src.S)
				if dst.Len >= 0 && dst.Len < n {
					n = dst.Len
				}
				if dst.Len >= 0 {
					for i := 0; i < n; i++ {
						fr.store(Val{K: KPtr, S: fmt.Sprintf("%s[%d]", dst.S, dst.Off+i)}, Val{K: KInt, I: big.NewInt(int64(src.S[i])), Dep: src.Dep}, nil)
					}
					return int64Val(int64(n))
				}
			}
			n = -1
			if dst.Len >= 0 && src.K == KSlice && src.Len >= 0 {
				n = dst.Len
				if src.Len < n {
					n = src.Len
				}
			}
			if n >= 0 && n <= 64 && src.K == KSlice {
				for i := 0; i < n; i++ {
					fr.store(Val{K: KPtr, S: fmt.Sprintf("%s[%d]", dst.S, dst.Off+i)}, fr.load(fmt.Sprintf("%s[%d]", src.S, src.Off+i), et), nil)
				}
				return int64Val(int64(n))
			} else if src.K == KSlice {
				fr.store(Val{K: KPtr, S: dst.S + "[*]"}, fr.load(src.S+"[*]", et), nil)
				if n >= 0 {
					return int64Val(int64(n))
				}
			} else {
				fr.store(Val{K: KPtr, S: dst.S + "[*]"}, top, nil)
			}
		}
		return top
	}
	return top
}

// pureCall evaluates a few side-effect free standard-library functions.
func (fr *frame) pureCall(fn *ssa.Function, args []Val) (Val, bool) {
	if fn.Pkg == nil {
		return Val{}, false
	}
	name := fn.Pkg.Pkg.Path() + "." + fn.Name()
	allKnown := true
	dep := false
	for _, a := range args {
		if !a.known() {
			allKnown = false
		}
		dep = dep || a.Dep
	}
	switch name {
	case "math.IsInf":
		if allKnown && args[0].K == KFloat && args[1].K == KInt {
			return boolVal(math.IsInf(args[0].F, int(args[1].I.Int64()))), true
		}
	case "math.IsNaN":
		if allKnown && args[0].K == KFloat {
			return boolVal(math.IsNaN(args[0].F)), true
		}
	case "math.Abs":
		if allKnown && args[0].K == KFloat {
			return floatVal(math.Abs(args[0].F)), true
		}
	case "strings.HasPrefix":
		if allKnown && args[0].K == KStr && args[1].K == KStr {
			return boolVal(strings.HasPrefix(args[0].S, args[1].S)), true
		}
	case "fmt.Sprintf":
		if len(args) == 2 && args[0].K == KStr && args[1].K == KSlice && args[1].Len >= 0 && args[1].Len <= 4 {
			var goArgs []interface{}
			d := dep
			for i := 0; i < args[1].Len; i++ {
				e := fr.load(fmt.Sprintf("%s[%d]", args[1].S, args[1].Off+i), types.NewInterfaceType(nil, nil))
				if e.K != KIface {
					return topDep(true), true
				}
				d = d || e.Dep || e.Inner.Dep
				switch e.Inner.K {
				case KInt:
					goArgs = append(goArgs, e.Inner.I)
				case KStr:
					goArgs = append(goArgs, e.Inner.S)
				case KBool:
					goArgs = append(goArgs, e.Inner.B)
				default:
					return topDep(true), true
				}
			}
			return Val{K: KStr, S: fmt.Sprintf(args[0].S, goArgs...), Dep: d}, true
		}
		if len(args) == 2 && args[0].K == KStr && args[1].K == KNil {
			return Val{K: KStr, S: fmt.Sprintf(args[0].S), Dep: dep}, true
		}
	case "unicode.IsSpace":
		if allKnown && args[0].K == KInt && args[0].I.IsInt64() {
			return Val{K: KBool, B: unicode.IsSpace(rune(args[0].I.Int64())), Dep: dep}, true
		}
	case "unicode.IsLetter", "unicode.IsDigit", "unicode.IsUpper", "unicode.IsLower":
		if allKnown && args[0].K == KInt && args[0].I.IsInt64() {
			c := rune(args[0].I.Int64())
			var b bool
			switch fn.Name() {
			case "IsLetter":
				b = unicode.IsLetter(c)
			case "IsDigit":
				b = unicode.IsDigit(c)
			case "IsUpper":
				b = unicode.IsUpper(c)
			case "IsLower":
				b = unicode.IsLower(c)
			}
			return Val{K: KBool, B: b, Dep: dep}, true
		}
	case "strings.ContainsRune":
		if allKnown && args[0].K == KStr && args[1].K == KInt && args[1].I.IsInt64() {
			return Val{K: KBool, B: strings.ContainsRune(args[0].S, rune(args[1].I.Int64())), Dep: dep}, true
		}
	case "strings.ToUpper":
		if allKnown && args[0].K == KStr {
			return strVal(strings.ToUpper(args[0].S)), true
		}
	case "strings.ToLower":
		if allKnown && args[0].K == KStr {
			return strVal(strings.ToLower(args[0].S)), true
		}
	case "strings.HasSuffix", "strings.Contains", "strings.ContainsAny", "strings.EqualFold":
		if allKnown && args[0].K == KStr && args[1].K == KStr {
			var b bool
			switch fn.Name() {
			case "HasSuffix":
				b = strings.HasSuffix(args[0].S, args[1].S)
			case "Contains":
				b = strings.Contains(args[0].S, args[1].S)
			case "ContainsAny":
				b = strings.ContainsAny(args[0].S, args[1].S)
			case "EqualFold":
				b = strings.EqualFold(args[0].S, args[1].S)
			}
			return Val{K: KBool, B: b, Dep: dep}, true
		}
	case "strings.Index", "strings.LastIndex", "strings.IndexAny", "strings.Count":
		if allKnown && args[0].K == KStr && args[1].K == KStr {
			var n int
			switch fn.Name() {
			case "Index":
				n = strings.Index(args[0].S, args[1].S)
			case "LastIndex":
				n = strings.LastIndex(args[0].S, args[1].S)
			case "IndexAny":
				n = strings.IndexAny(args[0].S, args[1].S)
			case "Count":
				n = strings.Count(args[0].S, args[1].S)
			}
			return Val{K: KInt, I: big.NewInt(int64(n)), Dep: dep}, true
		}
	case "strings.IndexByte", "strings.IndexRune", "strings.LastIndexByte":
		if allKnown && args[0].K == KStr && args[1].K == KInt && args[1].I.IsInt64() {
			var n int
			switch fn.Name() {
			case "IndexByte":
				n = strings.IndexByte(args[0].S, byte(args[1].I.Int64()))
			case "LastIndexByte":
				n = strings.LastIndexByte(args[0].S, byte(args[1].I.Int64()))
			default:
				n = strings.IndexRune(args[0].S, rune(args[1].I.Int64()))
			}
			return Val{K: KInt, I: big.NewInt(int64(n)), Dep: dep}, true
		}
	case "strings.TrimSpace":
		if allKnown && args[0].K == KStr {
			return Val{K: KStr, S: strings.TrimSpace(args[0].S), Dep: dep}, true
		}
	case "strings.TrimRight", "strings.TrimLeft", "strings.Trim", "strings.TrimPrefix", "strings.TrimSuffix":
		if allKnown && args[0].K == KStr && args[1].K == KStr {
			var t string
			switch fn.Name() {
			case "TrimRight":
				t = strings.TrimRight(args[0].S, args[1].S)
			case "TrimLeft":
				t = strings.TrimLeft(args[0].S, args[1].S)
			case "Trim":
				t = strings.Trim(args[0].S, args[1].S)
			case "TrimPrefix":
				t = strings.TrimPrefix(args[0].S, args[1].S)
			case "TrimSuffix":
				t = strings.TrimSuffix(args[0].S, args[1].S)
			}
			return Val{K: KStr, S: t, Dep: dep}, true
		}
	case "strings.Repeat":
		if allKnown && args[0].K == KStr && args[1].K == KInt && args[1].I.IsInt64() && args[1].I.Int64() >= 0 && args[1].I.Int64()*int64(len(args[0].S)) <= 4096 {
			return Val{K: KStr, S: strings.Repeat(args[0].S, int(args[1].I.Int64())), Dep: dep}, true
		}
	case "strings.Split", "strings.SplitN", "strings.Fields", "strings.SplitAfter":
		if !allKnown || args[0].K != KStr {
			return Val{}, false
		}
		var parts []string
		switch fn.Name() {
		case "Fields":
			parts = strings.Fields(args[0].S)
		case "Split":
			if args[1].K != KStr {
				return Val{}, false
			}
			parts = strings.Split(args[0].S, args[1].S)
		case "SplitAfter":
			if args[1].K != KStr {
				return Val{}, false
			}
			parts = strings.SplitAfter(args[0].S, args[1].S)
		case "SplitN":
			if args[1].K != KStr || args[2].K != KInt || !args[2].I.IsInt64() {
				return Val{}, false
			}
			parts = strings.SplitN(args[0].S, args[1].S, int(args[2].I.Int64()))
		}
		if parts == nil {
			return Val{K: KNil}, true
		}
		if len(parts) > 256 {
			return Val{}, false
		}
		base := fmt.Sprintf("strings.%s#%q", fn.Name(), args[0].S)
		if len(args) > 1 {
			base += "/" + args[1].String()
		}
		if len(args) > 2 {
			base += "/" + args[2].String()
		}
		fr.allocate(base)
		for i, part := range parts {
			fr.store(Val{K: KPtr, S: fmt.Sprintf("%s[%d]", base, i)}, Val{K: KStr, S: part, Dep: dep}, nil)
		}
		return Val{K: KSlice, S: base, Len: len(parts), Dep: dep}, true
	case "strings.Join":
		if args[1].K == KStr {
			if elems, ok := fr.sliceElems(args[0], types.Typ[types.String]); ok {
				parts := make([]string, len(elems))
				d := dep
				for i, e := range elems {
					if e.K != KStr {
						return topDep(dep || e.Dep), true
					}
					parts[i] = e.S
					d = d || e.Dep
				}
				return Val{K: KStr, S: strings.Join(parts, args[1].S), Dep: d}, true
			}
		}
	case "unicode/utf8.DecodeRuneInString", "unicode/utf8.DecodeLastRuneInString":
		if allKnown && args[0].K == KStr {
			var c rune
			var w int
			if fn.Name() == "DecodeRuneInString" {
				c, w = utf8.DecodeRuneInString(args[0].S)
			} else {
				c, w = utf8.DecodeLastRuneInString(args[0].S)
			}
			return Val{K: KTuple, Elems: []Val{{K: KInt, I: big.NewInt(int64(c)), Dep: dep}, {K: KInt, I: big.NewInt(int64(w)), Dep: dep}}}, true
		}
		return Val{K: KTuple, Elems: []Val{topDep(dep), topDep(dep)}}, true
	case "unicode/utf8.RuneCountInString":
		if allKnown && args[0].K == KStr {
			return Val{K: KInt, I: big.NewInt(int64(utf8.RuneCountInString(args[0].S))), Dep: dep}, true
		}
	case "unicode/utf8.RuneLen":
		if allKnown && args[0].K == KInt && args[0].I.IsInt64() {
			return Val{K: KInt, I: big.NewInt(int64(utf8.RuneLen(rune(args[0].I.Int64())))), Dep: dep}, true
		}
	case "unicode.ToUpper", "unicode.ToLower":
		if allKnown && args[0].K == KInt && args[0].I.IsInt64() {
			c := rune(args[0].I.Int64())
			if fn.Name() == "ToUpper" {
				c = unicode.ToUpper(c)
			} else {
				c = unicode.ToLower(c)
			}
			return Val{K: KInt, I: big.NewInt(int64(c)), Dep: dep}, true
		}
	case "strconv.Atoi", "strconv.ParseInt", "strconv.ParseUint", "strconv.ParseFloat", "strconv.ParseBool":
		if !allKnown || args[0].K != KStr {
			return Val{}, false // unknown text: the call stays a named unknown
		}
		iarg := func(i int) (int, bool) {
			if i < len(args) && args[i].K == KInt && args[i].I.IsInt64() {
				return int(args[i].I.Int64()), true
			}
			return 0, false
		}
		var res Val
		var err error
		switch fn.Name() {
		case "Atoi":
			var n int64
			n, err = strconv.ParseInt(args[0].S, 10, 64) // int is 64 bits on the assumed platform
			res = int64Val(n)
		case "ParseInt":
			base, ok1 := iarg(1)
			bits, ok2 := iarg(2)
			if !ok1 || !ok2 {
				return Val{}, false
			}
			var n int64
			n, err = strconv.ParseInt(args[0].S, base, bits)
			res = int64Val(n)
		case "ParseUint":
			base, ok1 := iarg(1)
			bits, ok2 := iarg(2)
			if !ok1 || !ok2 {
				return Val{}, false
			}
			var n uint64
			n, err = strconv.ParseUint(args[0].S, base, bits)
			res = Val{K: KInt, I: new(big.Int).SetUint64(n)}
		case "ParseFloat":
			bits, ok := iarg(1)
			if !ok {
				return Val{}, false
			}
			var f float64
			f, err = strconv.ParseFloat(args[0].S, bits)
			res = floatVal(f)
		case "ParseBool":
			var b bool
			b, err = strconv.ParseBool(args[0].S)
			res = boolVal(b)
		}
		res.Dep = dep
		ev := Val{K: KNil}
		if err != nil {
			ne, isNum := err.(*strconv.NumError)
			nt := fr.in.Prog.namedType("strconv", "NumError")
			st := fr.in.Prog.namedType("errors", "errorString")
			if !isNum || nt == nil || st == nil || (ne.Err != strconv.ErrRange && ne.Err != strconv.ErrSyntax) {
				return Val{K: KTuple, Elems: []Val{res, topDep(dep)}}, true
			}
			cause := "g:strconv.ErrSyntax"
			if ne.Err == strconv.ErrRange {
				cause = "g:strconv.ErrRange"
			}
			obj := fmt.Sprintf("strconv.NumError#%s:%q", fn.Name(), args[0].S)
			fr.allocate(obj)
			inner := Val{K: KPtr, S: cause + "!"}
			fr.store(Val{K: KPtr, S: obj + ".Err"}, Val{K: KIface, T: types.NewPointer(st), Inner: &inner}, nil)
			fr.store(Val{K: KPtr, S: obj + ".Func"}, strVal(ne.Func), nil)
			fr.store(Val{K: KPtr, S: obj + ".Num"}, strVal(ne.Num), nil)
			op := Val{K: KPtr, S: obj}
			ev = Val{K: KIface, T: types.NewPointer(nt), Inner: &op, Dep: dep}
		}
		return Val{K: KTuple, Elems: []Val{res, ev}}, true
	case "math/bits.Len", "math/bits.Len8", "math/bits.Len16", "math/bits.Len32", "math/bits.Len64",
		"math/bits.LeadingZeros", "math/bits.LeadingZeros8", "math/bits.LeadingZeros16", "math/bits.LeadingZeros32", "math/bits.LeadingZeros64",
		"math/bits.TrailingZeros", "math/bits.TrailingZeros8", "math/bits.TrailingZeros16", "math/bits.TrailingZeros32", "math/bits.TrailingZeros64",
		"math/bits.OnesCount", "math/bits.OnesCount8", "math/bits.OnesCount16", "math/bits.OnesCount32", "math/bits.OnesCount64":
		if allKnown && args[0].K == KInt && args[0].I.Sign() >= 0 && args[0].I.IsUint64() {
			x := args[0].I.Uint64()
			width := 64
			for _, w := range []int{8, 16, 32} {
				if strings.HasSuffix(fn.Name(), strconv.Itoa(w)) {
					width = w
				}
			}
			var n int
			switch {
			case strings.HasPrefix(fn.Name(), "LeadingZeros"):
				n = width - bits.Len64(x)
			case strings.HasPrefix(fn.Name(), "Len"):
				n = bits.Len64(x)
			case strings.HasPrefix(fn.Name(), "TrailingZeros"):
				n = bits.TrailingZeros64(x)
				if x == 0 {
					n = width
				}
			default:
				n = bits.OnesCount64(x)
			}
			return Val{K: KInt, I: big.NewInt(int64(n)), Dep: dep}, true
		}
	case "strconv.Itoa":
		if allKnown && args[0].K == KInt {
			return Val{K: KStr, S: args[0].I.String(), Dep: dep}, true
		}
	case "strconv.FormatInt", "strconv.FormatUint":
		if allKnown && args[0].K == KInt && args[1].K == KInt && args[1].I.IsInt64() && args[1].I.Int64() >= 2 && args[1].I.Int64() <= 36 {
			return Val{K: KStr, S: args[0].I.Text(int(args[1].I.Int64())), Dep: dep}, true
		}
	case "strconv.FormatBool":
		if allKnown && args[0].K == KBool {
			return Val{K: KStr, S: strconv.FormatBool(args[0].B), Dep: dep}, true
		}
	case "strconv.FormatFloat":
		if allKnown && args[0].K == KFloat && args[1].K == KInt && args[2].K == KInt && args[3].K == KInt && args[1].I.IsInt64() && args[2].I.IsInt64() && args[3].I.IsInt64() {
			bits := int(args[3].I.Int64())
			if bits == 32 || bits == 64 {
				return Val{K: KStr, S: strconv.FormatFloat(args[0].F, byte(args[1].I.Int64()), int(args[2].I.Int64()), bits), Dep: dep}, true
			}
		}
	case "strconv.Quote":
		if allKnown && args[0].K == KStr {
			return Val{K: KStr, S: strconv.Quote(args[0].S), Dep: dep}, true
		}
	case "fmt.Sprint", "fmt.Sprintln":
		if v, ok := fr.sprint(args[0], fn.Name() == "Sprintln"); ok {
			return v, true
		}
	default:
		return Val{}, false
	}
	return topDep(dep), true
}

// convertSeq handles the conversions between strings and modelled byte or
// rune slices: string(s) of a slice whose elements are known, []byte(str) and
// []rune(str) of a known string.
func (fr *frame) convertSeq(x *ssa.Convert, v Val) (Val, bool) {
	elemOf := func(t types.Type) *types.Basic {
		if sl, ok := t.Underlying().(*types.Slice); ok {
			if b, ok := sl.Elem().Underlying().(*types.Basic); ok && (b.Kind() == types.Uint8 || b.Kind() == types.Int32) {
				return b
			}
		}
		return nil
	}
	if isStringType(x.Type()) {
		b := elemOf(x.X.Type())
		if b == nil || v.K != KSlice || !strings.Contains(v.S, "#") || v.Len < 0 || v.Len > 4096 {
			if b != nil && v.K == KNil {
				return strVal(""), true
			}
			return Val{}, false
		}
		var sb strings.Builder
		dep := v.Dep
		for i := 0; i < v.Len; i++ {
			e := fr.load(fmt.Sprintf("%s[%d]", v.S, v.Off+i), b)
			if e.K != KInt || !e.I.IsInt64() {
				return topDep(true), true
			}
			dep = dep || e.Dep
			if b.Kind() == types.Uint8 {
				sb.WriteByte(byte(e.I.Int64()))
			} else {
				sb.WriteRune(rune(e.I.Int64()))
			}
		}
		return Val{K: KStr, S: sb.String(), Dep: dep}, true
	}
	if b := elemOf(x.Type()); b != nil && isStringType(x.X.Type()) && v.K == KStr && len(v.S) <= 256 {
		base := fr.siteName(x)
		fr.allocate(base)
		n := 0
		if b.Kind() == types.Uint8 {
			for i := 0; i < len(v.S); i++ {
				fr.store(Val{K: KPtr, S: fmt.Sprintf("%s[%d]", base, n)}, Val{K: KInt, I: big.NewInt(int64(v.S[i])), Dep: v.Dep}, nil)
				n++
			}
		} else {
			for _, c := range v.S {
				fr.store(Val{K: KPtr, S: fmt.Sprintf("%s[%d]", base, n)}, Val{K: KInt, I: big.NewInt(int64(c)), Dep: v.Dep}, nil)
				n++
			}
		}
		return Val{K: KSlice, S: base, Len: n, Dep: v.Dep}, true
	}
	return Val{}, false
}

// typeAtSuffix: the type of the component of t named by a leaf suffix such as
// ".variable.name" or "[2].x".
func typeAtSuffix(t types.Type, suffix string) types.Type {
	for suffix != "" {
		switch u := t.Underlying().(type) {
		case *types.Struct:
			if suffix[0] != '.' {
				return nil
			}
			rest := suffix[1:]
			end := len(rest)
			for i := 0; i < len(rest); i++ {
				if rest[i] == '.' || rest[i] == '[' {
					end = i
					break
				}
			}
			name := rest[:end]
			ft := fieldTypeThroughEmbedded(u, name, 0)
			if ft == nil {
				return nil
			}
			t, suffix = ft, rest[end:]
		case *types.Array:
			i := strings.Index(suffix, "]")
			if suffix[0] != '[' || i < 0 {
				return nil
			}
			t, suffix = u.Elem(), suffix[i+1:]
		default:
			return nil
		}
	}
	return t
}

// fieldSuffix names field i of a struct in memory paths. A struct embedded by
// value is transparent: its fields are named as the promoted fields they are
// (p.pos, whether pos is declared in the parser or in an embedded cursor), so
// that moving fields into an embedded helper struct does not rename memory.
func fieldSuffix(st *types.Struct, i int) string {
	f := st.Field(i)
	if f.Embedded() {
		if _, isStruct := f.Type().Underlying().(*types.Struct); isStruct {
			if _, isPtr := f.Type().(*types.Pointer); !isPtr && !shadowed(st, i) {
				return ""
			}
		}
	}
	return "." + f.Name()
}

// shadowed: a field of the embedded struct has the name of a field of the
// outer struct (the paths would collide).
func shadowed(st *types.Struct, i int) bool {
	inner, _ := st.Field(i).Type().Underlying().(*types.Struct)
	if inner == nil {
		return false
	}
	for j := 0; j < st.NumFields(); j++ {
		if j == i {
			continue
		}
		for k := 0; k < inner.NumFields(); k++ {
			if inner.Field(k).Name() == st.Field(j).Name() {
				return true
			}
		}
		// two embedded structs with a common field name
		if other, _ := st.Field(j).Type().Underlying().(*types.Struct); other != nil && st.Field(j).Embedded() {
			for k := 0; k < inner.NumFields(); k++ {
				for l := 0; l < other.NumFields(); l++ {
					if inner.Field(k).Name() == other.Field(l).Name() {
						return true
					}
				}
			}
		}
	}
	return false
}

func fieldTypeThroughEmbedded(u *types.Struct, name string, depth int) types.Type {
	for i := 0; i < u.NumFields(); i++ {
		if u.Field(i).Name() == name && fieldSuffix(u, i) != "" {
			return u.Field(i).Type()
		}
	}
	if depth > 3 {
		return nil
	}
	for i := 0; i < u.NumFields(); i++ {
		if fieldSuffix(u, i) == "" {
			if inner, ok := u.Field(i).Type().Underlying().(*types.Struct); ok {
				if t := fieldTypeThroughEmbedded(inner, name, depth+1); t != nil {
					return t
				}
			}
		}
	}
	return nil
}
