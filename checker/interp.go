package main

// Three-valued abstract evaluation of go/ssa functions.
//
// This is the engine behind every "what does this guard refuse" question. A
// query binds a few SSA values (the subjects: a parameter, a receiver field,
// a loop element, a length) to concrete constants and leaves everything else
// unknown. The function's control-flow graph is then explored: a branch whose
// condition evaluates to a constant follows one edge, an unknown condition
// follows both. Nothing of the library is executed; the result says which
// returns, panics and instructions are reachable for SOME value of the
// unknowns. Run over one representative per cell of the arrangement cut out by
// the constants a function compares its subject with, this gives the exact
// denotation of the function's guards on that subject (see denote.go).
//
// Memory is modelled as far as the immutable-object idiom needs it: fresh
// allocations are named by their allocation site, a field or constant-index
// element of a fresh object holds the join of the values stored to it (or the
// zero value when nothing is stored), everything else is unknown. Calls to
// module functions are evaluated recursively (bounded depth); calls that leave
// the module are unknown except for a short list of pure functions.

import (
	"fmt"
	"go/constant"
	"go/token"
	"go/types"
	"math"
	"math/big"
	"os"
	"sort"
	"strings"
	"unicode"

	"golang.org/x/tools/go/ssa"
)

type Kind int

const (
	KBot   Kind = iota // no value yet (unreached)
	KTop               // unknown
	KInt               // integer constant (mathematical value, already wrapped to its type)
	KFloat             // float64 (or float32 rounded) constant
	KBool
	KStr
	KPtr   // address of a modelled memory cell: path
	KSlice // slice over modelled memory: path of backing store, Len if known (-1)
	KIface // interface holding a value of known dynamic type
	KNil
	KTuple
	KFunc // known function value
	KSym  // unknown value with a name: a term over parameters and unmodified input memory
)

type Val struct {
	K     Kind
	I     *big.Int
	F     float64
	B     bool
	S     string // KStr: the string; KPtr/KSlice: memory path
	Len   int    // KSlice: length, -1 unknown; KStr n/a
	Off   int    // KSlice: index of element 0 within the backing store named by S
	T     types.Type
	Inner *Val
	Elems []Val
	Fn    *ssa.Function
	Dep   bool // (KTop) derived from a bound subject through something the evaluator cannot follow
}

var top = Val{K: KTop}

func topDep(dep bool) Val { return Val{K: KTop, Dep: dep} }
func intVal(i *big.Int) Val {
	return Val{K: KInt, I: i}
}
func int64Val(i int64) Val   { return Val{K: KInt, I: big.NewInt(i)} }
func boolVal(b bool) Val     { return Val{K: KBool, B: b} }
func strVal(s string) Val    { return Val{K: KStr, S: s} }
func floatVal(f float64) Val { return Val{K: KFloat, F: f} }

func (v Val) known() bool { return v.K != KTop && v.K != KBot && v.K != KSym }

func symVal(term string, dep bool) Val { return Val{K: KSym, S: term, Dep: dep} }

// termOf renders a value as a term; ok is false for unknown values.
func termOf(v Val) (string, bool) {
	switch v.K {
	case KSym:
		return v.S, true
	case KInt, KBool, KStr, KFloat:
		return v.String(), true
	}
	return "", false
}

func (v Val) String() string {
	switch v.K {
	case KBot:
		return "⊥"
	case KTop:
		if v.Dep {
			return "⊤(subject)"
		}
		return "⊤"
	case KInt:
		return v.I.String()
	case KFloat:
		return fmt.Sprint(v.F)
	case KBool:
		return fmt.Sprint(v.B)
	case KStr:
		return fmt.Sprintf("%q", v.S)
	case KPtr:
		return "&" + v.S
	case KSlice:
		return fmt.Sprintf("%s[:%d]", v.S, v.Len)
	case KIface:
		return fmt.Sprintf("iface(%s:%s)", v.T, v.Inner)
	case KNil:
		return "nil"
	case KTuple:
		var s []string
		for _, e := range v.Elems {
			s = append(s, e.String())
		}
		return "(" + strings.Join(s, ", ") + ")"
	case KFunc:
		return "func " + v.Fn.String()
	case KSym:
		return v.S
	}
	return "?"
}

func equalVal(a, b Val) bool {
	if a.K != b.K {
		return false
	}
	switch a.K {
	case KInt:
		return a.I.Cmp(b.I) == 0
	case KFloat:
		return a.F == b.F || (a.F != a.F && b.F != b.F)
	case KBool:
		return a.B == b.B
	case KStr, KSym:
		return a.S == b.S
	case KPtr:
		return a.S == b.S
	case KSlice:
		return a.S == b.S && a.Len == b.Len && a.Off == b.Off
	case KIface:
		return types.Identical(a.T, b.T) && equalVal(*a.Inner, *b.Inner)
	case KTuple:
		if len(a.Elems) != len(b.Elems) {
			return false
		}
		for i := range a.Elems {
			if !equalVal(a.Elems[i], b.Elems[i]) {
				return false
			}
		}
		return true
	case KFunc:
		return a.Fn == b.Fn
	case KTop:
		return a.Dep == b.Dep
	}
	return true
}

func join(a, b Val) Val {
	if a.K == KBot {
		return b
	}
	if b.K == KBot {
		return a
	}
	if a.K == KTop || b.K == KTop {
		return topDep(a.Dep || b.Dep)
	}
	if equalVal(a, b) {
		if b.Dep {
			a.Dep = true
		}
		return a
	}
	if a.K == KSlice && b.K == KSlice && a.S == b.S && a.Off == b.Off {
		return Val{K: KSlice, S: a.S, Len: -1, Off: a.Off}
	}
	if a.K == KIface && b.K == KIface && types.Identical(a.T, b.T) {
		inner := join(*a.Inner, *b.Inner)
		return Val{K: KIface, T: a.T, Inner: &inner, Dep: a.Dep || b.Dep}
	}
	if a.K == KTuple && b.K == KTuple && len(a.Elems) == len(b.Elems) {
		out := Val{K: KTuple, Elems: make([]Val, len(a.Elems))}
		for i := range a.Elems {
			out.Elems[i] = join(a.Elems[i], b.Elems[i])
		}
		return out
	}
	return topDep(a.Dep || b.Dep)
}

// ---------------------------------------------------------------------------

// Interp holds what is shared by one query: bindings, heap, limits.
type Interp struct {
	Prog *Prog
	// Bind lets a query give selected SSA values a constant. It is consulted
	// before anything else, in the queried function and in every callee.
	Bind func(v ssa.Value, fr *frame) (Val, bool)
	// PathBind gives memory paths a value ("p0.stream", "len(p0.values)").
	PathBind map[string]Val
	heap     map[string]Val
	// finalHeap holds what the final pass over the fixpoint stored; the rules
	// read results from it (HeapAt, Elem).
	finalHeap map[string]Val
	heapGen   int
	// steps counts block evaluations over the whole query; beyond maxSteps
	// every activation gives up (unknown result) and the query is marked
	// stuck, so that a non-converging evaluation ends as "undecided".
	steps      int
	maxSteps   int
	overBudget bool
	depth      int
	stack      []*ssa.Function
	// OpaqueSubject is set when a branch condition was unknown because of a
	// subject-derived value the evaluator could not follow.
	OpaqueSubject bool
	OpaqueAt      []string
	// Symbolic makes unbound parameters and unmodified input memory evaluate
	// to named terms instead of plain unknowns.
	Symbolic bool
	// Stuck lists branch conditions that never received a value (analysis bug
	// or unsupported construct): any verdict based on this run is undecided.
	Stuck []string
	// collect is set during the extra pass after the top-level fixpoint: only
	// then are ReachedAny and OnCall fed, so that they describe the fixpoint and
	// not the transient states on the way to it.
	collect bool
	// OnCall observes every call whose callee is known, with argument values.
	OnCall func(call *ssa.Call, callee *ssa.Function, args []Val, fr *frame)
	// OnAppend observes every append (final pass only): the call, the appended
	// slice value and, when its length is known, its elements.
	OnAppend func(call *ssa.Call, appended Val, elems []Val, fr *frame)
	// CutSink receives every integer constant a subject-derived value is compared with.
	CutSink func(c *big.Int)
	Sizes   types.Sizes
	// ReachedAny records every instruction reached in any frame (incl. callees).
	ReachedAny map[ssa.Instruction]bool
}

func NewInterp(p *Prog) *Interp {
	return &Interp{Prog: p, PathBind: map[string]Val{}, heap: map[string]Val{}, maxSteps: 400000,
		Sizes: types.SizesFor("gc", "amd64"), ReachedAny: map[ssa.Instruction]bool{}}
}

type edge struct{ from, to *ssa.BasicBlock }

type frame struct {
	in     *Interp
	fn     *ssa.Function
	args   []Val
	start  *ssa.BasicBlock
	blocks map[*ssa.BasicBlock]bool
	edges  map[edge]bool
	vals   map[ssa.Value]Val // lattice values of instructions in visited blocks (persist over rounds)
	memo   map[ssa.Value]Val // on-demand values of everything else (per round)
	outer  map[ssa.Value]Val // values from a previous whole-function run (region queries)
	must   map[ssa.Instruction]bool
	// results (per round; the last round is the fixpoint)
	returns       map[*ssa.Return][]Val
	panics        map[ssa.Instruction]bool // Panic instrs, must-panic calls, failing assertions reached
	mayPanicCalls map[*ssa.Call]bool
	reentered     bool
	reached       map[ssa.Instruction]bool
	changed       bool
}

// Outcome is the result of evaluating one function activation.
type Outcome struct {
	CanReturn bool
	CanPanic  bool
	Ret       []Val // joined results over reachable returns
	Frame     *frame
}

// Run evaluates fn from start (nil = entry) with the given argument values
// (nil entries / short slice = unknown).
func (in *Interp) Run(fn *ssa.Function, args []Val, start *ssa.BasicBlock) Outcome {
	return in.RunOuter(fn, args, start, nil)
}

// RunOuter is Run with fallback values for instructions outside the visited
// region (taken from a previous whole-function run).
func (in *Interp) RunOuter(fn *ssa.Function, args []Val, start *ssa.BasicBlock, outer map[ssa.Value]Val) Outcome {
	if fn.Blocks == nil {
		return Outcome{CanReturn: true, CanPanic: false, Ret: nil}
	}
	for _, f := range in.stack {
		if f == fn {
			return Outcome{CanReturn: true, CanPanic: true}
		}
	}
	if in.depth > 8 {
		return Outcome{CanReturn: true, CanPanic: true}
	}
	if in.steps > in.maxSteps {
		if !in.overBudget {
			in.overBudget = true
			in.Stuck = append(in.Stuck, "evaluation budget exhausted in "+FnName(fn))
		}
		return Outcome{CanReturn: true, CanPanic: true}
	}
	in.depth++
	in.stack = append(in.stack, fn)
	defer func() { in.depth--; in.stack = in.stack[:len(in.stack)-1] }()

	if start == nil {
		start = fn.Blocks[0]
	}
	fr := &frame{in: in, fn: fn, args: args, start: start, outer: outer,
		blocks: map[*ssa.BasicBlock]bool{start: true}, edges: map[edge]bool{},
		vals: map[ssa.Value]Val{}}
	// The fixpoint is computed with the observers off; one more pass over the
	// fixpoint then feeds them (ReachedAny, OnCall, the final heap), so that
	// they describe the fixpoint and not the transient states on the way.
	observing := in.collect || in.depth == 1
	in.collect = false
	pass := func() {
		in.steps += len(fr.blocks)
		fr.memo = map[ssa.Value]Val{}
		fr.must = map[ssa.Instruction]bool{}
		fr.returns = map[*ssa.Return][]Val{}
		fr.panics = map[ssa.Instruction]bool{}
		fr.mayPanicCalls = map[*ssa.Call]bool{}
		fr.reached = map[ssa.Instruction]bool{}
		for _, b := range fn.Blocks {
			if fr.blocks[b] {
				fr.evalBlock(b)
			}
		}
	}
	for round := 0; round < 200; round++ {
		fr.changed = false
		gen := in.heapGen
		pass()
		if os.Getenv("SC_TRACE") != "" {
			fmt.Fprintf(os.Stderr, "round %d of %s: changed=%v blocks=%d edges=%d\n", round, fn.Name(), fr.changed, len(fr.blocks), len(fr.edges))
			for _, b := range fn.Blocks {
				for _, i := range b.Instrs {
					if v, ok := i.(ssa.Value); ok {
						fmt.Fprintf(os.Stderr, "   b%d %s = %s\n", b.Index, v.Name(), fr.vals[v])
					}
				}
			}
		}
		if !fr.changed && gen == in.heapGen {
			break
		}
		if in.steps > in.maxSteps {
			if !in.overBudget {
				in.overBudget = true
				in.Stuck = append(in.Stuck, "evaluation budget exhausted in "+FnName(fn))
			}
			break
		}
		if round == 199 {
			in.Stuck = append(in.Stuck, "no fixpoint in "+FnName(fn))
		}
	}
	if observing {
		if in.depth == 1 {
			in.ReachedAny = map[ssa.Instruction]bool{}
			in.finalHeap = map[string]Val{}
		}
		in.collect = true
		pass()
		for i := range fr.reached {
			in.ReachedAny[i] = true
		}
		in.collect = in.depth > 1
	}
	out := Outcome{Frame: fr}
	// a branch whose condition never left bottom would silently cut off its
	// successors; report it so that callers fail instead of trusting the cut
	for b := range fr.blocks {
		if len(b.Instrs) == 0 {
			continue
		}
		if iff, ok := b.Instrs[len(b.Instrs)-1].(*ssa.If); ok && fr.reached[iff] {
			if fr.eval(iff.Cond).K == KBot {
				in.Stuck = append(in.Stuck, in.Prog.Pos(iff.Cond.Pos()))
			}
		}
	}
	out.CanPanic = len(fr.panics) > 0 || len(fr.mayPanicCalls) > 0
	var rets []*ssa.Return
	for r := range fr.returns {
		rets = append(rets, r)
	}
	sort.Slice(rets, func(i, j int) bool { return rets[i].Pos() < rets[j].Pos() })
	for _, r := range rets {
		vals := fr.returns[r]
		out.CanReturn = true
		if out.Ret == nil {
			out.Ret = append([]Val{}, vals...)
		} else {
			for i := range vals {
				out.Ret[i] = join(out.Ret[i], vals[i])
			}
		}
	}
	return out
}

// Vals exposes the fixpoint values of a frame (for region queries).
func (fr *frame) Vals() map[ssa.Value]Val { return fr.vals }

func (fr *frame) addEdge(from, to *ssa.BasicBlock) {
	e := edge{from, to}
	if !fr.edges[e] {
		fr.edges[e] = true
		fr.changed = true
	}
	if to == fr.start {
		fr.reentered = true
	}
	if !fr.blocks[to] {
		fr.blocks[to] = true
		fr.changed = true
	}
}

// setVal records the value recomputed from the current operand values.
// Operands only move up the lattice from round to round (phis join over a
// growing edge set), so recomputation converges; the round cap in Run turns a
// non-converging evaluation into an undecided verdict.
func (fr *frame) setVal(v ssa.Value, nv Val) {
	old, had := fr.vals[v]
	if !had || old.K != nv.K || !equalVal(old, nv) || old.Dep != nv.Dep {
		fr.vals[v] = nv
		fr.changed = true
	}
}

func (fr *frame) evalBlock(b *ssa.BasicBlock) {
	for _, instr := range b.Instrs {
		fr.reached[instr] = true
		if v, ok := instr.(ssa.Value); ok {
			if _, bound := fr.bound(v); !bound {
				fr.setVal(v, fr.eval1(v))
			}
		}
		switch i := instr.(type) {
		case *ssa.Store:
			fr.store(fr.eval(i.Addr), fr.eval(i.Val))
		case *ssa.MapUpdate:
			m, k := fr.eval(i.Map), fr.eval(i.Key)
			if m.K == KPtr && strings.Contains(m.S, "#") {
				if k.K == KStr || k.K == KInt {
					fr.store(Val{K: KPtr, S: m.S + "[" + k.String() + "]"}, fr.eval(i.Value))
				} else if k.K != KBot {
					fr.store(Val{K: KPtr, S: m.S + "[*]"}, fr.eval(i.Value))
				}
			}
		case *ssa.Call:
			if fr.must[i] {
				fr.panics[i] = true
				return
			}
		case *ssa.TypeAssert:
			if fr.must[i] {
				fr.panics[i] = true
				return
			}
		case *ssa.If:
			c := fr.eval(i.Cond)
			switch {
			case c.K == KBool && c.B:
				fr.addEdge(b, b.Succs[0])
			case c.K == KBool && !c.B:
				fr.addEdge(b, b.Succs[1])
			case c.K == KBot:
				// condition not yet computable (operands unreached): wait
			default:
				if c.K == KTop && c.Dep {
					fr.in.OpaqueSubject = true
					fr.in.OpaqueAt = append(fr.in.OpaqueAt, fr.in.Prog.Pos(i.Cond.Pos()))
				}
				fr.addEdge(b, b.Succs[0])
				fr.addEdge(b, b.Succs[1])
			}
			return
		case *ssa.Jump:
			fr.addEdge(b, b.Succs[0])
			return
		case *ssa.Return:
			vals := make([]Val, len(i.Results))
			for k, r := range i.Results {
				vals[k] = fr.eval(r)
			}
			fr.returns[i] = vals
			return
		case *ssa.Panic:
			fr.panics[i] = true
			return
		}
	}
}

func (fr *frame) bound(v ssa.Value) (Val, bool) {
	if fr.in.Bind != nil {
		return fr.in.Bind(v, fr)
	}
	return Val{}, false
}

// ---------------------------------------------------------------------------
// value evaluation

// eval returns the current lattice value of v.
func (fr *frame) eval(v ssa.Value) Val {
	if b, ok := fr.bound(v); ok {
		return b
	}
	if instr, ok := v.(ssa.Instruction); ok && instr.Block() != nil && fr.blocks[instr.Block()] && instr.Parent() == fr.fn {
		return fr.vals[v] // KBot until its block has been processed
	}
	if fr.outer != nil {
		if o, ok := fr.outer[v]; ok && o.K != KBot {
			return o
		}
	}
	if m, ok := fr.memo[v]; ok {
		return m
	}
	fr.memo[v] = top // cycle guard for on-demand evaluation
	r := fr.eval1(v)
	fr.memo[v] = r
	return r
}

func (fr *frame) eval1(v ssa.Value) Val {
	switch x := v.(type) {
	case *ssa.Const:
		return constVal(x)
	case *ssa.Parameter:
		for i, p := range fr.fn.Params {
			if p == x && i < len(fr.args) && fr.args[i].K != KBot && fr.args[i].K != KTop {
				return fr.args[i]
			}
		}
		if fr.in.Symbolic {
			return symVal(x.Name(), false)
		}
		return top
	case *ssa.Function:
		return Val{K: KFunc, Fn: x}
	case *ssa.Phi:
		b := x.Block()
		if !fr.blocks[b] {
			return top
		}
		res := Val{K: KBot}
		for i, pred := range b.Preds {
			if fr.edges[edge{pred, b}] {
				res = join(res, fr.eval(x.Edges[i]))
			}
		}
		if fr.start != fr.fn.Blocks[0] {
			// region query: edges from outside the region are not tracked
			if fr.outer != nil {
				if o, ok := fr.outer[x]; ok {
					return join(res, o)
				}
			}
			if b == fr.start {
				return top
			}
		}
		return res
	case *ssa.BinOp:
		return fr.binop(x)
	case *ssa.UnOp:
		return fr.unop(x)
	case *ssa.Convert:
		return convertVal(fr.eval(x.X), x.X.Type(), x.Type(), fr.in.Sizes)
	case *ssa.ChangeType:
		return fr.eval(x.X)
	case *ssa.ChangeInterface:
		return fr.eval(x.X)
	case *ssa.MakeInterface:
		inner := fr.eval(x.X)
		if inner.K == KBot {
			return inner
		}
		return Val{K: KIface, T: x.X.Type(), Inner: &inner, Dep: inner.Dep}
	case *ssa.TypeAssert:
		return fr.typeAssert(x)
	case *ssa.Extract:
		t := fr.eval(x.Tuple)
		if t.K == KTuple && x.Index < len(t.Elems) {
			return t.Elems[x.Index]
		}
		if t.K == KBot {
			return t
		}
		return topDep(t.Dep)
	case *ssa.Alloc:
		return Val{K: KPtr, S: allocName(x)}
	case *ssa.MakeSlice:
		n := fr.eval(x.Len)
		l := -1
		if n.K == KInt && n.I.IsInt64() && n.I.Int64() >= 0 && n.I.Int64() < 1<<20 {
			l = int(n.I.Int64())
		}
		return Val{K: KSlice, S: allocName(x), Len: l}
	case *ssa.MakeMap:
		return Val{K: KPtr, S: allocName(x)}
	case *ssa.MakeClosure:
		if f, ok := x.Fn.(*ssa.Function); ok {
			return Val{K: KFunc, Fn: f}
		}
		return top
	case *ssa.MakeChan:
		return top
	case *ssa.FieldAddr:
		base := fr.eval(x.X)
		if base.K == KPtr {
			st := derefStruct(x.X.Type())
			if st != nil {
				return Val{K: KPtr, S: base.S + "." + st.Field(x.Field).Name()}
			}
		}
		if base.K == KBot {
			return base
		}
		return topDep(base.Dep)
	case *ssa.Field:
		base := fr.eval(x.X)
		if base.K == KBot {
			return base
		}
		return topDep(base.Dep)
	case *ssa.IndexAddr:
		base := fr.eval(x.X)
		idx := fr.eval(x.Index)
		if base.K == KPtr || base.K == KSlice {
			if idx.K == KInt && idx.I.IsInt64() {
				return Val{K: KPtr, S: fmt.Sprintf("%s[%d]", base.S, idx.I.Int64()+int64(base.Off))}
			}
			return Val{K: KPtr, S: base.S + "[*]"}
		}
		if base.K == KBot {
			return base
		}
		return topDep(base.Dep || idx.Dep)
	case *ssa.Index:
		base := fr.eval(x.X)
		idx := fr.eval(x.Index)
		if base.K == KStr && idx.K == KInt && idx.I.IsInt64() {
			i := idx.I.Int64()
			if i >= 0 && int(i) < len(base.S) {
				return int64Val(int64(base.S[i]))
			}
		}
		return topDep(base.Dep || idx.Dep)
	case *ssa.Slice:
		return fr.slice(x)
	case *ssa.Lookup:
		m := fr.eval(x.X)
		k := fr.eval(x.Index)
		if m.K == KBot || k.K == KBot {
			return Val{K: KBot}
		}
		if m.K == KStr && k.K == KInt && k.I.IsInt64() {
			i := k.I.Int64()
			if i >= 0 && int(i) < len(m.S) {
				return Val{K: KInt, I: big.NewInt(int64(m.S[i])), Dep: m.Dep || k.Dep}
			}
		}
		if m.K == KPtr && strings.Contains(m.S, "#") && (k.K == KStr || k.K == KInt) {
			mt, _ := x.X.Type().Underlying().(*types.Map)
			if mt != nil {
				path := m.S + "[" + k.String() + "]"
				_, present := fr.in.heap[path]
				_, wild := fr.in.heap[m.S+"[*]"]
				v := fr.load(path, mt.Elem())
				if k.Dep {
					v.Dep = true
				}
				if x.CommaOk {
					okv := top
					if !present && !wild {
						okv = boolVal(false)
					}
					return Val{K: KTuple, Elems: []Val{v, okv}}
				}
				return v
			}
		}
		d := topDep(m.Dep || k.Dep)
		if x.CommaOk {
			return Val{K: KTuple, Elems: []Val{d, d}}
		}
		return d
	case *ssa.Call:
		return fr.call(x)
	case *ssa.Range:
		return fr.eval(x.X)
	case *ssa.Next:
		it := fr.eval(x.Iter)
		if x.IsString && it.K == KStr && it.S == "" {
			return Val{K: KTuple, Elems: []Val{boolVal(false), top, top}}
		}
		if it.K == KBot {
			return it
		}
		d := topDep(it.Dep)
		return Val{K: KTuple, Elems: []Val{d, d, d}}
	case *ssa.Select:
		return top
	case *ssa.Global, *ssa.FreeVar, *ssa.Builtin:
		return top
	}
	return top
}

func allocName(v ssa.Value) string {
	fn := v.Parent()
	return fmt.Sprintf("%s#%s", FnName(fn), v.Name())
}

func derefStruct(t types.Type) *types.Struct {
	if p, ok := t.Underlying().(*types.Pointer); ok {
		if s, ok := p.Elem().Underlying().(*types.Struct); ok {
			return s
		}
	}
	return nil
}

func constVal(c *ssa.Const) Val {
	if c.Value == nil {
		// zero value of non-basic type or nil
		switch c.Type().Underlying().(type) {
		case *types.Pointer, *types.Slice, *types.Map, *types.Chan, *types.Interface, *types.Signature:
			return Val{K: KNil}
		}
		return top
	}
	switch c.Value.Kind() {
	case constant.Bool:
		return boolVal(constant.BoolVal(c.Value))
	case constant.String:
		return strVal(constant.StringVal(c.Value))
	case constant.Int:
		if isFloatType(c.Type()) {
			f, _ := constant.Float64Val(c.Value)
			return floatVal(f)
		}
		i, ok := new(big.Int).SetString(c.Value.ExactString(), 10)
		if !ok {
			return top
		}
		return intVal(i)
	case constant.Float:
		if isIntType(c.Type()) {
			if iv := constant.ToInt(c.Value); iv.Kind() == constant.Int {
				i, ok := new(big.Int).SetString(iv.ExactString(), 10)
				if ok {
					return intVal(i)
				}
			}
			return top
		}
		f, _ := constant.Float64Val(c.Value)
		if b, ok := c.Type().Underlying().(*types.Basic); ok && b.Kind() == types.Float32 {
			f = float64(float32(f))
		}
		return floatVal(f)
	}
	return top
}

func isIntType(t types.Type) bool {
	b, ok := t.Underlying().(*types.Basic)
	return ok && b.Info()&types.IsInteger != 0
}
func isFloatType(t types.Type) bool {
	b, ok := t.Underlying().(*types.Basic)
	return ok && b.Info()&types.IsFloat != 0
}
func isStringType(t types.Type) bool {
	b, ok := t.Underlying().(*types.Basic)
	return ok && b.Info()&types.IsString != 0
}

// intRange returns bit size and signedness of an integer type on amd64.
func intRange(t types.Type, sizes types.Sizes) (bits int, signed bool, ok bool) {
	b, isb := t.Underlying().(*types.Basic)
	if !isb || b.Info()&types.IsInteger == 0 {
		return 0, false, false
	}
	if b.Info()&types.IsUntyped != 0 {
		return 0, true, false
	}
	bits = int(sizes.Sizeof(t)) * 8
	return bits, b.Info()&types.IsUnsigned == 0, true
}

// TypeBounds returns the min and max mathematical values of an integer type.
func TypeBounds(t types.Type, sizes types.Sizes) (*big.Int, *big.Int, bool) {
	bits, signed, ok := intRange(t, sizes)
	if !ok {
		return nil, nil, false
	}
	one := big.NewInt(1)
	if signed {
		max := new(big.Int).Sub(new(big.Int).Lsh(one, uint(bits-1)), one)
		min := new(big.Int).Neg(new(big.Int).Lsh(one, uint(bits-1)))
		return min, max, true
	}
	max := new(big.Int).Sub(new(big.Int).Lsh(one, uint(bits)), one)
	return big.NewInt(0), max, true
}

// wrap reduces a mathematical integer to the value a Go variable of type t holds.
func wrap(i *big.Int, t types.Type, sizes types.Sizes) *big.Int {
	bits, signed, ok := intRange(t, sizes)
	if !ok {
		return i
	}
	mod := new(big.Int).Lsh(big.NewInt(1), uint(bits))
	r := new(big.Int).Mod(i, mod) // Mod is Euclidean: 0 <= r < mod
	if signed {
		half := new(big.Int).Lsh(big.NewInt(1), uint(bits-1))
		if r.Cmp(half) >= 0 {
			r.Sub(r, mod)
		}
	}
	return r
}

func convertVal(v Val, from, to types.Type, sizes types.Sizes) Val {
	r := convertVal0(v, from, to, sizes)
	if v.Dep {
		r.Dep = true
	}
	return r
}

func convertVal0(v Val, from, to types.Type, sizes types.Sizes) Val {
	switch v.K {
	case KSym:
		return symVal(types.TypeString(to, nil)+"("+v.S+")", v.Dep)
	case KBot:
		return v
	case KTop:
		return v
	case KInt:
		if isIntType(to) {
			return intVal(wrap(v.I, to, sizes))
		}
		if isFloatType(to) {
			f, _ := new(big.Float).SetInt(v.I).Float64()
			if b, ok := to.Underlying().(*types.Basic); ok && b.Kind() == types.Float32 {
				f = float64(float32(f))
			}
			return floatVal(f)
		}
		if isStringType(to) {
			if v.I.IsInt64() {
				return strVal(string(rune(v.I.Int64())))
			}
		}
	case KFloat:
		if isFloatType(to) {
			f := v.F
			if b, ok := to.Underlying().(*types.Basic); ok && b.Kind() == types.Float32 {
				f = float64(float32(f))
			}
			return floatVal(f)
		}
		if isIntType(to) {
			if v.F != v.F || math.IsInf(v.F, 0) {
				return topDep(true)
			}
			bi, _ := big.NewFloat(math.Trunc(v.F)).Int(nil)
			return intVal(wrap(bi, to, sizes))
		}
	case KStr:
		if isStringType(to) {
			return v
		}
	case KSlice:
		if isStringType(to) && !strings.Contains(v.S, "#") {
			if v.Len >= 0 {
				return symVal(fmt.Sprintf("string(%s[%d:%d])", v.S, v.Off, v.Off+v.Len), v.Dep)
			}
			return symVal(fmt.Sprintf("string(%s[%d:?])", v.S, v.Off), v.Dep)
		}
	}
	return topDep(v.Dep)
}

func (fr *frame) unop(x *ssa.UnOp) Val {
	a := fr.eval(x.X)
	switch x.Op {
	case token.MUL: // load
		if a.K == KPtr {
			return fr.load(a.S, x.Type())
		}
		if a.K == KBot {
			return a
		}
		return topDep(a.Dep)
	case token.NOT:
		if a.K == KBool {
			return Val{K: KBool, B: !a.B, Dep: a.Dep}
		}
	case token.SUB:
		if a.K == KInt {
			return Val{K: KInt, I: wrap(new(big.Int).Neg(a.I), x.Type(), fr.in.Sizes), Dep: a.Dep}
		}
		if a.K == KFloat {
			return Val{K: KFloat, F: -a.F, Dep: a.Dep}
		}
	case token.XOR:
		if a.K == KInt {
			return Val{K: KInt, I: wrap(new(big.Int).Not(a.I), x.Type(), fr.in.Sizes), Dep: a.Dep}
		}
	case token.ARROW:
		return top
	}
	if a.K == KBot {
		return a
	}
	return topDep(a.Dep)
}

func cmpResult(op token.Token, c int) bool {
	switch op {
	case token.EQL:
		return c == 0
	case token.NEQ:
		return c != 0
	case token.LSS:
		return c < 0
	case token.LEQ:
		return c <= 0
	case token.GTR:
		return c > 0
	case token.GEQ:
		return c >= 0
	}
	return false
}

func (fr *frame) binop(x *ssa.BinOp) Val {
	a, b := fr.eval(x.X), fr.eval(x.Y)
	if a.K == KBot || b.K == KBot {
		return Val{K: KBot}
	}
	dep := a.Dep || b.Dep
	switch x.Op {
	case token.EQL, token.NEQ, token.LSS, token.LEQ, token.GTR, token.GEQ:
		bv := func(t bool) Val { return Val{K: KBool, B: t, Dep: dep} }
		if a.K == KInt && b.K == KInt && fr.in.CutSink != nil && a.Dep != b.Dep {
			if a.Dep {
				fr.in.CutSink(b.I)
			} else {
				fr.in.CutSink(a.I)
			}
		}
		switch {
		case a.K == KInt && b.K == KInt:
			return bv(cmpResult(x.Op, a.I.Cmp(b.I)))
		case a.K == KFloat && b.K == KFloat:
			if a.F != a.F || b.F != b.F { // NaN
				return bv(x.Op == token.NEQ)
			}
			c := 0
			if a.F < b.F {
				c = -1
			} else if a.F > b.F {
				c = 1
			}
			return bv(cmpResult(x.Op, c))
		case a.K == KStr && b.K == KStr:
			return bv(cmpResult(x.Op, strings.Compare(a.S, b.S)))
		case a.K == KBool && b.K == KBool && (x.Op == token.EQL || x.Op == token.NEQ):
			return bv((a.B == b.B) == (x.Op == token.EQL))
		case a.K == KNil && b.K == KNil:
			return bv(x.Op == token.EQL)
		case (a.K == KNil && (b.K == KPtr || b.K == KSlice && b.Len > 0 || b.K == KIface || b.K == KFunc)) ||
			(b.K == KNil && (a.K == KPtr || a.K == KSlice && a.Len > 0 || a.K == KIface || a.K == KFunc)):
			if x.Op == token.EQL || x.Op == token.NEQ {
				return bv(x.Op == token.NEQ)
			}
		}
		if fr.in.Symbolic && (a.K == KSym || b.K == KSym) {
			ta, oka := termOf(a)
			tb, okb := termOf(b)
			if oka && okb && len(ta)+len(tb) < 400 {
				return symVal("("+ta+x.Op.String()+tb+")", dep)
			}
		}
		return topDep(dep)
	}
	if a.K == KSym || b.K == KSym {
		ta, oka := termOf(a)
		tb, okb := termOf(b)
		if oka && okb && len(ta)+len(tb) < 400 {
			return symVal("("+ta+x.Op.String()+tb+")", dep)
		}
		return topDep(dep)
	}
	if a.K == KStr && b.K == KStr && x.Op == token.ADD {
		return Val{K: KStr, S: a.S + b.S, Dep: dep}
	}
	if a.K == KFloat && b.K == KFloat {
		var f float64
		switch x.Op {
		case token.ADD:
			f = a.F + b.F
		case token.SUB:
			f = a.F - b.F
		case token.MUL:
			f = a.F * b.F
		case token.QUO:
			f = a.F / b.F
		default:
			return topDep(true)
		}
		if bt, ok := x.Type().Underlying().(*types.Basic); ok && bt.Kind() == types.Float32 {
			f = float64(float32(f))
		}
		return Val{K: KFloat, F: f, Dep: dep}
	}
	if a.K == KInt && b.K == KInt {
		r := new(big.Int)
		switch x.Op {
		case token.ADD:
			r.Add(a.I, b.I)
		case token.SUB:
			r.Sub(a.I, b.I)
		case token.MUL:
			r.Mul(a.I, b.I)
		case token.QUO:
			if b.I.Sign() == 0 {
				return topDep(true)
			}
			r.Quo(a.I, b.I) // truncated, like Go
		case token.REM:
			if b.I.Sign() == 0 {
				return topDep(true)
			}
			r.Rem(a.I, b.I) // truncated, like Go
		case token.AND:
			r.And(a.I, b.I)
		case token.OR:
			r.Or(a.I, b.I)
		case token.XOR:
			r.Xor(a.I, b.I)
		case token.AND_NOT:
			r.AndNot(a.I, b.I)
		case token.SHL:
			if b.I.Sign() < 0 || !b.I.IsInt64() {
				return topDep(true)
			}
			s := b.I.Int64()
			if s > 256 {
				s = 256
			}
			r.Lsh(a.I, uint(s))
		case token.SHR:
			if b.I.Sign() < 0 || !b.I.IsInt64() {
				return topDep(true)
			}
			s := b.I.Int64()
			if s > 256 {
				s = 256
			}
			r.Rsh(a.I, uint(s)) // arithmetic for negative: big.Int Rsh rounds toward -inf, as Go
		default:
			return topDep(true)
		}
		return Val{K: KInt, I: wrap(r, x.Type(), fr.in.Sizes), Dep: dep}
	}
	return topDep(dep)
}

func (fr *frame) typeAssert(x *ssa.TypeAssert) Val {
	v := fr.eval(x.X)
	if v.K == KBot {
		return v
	}
	if v.K == KSym || (v.K == KPtr && !strings.Contains(v.S, "#")) {
		// an input interface value: name the asserted view
		name := v.S + ".(" + types.TypeString(x.AssertedType, func(*types.Package) string { return "" }) + ")"
		var res Val
		if _, isPtr := x.AssertedType.Underlying().(*types.Pointer); isPtr {
			res = Val{K: KPtr, S: "(*" + name + ")"}
		} else {
			res = symVal(name, v.Dep)
		}
		if x.CommaOk {
			return Val{K: KTuple, Elems: []Val{res, topDep(v.Dep)}}
		}
		return res
	}
	if v.K != KIface {
		if v.K == KNil {
			if x.CommaOk {
				return Val{K: KTuple, Elems: []Val{top, boolVal(false)}}
			}
			fr.must[x] = true
			return Val{K: KBot}
		}
		d := topDep(v.Dep)
		if x.CommaOk {
			return Val{K: KTuple, Elems: []Val{d, d}}
		}
		return d
	}
	ok := false
	if types.IsInterface(x.AssertedType) {
		ok = types.Implements(v.T, x.AssertedType.Underlying().(*types.Interface))
	} else {
		ok = types.Identical(v.T, x.AssertedType)
	}
	var res Val
	if ok {
		if types.IsInterface(x.AssertedType) {
			res = v
		} else {
			res = *v.Inner
		}
	} else {
		res = top
	}
	if x.CommaOk {
		return Val{K: KTuple, Elems: []Val{res, boolVal(ok)}}
	}
	if !ok {
		fr.must[x] = true // the assertion panics
		return Val{K: KBot}
	}
	return res
}

func (fr *frame) slice(x *ssa.Slice) Val {
	base := fr.eval(x.X)
	if base.K == KBot {
		return base
	}
	lowV, highV := int64Val(0), top
	if x.Low != nil {
		lowV = fr.eval(x.Low)
	}
	if x.High != nil {
		highV = fr.eval(x.High)
	}
	switch base.K {
	case KStr:
		if x.High == nil {
			highV = int64Val(int64(len(base.S)))
		}
		if lowV.K == KInt && highV.K == KInt && lowV.I.IsInt64() && highV.I.IsInt64() {
			l, h := lowV.I.Int64(), highV.I.Int64()
			if 0 <= l && l <= h && int(h) <= len(base.S) {
				return strVal(base.S[l:h])
			}
		}
		return topDep(true)
	case KPtr, KSlice: // pointer to array, or slice
		n := -1
		off := 0
		if base.K == KSlice {
			n = base.Len
			off = base.Off
		} else if p, ok := x.X.Type().Underlying().(*types.Pointer); ok {
			if arr, ok := p.Elem().Underlying().(*types.Array); ok {
				n = int(arr.Len())
			}
		}
		if x.High == nil && n >= 0 {
			highV = int64Val(int64(n))
		}
		l := -1
		if lowV.K == KInt && highV.K == KInt && lowV.I.IsInt64() && highV.I.IsInt64() {
			l = int(highV.I.Int64() - lowV.I.Int64())
			if l < 0 {
				l = -1
			}
		}
		if lowV.K == KInt && lowV.I.IsInt64() && lowV.I.Int64() >= 0 && lowV.I.Int64() < 1<<20 {
			return Val{K: KSlice, S: base.S, Len: l, Off: off + int(lowV.I.Int64())}
		}
		return Val{K: KSlice, S: base.S + "[+]", Len: l}
	}
	return topDep(base.Dep || lowV.Dep || highV.Dep)
}

// ---------------------------------------------------------------------------
// memory

func (fr *frame) store(addr, v Val) {
	if addr.K != KPtr || v.K == KBot {
		return
	}
	in := fr.in
	old, ok := in.heap[addr.S]
	nv := v
	if ok {
		nv = join(old, v)
	}
	if !ok || !equalVal(old, nv) {
		in.heap[addr.S] = nv
		in.heapGen++
	}
	if in.collect && in.finalHeap != nil {
		if f, ok := in.finalHeap[addr.S]; ok {
			in.finalHeap[addr.S] = join(f, v)
		} else {
			in.finalHeap[addr.S] = v
		}
	}
}

func zeroVal(t types.Type) Val {
	switch u := t.Underlying().(type) {
	case *types.Basic:
		switch {
		case u.Info()&types.IsInteger != 0:
			return int64Val(0)
		case u.Info()&types.IsFloat != 0:
			return floatVal(0)
		case u.Info()&types.IsBoolean != 0:
			return boolVal(false)
		case u.Info()&types.IsString != 0:
			return strVal("")
		}
	case *types.Pointer, *types.Slice, *types.Map, *types.Chan, *types.Interface, *types.Signature:
		return Val{K: KNil}
	}
	return top
}

func (fr *frame) load(path string, t types.Type) Val {
	in := fr.in
	if b, ok := in.PathBind[path]; ok {
		return b
	}
	// only memory rooted at a fresh allocation is modelled
	fresh := strings.Contains(path, "#")
	if !fresh {
		if _, isMap := t.Underlying().(*types.Map); isMap {
			return Val{K: KPtr, S: path}
		}
		if !in.Symbolic {
			return top
		}
		// input memory: a named term as long as nothing in the analysed code stores to it
		for k := range in.heap {
			if k == path || strings.HasPrefix(path, k+".") || strings.HasPrefix(path, k+"[") || strings.HasPrefix(k, path+".") || strings.HasPrefix(k, path+"[") {
				return top
			}
			if i := strings.LastIndex(path, "["); i >= 0 && strings.HasPrefix(k, path[:i]+"[") {
				return top
			}
		}
		switch t.Underlying().(type) {
		case *types.Slice:
			return Val{K: KSlice, S: path, Len: -1}
		case *types.Pointer:
			return Val{K: KPtr, S: "(*" + path + ")"}
		case *types.Basic, *types.Interface:
			return symVal(path, false)
		case *types.Map:
			return Val{K: KPtr, S: path}
		}
		return top
	}
	res := Val{K: KBot}
	if v, ok := in.heap[path]; ok {
		res = join(res, v)
	}
	// a store of a whole aggregate (struct, array) to an enclosing cell also
	// defines this component; aggregates are not modelled, so it is unknown
	for i := len(path) - 1; i > 0; i-- {
		if path[i] == '.' || path[i] == '[' {
			if _, ok := in.heap[path[:i]]; ok && strings.Contains(path[:i], "#") {
				res = join(res, top)
			}
		}
	}
	// a store through an unknown index may alias any constant index
	if i := strings.LastIndex(path, "["); i >= 0 && strings.HasSuffix(path, "]") {
		if v, ok := in.heap[path[:i]+"[*]"]; ok {
			res = join(res, v)
			_ = v
		}
		if path[i:] == "[*]" {
			// loading an unknown element: join of everything stored under the base
			prefix := path[:i] + "["
			any := false
			for k, v := range in.heap {
				if strings.HasPrefix(k, prefix) && !strings.Contains(k[len(prefix):], ".") && strings.Count(k[len(prefix):], "[") == 0 {
					res = join(res, v)
					any = true
				}
			}
			_ = any
			res = join(res, zeroVal(t))
			return res
		}
	}
	if res.K == KBot {
		return zeroVal(t)
	}
	return res
}

// ---------------------------------------------------------------------------
// calls

func (fr *frame) call(c *ssa.Call) Val {
	com := c.Common()
	nres := com.Signature().Results().Len()
	unknown := func(dep bool) Val {
		if nres > 1 {
			el := make([]Val, nres)
			for i := range el {
				el[i] = topDep(dep)
			}
			return Val{K: KTuple, Elems: el}
		}
		return topDep(dep)
	}
	args := make([]Val, len(com.Args))
	dep := false
	for i, a := range com.Args {
		args[i] = fr.eval(a)
		dep = dep || args[i].Dep
		if args[i].K == KBot {
			return Val{K: KBot}
		}
	}
	if b, ok := com.Value.(*ssa.Builtin); ok {
		return fr.builtin(b.Name(), c, args)
	}
	var callee *ssa.Function
	if com.IsInvoke() {
		recv := fr.eval(com.Value)
		if recv.K == KIface {
			sel := fr.in.Prog.SSA.MethodSets.MethodSet(recv.T).Lookup(com.Method.Pkg(), com.Method.Name())
			if sel != nil {
				callee = fr.in.Prog.SSA.MethodValue(sel)
				args = append([]Val{*recv.Inner}, args...)
			}
		}
		dep = dep || recv.Dep
	} else {
		callee = com.StaticCallee()
		if callee == nil {
			fv := fr.eval(com.Value)
			if fv.K == KFunc {
				callee = fv.Fn
			}
		}
	}
	named := func(name string) Val {
		if !fr.in.Symbolic {
			return unknown(dep)
		}
		var parts []string
		for ai, a := range args {
			switch a.K {
			case KSlice:
				if a.Len >= 0 {
					parts = append(parts, fmt.Sprintf("%s[%d:%d]", a.S, a.Off, a.Off+a.Len))
				} else {
					parts = append(parts, fmt.Sprintf("%s[%d:]", a.S, a.Off))
				}
			case KPtr:
				parts = append(parts, "&"+a.S)
			default:
				t, ok := termOf(a)
				if !ok {
					if ai == 0 && callee != nil && callee.Signature.Recv() != nil {
						continue // receiver of an external method (e.g. binary.BigEndian)
					}
					return unknown(dep)
				}
				parts = append(parts, t)
			}
		}
		term := name + "(" + strings.Join(parts, ",") + ")"
		mk := func(t types.Type, suffix string) Val {
			switch t.Underlying().(type) {
			case *types.Slice:
				return Val{K: KSlice, S: term + suffix, Len: -1}
			case *types.Basic, *types.Interface:
				return symVal(term+suffix, dep)
			}
			return topDep(dep)
		}
		res := com.Signature().Results()
		if nres == 1 {
			return mk(res.At(0).Type(), "")
		}
		el := make([]Val, nres)
		for i := range el {
			el[i] = mk(res.At(i).Type(), fmt.Sprintf("#%d", i))
		}
		return Val{K: KTuple, Elems: el}
	}
	if callee != nil && fr.in.OnCall != nil && fr.in.collect {
		fr.in.OnCall(c, callee, args, fr)
	}
	if callee == nil {
		if com.IsInvoke() {
			recv := fr.eval(com.Value)
			if t, ok := termOf(recv); ok {
				return named(t + "." + com.Method.Name())
			}
		}
		return unknown(dep)
	}
	if v, ok := fr.pureCall(callee, args); ok {
		return v
	}
	if !InModule(callee) || callee.Blocks == nil {
		return named(callee.Name())
	}
	out := fr.in.Run(callee, args, nil)
	if !out.CanReturn {
		fr.must[c] = true
		return Val{K: KBot}
	}
	if out.CanPanic {
		fr.mayPanicCalls[c] = true
	}
	if nres == 0 {
		return top
	}
	if len(out.Ret) != nres {
		return unknown(dep) // recursion or depth cut-off: nothing known about the results
	}
	if nres == 1 {
		return out.Ret[0]
	}
	return Val{K: KTuple, Elems: out.Ret}
}

func (fr *frame) builtin(name string, c *ssa.Call, args []Val) Val {
	switch name {
	case "len":
		a := args[0]
		switch a.K {
		case KStr:
			return int64Val(int64(len(a.S)))
		case KSlice:
			if v, ok := fr.in.PathBind["len("+a.S+")"]; ok {
				return v
			}
			if a.Len >= 0 {
				return int64Val(int64(a.Len))
			}
			if fr.in.Symbolic && a.Off == 0 {
				return symVal("len("+a.S+")", a.Dep)
			}
			if fr.in.Symbolic {
				return symVal(fmt.Sprintf("(len(%s)-%d)", a.S, a.Off), a.Dep)
			}
		case KNil:
			return int64Val(0)
		case KSym:
			return symVal("len("+a.S+")", a.Dep)
		case KPtr:
			if v, ok := fr.in.PathBind["len("+a.S+")"]; ok {
				return v
			}
			if fr.in.Symbolic && !strings.Contains(a.S, "#") {
				return symVal("len("+a.S+")", a.Dep)
			}
		}
		return topDep(a.Dep)
	case "append":
		if len(args) != 2 {
			return Val{K: KSlice, S: allocName(c), Len: -1}
		}
		a0, a1 := args[0], args[1]
		if fr.in.OnAppend != nil && fr.in.collect {
			var elems []Val
			if a1.K == KSlice && a1.Len >= 0 && a1.Len <= 64 {
				et := types.Type(types.Typ[types.Invalid])
				if st, ok := c.Type().Underlying().(*types.Slice); ok {
					et = st.Elem()
				}
				for i := 0; i < a1.Len; i++ {
					elems = append(elems, fr.load(fmt.Sprintf("%s[%d]", a1.S, a1.Off+i), et))
				}
			}
			fr.in.OnAppend(c, a1, elems, fr)
		}
		base := a0.S
		if a0.K != KSlice || !strings.Contains(a0.S, "#") {
			base = allocName(c)
			if a0.K == KNil {
				a0 = Val{K: KSlice, S: base, Len: 0}
			} else {
				a0 = Val{K: KSlice, S: base, Len: -1}
			}
		}
		elemT := types.Type(types.Typ[types.Invalid])
		if st, ok := c.Type().Underlying().(*types.Slice); ok {
			elemT = st.Elem()
		}
		switch {
		case a1.K == KSlice && a1.Len >= 0 && a1.Len <= 64 && a0.Len >= 0:
			for i := 0; i < a1.Len; i++ {
				fr.store(Val{K: KPtr, S: fmt.Sprintf("%s[%d]", base, a0.Off+a0.Len+i)}, fr.load(fmt.Sprintf("%s[%d]", a1.S, a1.Off+i), elemT))
			}
			return Val{K: KSlice, S: base, Len: a0.Len + a1.Len, Off: a0.Off}
		case a1.K == KSlice:
			n := a1.Len
			if n < 0 || n > 64 {
				n = -1
			}
			if n >= 0 {
				for i := 0; i < n; i++ {
					fr.store(Val{K: KPtr, S: base + "[*]"}, fr.load(fmt.Sprintf("%s[%d]", a1.S, a1.Off+i), elemT))
				}
			} else {
				fr.store(Val{K: KPtr, S: base + "[*]"}, fr.load(a1.S+"[*]", elemT))
			}
			return Val{K: KSlice, S: base, Len: -1, Off: a0.Off}
		case a1.K == KNil:
			return a0
		}
		fr.store(Val{K: KPtr, S: base + "[*]"}, top)
		return Val{K: KSlice, S: base, Len: -1}
	case "cap":
		return top
	case "copy":
		// dst[i] = src[i]; with unknown extents every element of dst may change
		if len(args) == 2 && args[0].K == KSlice {
			dst, src := args[0], args[1]
			et := types.Type(types.Typ[types.Invalid])
			if st, ok := c.Call.Args[0].Type().Underlying().(*types.Slice); ok {
				et = st.Elem()
			}
			n := -1
			if dst.Len >= 0 && src.K == KSlice && src.Len >= 0 {
				n = dst.Len
				if src.Len < n {
					n = src.Len
				}
			}
			if n >= 0 && n <= 64 && src.K == KSlice {
				for i := 0; i < n; i++ {
					fr.store(Val{K: KPtr, S: fmt.Sprintf("%s[%d]", dst.S, dst.Off+i)}, fr.load(fmt.Sprintf("%s[%d]", src.S, src.Off+i), et))
				}
			} else if src.K == KSlice {
				fr.store(Val{K: KPtr, S: dst.S + "[*]"}, fr.load(src.S+"[*]", et))
			} else {
				fr.store(Val{K: KPtr, S: dst.S + "[*]"}, top)
			}
		}
		return top
	}
	return top
}

// pureCall evaluates a few side-effect free standard-library functions.
func (fr *frame) pureCall(fn *ssa.Function, args []Val) (Val, bool) {
	if fn.Pkg == nil {
		return Val{}, false
	}
	name := fn.Pkg.Pkg.Path() + "." + fn.Name()
	allKnown := true
	dep := false
	for _, a := range args {
		if !a.known() {
			allKnown = false
		}
		dep = dep || a.Dep
	}
	switch name {
	case "math.IsInf":
		if allKnown && args[0].K == KFloat && args[1].K == KInt {
			return boolVal(math.IsInf(args[0].F, int(args[1].I.Int64()))), true
		}
	case "math.IsNaN":
		if allKnown && args[0].K == KFloat {
			return boolVal(math.IsNaN(args[0].F)), true
		}
	case "math.Abs":
		if allKnown && args[0].K == KFloat {
			return floatVal(math.Abs(args[0].F)), true
		}
	case "strings.HasPrefix":
		if allKnown && args[0].K == KStr && args[1].K == KStr {
			return boolVal(strings.HasPrefix(args[0].S, args[1].S)), true
		}
	case "fmt.Sprintf":
		if len(args) == 2 && args[0].K == KStr && args[1].K == KSlice && args[1].Len >= 0 && args[1].Len <= 4 {
			var goArgs []interface{}
			d := dep
			for i := 0; i < args[1].Len; i++ {
				e := fr.load(fmt.Sprintf("%s[%d]", args[1].S, args[1].Off+i), types.NewInterfaceType(nil, nil))
				if e.K != KIface {
					return topDep(true), true
				}
				d = d || e.Dep || e.Inner.Dep
				switch e.Inner.K {
				case KInt:
					goArgs = append(goArgs, e.Inner.I)
				case KStr:
					goArgs = append(goArgs, e.Inner.S)
				case KBool:
					goArgs = append(goArgs, e.Inner.B)
				default:
					return topDep(true), true
				}
			}
			return Val{K: KStr, S: fmt.Sprintf(args[0].S, goArgs...), Dep: d}, true
		}
		if len(args) == 2 && args[0].K == KStr && args[1].K == KNil {
			return Val{K: KStr, S: fmt.Sprintf(args[0].S), Dep: dep}, true
		}
	case "unicode.IsSpace":
		if allKnown && args[0].K == KInt && args[0].I.IsInt64() {
			return Val{K: KBool, B: unicode.IsSpace(rune(args[0].I.Int64())), Dep: dep}, true
		}
	case "unicode.IsLetter", "unicode.IsDigit", "unicode.IsUpper", "unicode.IsLower":
		if allKnown && args[0].K == KInt && args[0].I.IsInt64() {
			c := rune(args[0].I.Int64())
			var b bool
			switch fn.Name() {
			case "IsLetter":
				b = unicode.IsLetter(c)
			case "IsDigit":
				b = unicode.IsDigit(c)
			case "IsUpper":
				b = unicode.IsUpper(c)
			case "IsLower":
				b = unicode.IsLower(c)
			}
			return Val{K: KBool, B: b, Dep: dep}, true
		}
	case "strings.ContainsRune":
		if allKnown && args[0].K == KStr && args[1].K == KInt && args[1].I.IsInt64() {
			return Val{K: KBool, B: strings.ContainsRune(args[0].S, rune(args[1].I.Int64())), Dep: dep}, true
		}
	case "strings.ToUpper":
		if allKnown && args[0].K == KStr {
			return strVal(strings.ToUpper(args[0].S)), true
		}
	default:
		return Val{}, false
	}
	return topDep(dep), true
}

// HeapAt returns what the analysed code stored at a memory path.
func (in *Interp) HeapAt(path string) (Val, bool) {
	if in.finalHeap != nil {
		v, ok := in.finalHeap[path]
		return v, ok
	}
	v, ok := in.heap[path]
	return v, ok
}

// FinalHeap returns the memory as the fixpoint left it.
func (in *Interp) FinalHeap() map[string]Val {
	if in.finalHeap != nil {
		return in.finalHeap
	}
	return in.heap
}

// Elem reads element i of a modelled slice after a run (join of all stores to
// that index and to unknown indices; zero value if never stored).
func (in *Interp) Elem(s Val, i int, t types.Type) Val {
	fr := &frame{in: in}
	if in.finalHeap != nil {
		save := in.heap
		in.heap = in.finalHeap
		defer func() { in.heap = save }()
	}
	return fr.load(fmt.Sprintf("%s[%d]", s.S, s.Off+i), t)
}

// ValueOf returns the fixpoint value of v in this activation.
func (fr *frame) ValueOf(v ssa.Value) Val {
	fr.memo = map[ssa.Value]Val{}
	return fr.eval(v)
}

// ReturnVals lists the values of every reachable return, in source order.
func (fr *frame) ReturnVals() [][]Val {
	var rets []*ssa.Return
	for r := range fr.returns {
		rets = append(rets, r)
	}
	sort.Slice(rets, func(i, j int) bool { return rets[i].Pos() < rets[j].Pos() })
	var out [][]Val
	for _, r := range rets {
		out = append(out, fr.returns[r])
	}
	return out
}

// Reached reports whether instr was reached in the final round.
func (fr *frame) Reached(instr ssa.Instruction) bool { return fr.reached[instr] }

// ResetHeap forgets everything stored so far.
func (in *Interp) ResetHeap() {
	in.heap = map[string]Val{}
	in.finalHeap = nil
	in.heapGen++
}
