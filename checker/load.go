package main

import (
	"fmt"
	"go/ast"
	"go/token"
	"go/types"
	"os"
	"sort"
	"strings"
	"sync"

	"golang.org/x/tools/go/callgraph"
	"golang.org/x/tools/go/callgraph/cha"
	"golang.org/x/tools/go/callgraph/vta"
	"golang.org/x/tools/go/packages"
	"golang.org/x/tools/go/ssa"
	"golang.org/x/tools/go/ssa/ssautil"
)

const modPath = "github.com/wolimst/lib-secs2-hsms-go"

// Prog is the resolved program every rule works on: syntax trees, type
// information, SSA form and call graphs of the three library packages.
type Prog struct {
	Dir   string
	Fset  *token.FileSet
	Pkgs  map[string]*packages.Package // by short name: ast, hsms, sml
	SSA   *ssa.Program
	SPkgs map[string]*ssa.Package
	Funcs []*ssa.Function // all source functions of the module incl. anonymous, sorted
	VTA   *callgraph.Graph
	CHA   *callgraph.Graph
	CG    *callgraph.Graph // the graph rules should use (VTA for quick, CHA for the conservative pass)

	// statistics for the evidence file
	NFiles, NFuncs, NEdges int

	roGlobals sync.Map // *ssa.Global -> [2]string{"y"/"n", reason}
	initOnce  sync.Once
	initHeap  map[string]Val
	initReady bool
}

// Load loads and type-checks the module found at dir. overlay maps absolute
// file names to replacement contents (used by the seeded-variant self test).
// Any load or type error is returned: a tree that cannot be analysed fails.
func Load(dir string, overlay map[string][]byte) (*Prog, error) {
	os.Unsetenv("GOWORK")
	cfg := &packages.Config{
		Mode:    packages.LoadSyntax,
		Dir:     dir,
		Tests:   false,
		Overlay: overlay,
		Env: append(os.Environ(), "GOFLAGS=-mod=mod", "GOPROXY=off", "GOSUMDB=off",
			"GOTOOLCHAIN=local", "GOWORK=off", "CGO_ENABLED=0"),
	}
	pkgs, err := packages.Load(cfg, "./...")
	if err != nil {
		return nil, fmt.Errorf("load: %v", err)
	}
	p := &Prog{Dir: dir, Pkgs: map[string]*packages.Package{}, SPkgs: map[string]*ssa.Package{}}
	var lib []*packages.Package
	for _, pkg := range pkgs {
		for _, e := range pkg.Errors {
			return nil, fmt.Errorf("package %s: %v", pkg.PkgPath, e)
		}
		if pkg.IllTyped {
			return nil, fmt.Errorf("package %s is ill-typed", pkg.PkgPath)
		}
		if !strings.HasPrefix(pkg.PkgPath, modPath) {
			continue
		}
		lib = append(lib, pkg)
		p.Fset = pkg.Fset
		p.NFiles += len(pkg.Syntax)
	}
	for _, want := range []string{"pkg/ast", "pkg/parser/hsms", "pkg/parser/sml"} {
		found := false
		for _, pkg := range lib {
			if pkg.PkgPath == modPath+"/"+want {
				p.Pkgs[pkg.Name] = pkg
				found = true
			}
		}
		if !found {
			return nil, fmt.Errorf("package %s/%s not found in %s (%d packages loaded)", modPath, want, dir, len(pkgs))
		}
	}
	prog, spkgs := ssautil.Packages(lib, ssa.InstantiateGenerics|ssa.SanityCheckFunctions)
	prog.Build()
	p.SSA = prog
	for i, sp := range spkgs {
		if sp == nil {
			return nil, fmt.Errorf("no SSA for %s", lib[i].PkgPath)
		}
		p.SPkgs[sp.Pkg.Name()] = sp
	}
	for fn := range ssautil.AllFunctions(prog) {
		if fn.Pkg != nil && strings.HasPrefix(fn.Pkg.Pkg.Path(), modPath) && fn.Blocks != nil {
			p.Funcs = append(p.Funcs, fn)
		}
	}
	sort.Slice(p.Funcs, func(i, j int) bool { return p.Funcs[i].String() < p.Funcs[j].String() })
	p.NFuncs = len(p.Funcs)
	if p.NFuncs == 0 {
		return nil, fmt.Errorf("no functions with bodies found")
	}
	p.CHA = cha.CallGraph(prog)
	p.VTA = vta.CallGraph(ssautil.AllFunctions(prog), p.CHA)
	p.CG = p.VTA
	for _, n := range p.CG.Nodes {
		if n.Func != nil && n.Func.Pkg != nil && strings.HasPrefix(n.Func.Pkg.Pkg.Path(), modPath) {
			p.NEdges += len(n.Out)
		}
	}
	return p, nil
}

// Func resolves "pkg.Name" or "pkg.(*T).Name" / "pkg.(T).Name" to the SSA
// function; nil if there is none. pkg is the short package name.
func (p *Prog) Func(pkg, name string) *ssa.Function {
	sp := p.SPkgs[pkg]
	if sp == nil {
		return nil
	}
	if !strings.Contains(name, ".") {
		return sp.Func(name)
	}
	// method: "(*T).M" or "T.M"
	ptr := false
	s := name
	if strings.HasPrefix(s, "(*") {
		ptr = true
		s = strings.TrimPrefix(s, "(*")
		s = strings.Replace(s, ")", "", 1)
	} else if strings.HasPrefix(s, "(") {
		s = strings.TrimPrefix(s, "(")
		s = strings.Replace(s, ")", "", 1)
	}
	i := strings.Index(s, ".")
	tn, mn := s[:i], s[i+1:]
	obj := sp.Pkg.Scope().Lookup(tn)
	if obj == nil {
		return nil
	}
	var t types.Type = obj.Type()
	if ptr {
		t = types.NewPointer(t)
	}
	sel := p.SSA.MethodSets.MethodSet(t).Lookup(sp.Pkg, mn)
	if sel == nil {
		return nil
	}
	fn := p.SSA.MethodValue(sel)
	if fn != nil && fn.Synthetic != "" && ptr {
		// the method is declared on the value type: (*T).M is only the
		// compiler's forwarding wrapper; hand out the declared method
		if vsel := p.SSA.MethodSets.MethodSet(obj.Type()).Lookup(sp.Pkg, mn); vsel != nil {
			if vf := p.SSA.MethodValue(vsel); vf != nil && vf.Synthetic == "" {
				return vf
			}
		}
	}
	return fn
}

// MustFunc is Func that records an unresolved anchor.
func (p *Prog) MustFunc(r *Report, pkg, name string) *ssa.Function {
	f := p.Func(pkg, name)
	if f == nil || f.Blocks == nil {
		r.Add(Obligation{Rule: "anchor", Key: "anchor:" + pkg + "." + name, Status: Undecided,
			Detail: "anchor function " + pkg + "." + name + " does not resolve; the rule cannot be applied"})
		return nil
	}
	return f
}

// Pos renders a position relative to the repository root.
func (p *Prog) Pos(pos token.Pos) string {
	if !pos.IsValid() {
		return "-"
	}
	ps := p.Fset.Position(pos)
	f := strings.TrimPrefix(ps.Filename, p.Dir+"/")
	return fmt.Sprintf("%s:%d", f, ps.Line)
}

// FnName is a stable printable name: ast.NewIntNode, ast.(*IntNode).checkRep.
func FnName(fn *ssa.Function) string {
	if fn == nil {
		return "<nil>"
	}
	s := fn.String()
	s = strings.ReplaceAll(s, modPath+"/pkg/parser/", "")
	s = strings.ReplaceAll(s, modPath+"/pkg/", "")
	return s
}

// InModule reports whether fn is a source function of the library.
func InModule(fn *ssa.Function) bool {
	return fn != nil && fn.Pkg != nil && strings.HasPrefix(fn.Pkg.Pkg.Path(), modPath)
}

// PkgFuncs returns the source functions (incl. anonymous) of one package.
func (p *Prog) PkgFuncs(pkg string) []*ssa.Function {
	var out []*ssa.Function
	for _, fn := range p.Funcs {
		if fn.Pkg.Pkg.Name() == pkg {
			out = append(out, fn)
		}
	}
	return out
}

// FuncDecl finds the syntax of a named function or method ("NewIntNode",
// "IntNode.checkRep") in a package.
func (p *Prog) FuncDecl(pkg, name string) *ast.FuncDecl {
	pk := p.Pkgs[pkg]
	if pk == nil {
		return nil
	}
	recv, fname := "", name
	if i := strings.Index(name, "."); i >= 0 {
		recv, fname = name[:i], name[i+1:]
	}
	for _, f := range pk.Syntax {
		for _, d := range f.Decls {
			fd, ok := d.(*ast.FuncDecl)
			if !ok || fd.Name.Name != fname {
				continue
			}
			r := ""
			if fd.Recv != nil && len(fd.Recv.List) == 1 {
				t := fd.Recv.List[0].Type
				if s, ok := t.(*ast.StarExpr); ok {
					t = s.X
				}
				if id, ok := t.(*ast.Ident); ok {
					r = id.Name
				}
			}
			if r == recv {
				return fd
			}
		}
	}
	return nil
}

// Callees returns the resolved callees of a call instruction according to the
// active call graph (static callee first).
func (p *Prog) Callees(site ssa.CallInstruction) []*ssa.Function {
	if c := site.Common().StaticCallee(); c != nil {
		return []*ssa.Function{c}
	}
	n := p.CG.Nodes[site.Parent()]
	if n == nil {
		return nil
	}
	var out []*ssa.Function
	seen := map[*ssa.Function]bool{}
	var add func(f *ssa.Function, depth int)
	add = func(f *ssa.Function, depth int) {
		if seen[f] {
			return
		}
		seen[f] = true
		// a compiler-made forwarding wrapper around a method of the module
		// (method expression, bound method) stands for the method it forwards to
		if moduleWrapper(f) && depth < 2 {
			for _, b := range f.Blocks {
				for _, instr := range b.Instrs {
					if c, ok := instr.(ssa.CallInstruction); ok {
						if sc := c.Common().StaticCallee(); sc != nil {
							add(sc, depth+1)
						}
					}
				}
			}
			return
		}
		out = append(out, f)
	}
	for _, e := range n.Out {
		if e.Site == site {
			add(e.Callee.Func, 0)
		}
	}
	sort.Slice(out, func(i, j int) bool { return out[i].String() < out[j].String() })
	return out
}

// namedType looks a named type up in any package of the loaded program
// (including the standard library packages it imports).
func (p *Prog) namedType(pkgPath, name string) types.Type {
	for _, sp := range p.SSA.AllPackages() {
		if sp.Pkg.Path() == pkgPath {
			if o := sp.Pkg.Scope().Lookup(name); o != nil {
				return o.Type()
			}
		}
	}
	return nil
}

// globalPattern: the constant pattern a package-level *regexp.Regexp variable
// of the module is compiled from in its package initialiser, provided nothing
// else in the module stores to the variable.
func (p *Prog) globalPattern(g *ssa.Global) (string, bool) {
	if g.Pkg == nil || !strings.HasPrefix(g.Pkg.Pkg.Path(), modPath) || !strings.HasSuffix(g.Type().String(), "regexp.Regexp") {
		return "", false
	}
	pat, n := "", 0
	for _, fn := range p.Funcs {
		for _, b := range fn.Blocks {
			for _, instr := range b.Instrs {
				st, ok := instr.(*ssa.Store)
				if !ok || st.Addr != ssa.Value(g) {
					continue
				}
				n++
				if c, ok := st.Val.(*ssa.Call); ok && fn.Name() == "init" {
					if sc := c.Common().StaticCallee(); sc != nil && sc.Pkg != nil && sc.Pkg.Pkg.Path() == "regexp" && sc.Name() == "MustCompile" {
						if k, ok := c.Common().Args[0].(*ssa.Const); ok && constVal(k).K == KStr {
							pat = constVal(k).S
							continue
						}
					}
				}
				return "", false
			}
		}
	}
	return pat, n == 1 && pat != ""
}

func (p *Prog) patternOfGlobalPath(path string) (string, bool) {
	for _, sp := range p.SPkgs {
		for _, m := range sp.Members {
			if g, ok := m.(*ssa.Global); ok && "g:"+g.Pkg.Pkg.Path()+"."+g.Name() == path {
				return p.globalPattern(g)
			}
		}
	}
	return "", false
}

// globalReadOnly decides whether a package-level variable of the module is a
// table: assigned only by the package initialiser, and everything read out of
// it (elements, windows, fields, through parameters of module functions) is
// only read. reason names the first use that is not a read.
func (p *Prog) globalReadOnly(g *ssa.Global) (bool, string) {
	if v, ok := p.roGlobals.Load(g); ok {
		r := v.([2]string)
		return r[0] == "y", r[1]
	}
	ok, why := p.globalReadOnly1(g)
	yn := "n"
	if ok {
		yn = "y"
	}
	p.roGlobals.Store(g, [2]string{yn, why})
	return ok, why
}

func (p *Prog) globalReadOnly1(g *ssa.Global) (bool, string) {
	if g.Pkg == nil || !strings.HasPrefix(g.Pkg.Pkg.Path(), modPath) {
		return false, "not a variable of the module"
	}
	seen := map[ssa.Value]bool{}
	localCopy := map[ssa.Value]bool{} // local variables holding a copy of an element, and their fields
	var why string
	// refLike: a value through which storage could be written or handed on
	refLike := func(t types.Type) bool {
		switch t.Underlying().(type) {
		case *types.Slice, *types.Map, *types.Pointer, *types.Struct, *types.Array, *types.Tuple:
			return true
		}
		return false
	}
	var readOnly func(v ssa.Value, addr bool, depth int) bool
	readOnly = func(v ssa.Value, addr bool, depth int) bool {
		if seen[v] {
			return true
		}
		seen[v] = true
		refs := v.Referrers()
		if refs == nil {
			return true
		}
		for _, ref := range *refs {
			at := p.Pos(ref.Pos())
			switch x := ref.(type) {
			case *ssa.UnOp:
				if x.Op == token.MUL && refLike(x.Type()) && !readOnly(x, false, depth) {
					return false
				}
			case *ssa.Store:
				if x.Addr == v {
					if localCopy[v] {
						continue // assignment to the local copy, not to the table
					}
					why = "element or field written at " + p.Pos(x.Pos())
					return false
				}
				// copied into a local variable: followed through that variable
				if al, ok := x.Addr.(*ssa.Alloc); ok {
					localCopy[al] = true
					if !readOnly(al, true, depth) {
						return false
					}
					continue
				}
				why = "stored elsewhere at " + p.Pos(x.Pos())
				return false
			case *ssa.MapUpdate:
				why = "map updated at " + p.Pos(x.Pos())
				return false
			case *ssa.IndexAddr:
				if _, isArr := x.X.Type().Underlying().(*types.Pointer); isArr && localCopy[v] {
					localCopy[x] = true
				}
				if !readOnly(x, true, depth) {
					return false
				}
			case *ssa.FieldAddr:
				if localCopy[v] {
					localCopy[x] = true
				}
				if !readOnly(x, true, depth) {
					return false
				}
			case *ssa.Index, *ssa.Field, *ssa.Lookup, *ssa.Extract, *ssa.Next, *ssa.Range, *ssa.Phi, *ssa.Slice, *ssa.ChangeType:
				xv := x.(ssa.Value)
				if _, isRange := x.(*ssa.Range); isRange || refLike(xv.Type()) {
					if !readOnly(xv, false, depth) {
						return false
					}
				}
			case *ssa.BinOp, *ssa.If, *ssa.DebugRef:
			case ssa.CallInstruction:
				cc := x.Common()
				if b, ok := cc.Value.(*ssa.Builtin); ok {
					if b.Name() == "len" || b.Name() == "cap" {
						continue
					}
					why = "passed to " + b.Name() + " at " + at
					return false
				}
				isArg := false
				for _, a := range cc.Args {
					if a == v {
						isArg = true
					}
				}
				if !isArg && !cc.IsInvoke() && cc.Value == v {
					continue // a function value taken from the table is called: the table is not touched
				}
				sc := cc.StaticCallee()
				if sc == nil {
					why = "passed to a dynamic call at " + at
					return false
				}
				if len(sc.Blocks) == 0 || sc.Pkg == nil || !strings.HasPrefix(sc.Pkg.Pkg.Path(), modPath) {
					// a pointer to a type of another package used as the receiver
					// or argument of that package's read-only functions
					if readOnlyExternal(sc) {
						continue
					}
					why = "passed to " + FnName(sc) + " at " + at
					return false
				}
				if depth >= 3 {
					why = "passed down more than three calls at " + at
					return false
				}
				for i, a := range cc.Args {
					if a == v && i < len(sc.Params) {
						if !readOnly(sc.Params[i], false, depth+1) {
							return false
						}
					}
				}
				if _, isGo := x.(*ssa.Go); isGo {
					why = "passed to a goroutine at " + at
					return false
				}
			default:
				why = fmt.Sprintf("used by %T at %s", ref, at)
				return false
			}
		}
		return true
	}
	refs := g.Referrers()
	_ = refs
	// a Global has no referrer list: scan the module
	for _, fn := range p.Funcs {
		inInit := fn.Name() == "init" && fn.Parent() == nil
		for _, b := range fn.Blocks {
			for _, instr := range b.Instrs {
				uses := false
				for _, op := range instr.Operands(nil) {
					if *op == ssa.Value(g) {
						uses = true
					}
				}
				if !uses {
					continue
				}
				switch x := instr.(type) {
				case *ssa.Store:
					if x.Addr == ssa.Value(g) && inInit {
						continue
					}
					return false, "assigned outside the package initialiser at " + p.Pos(x.Pos())
				case *ssa.UnOp:
					if x.Op == token.MUL {
						if inInit {
							continue
						}
						if refLike(x.Type()) && !readOnly(x, false, 0) {
							return false, why
						}
						continue
					}
					return false, "used at " + p.Pos(x.Pos())
				case *ssa.FieldAddr, *ssa.IndexAddr:
					if inInit {
						continue
					}
					if !readOnly(x.(ssa.Value), true, 0) {
						return false, why
					}
				case *ssa.DebugRef:
				default:
					if inInit {
						continue
					}
					return false, fmt.Sprintf("address used by %T at %s", instr, p.Pos(instr.Pos()))
				}
			}
		}
	}
	return true, ""
}

// initCell: what the package initialisers left at a memory path, for the
// read-only tables of the module. The initialisers are evaluated once with
// the interpreter itself.
func (p *Prog) initCell(path string) (Val, bool) {
	p.initOnce.Do(func() {
		p.initHeap = map[string]Val{}
		for _, sp := range p.SPkgs {
			fn := sp.Func("init")
			if fn == nil || len(fn.Blocks) == 0 {
				continue
			}
			in := NewInterp(p)
			in.noInitHeap = true
			in.InitBind = map[string]Val{"g:" + sp.Pkg.Path() + ".init$guard": {K: KBool, B: false}}
			in.Run(fn, nil, nil)
			if len(in.Stuck) > 0 {
				continue
			}
			for k, v := range in.FinalHeap() {
				p.initHeap[k] = v
			}
		}
		p.initReady = true
		if os.Getenv("SC_TRACE9") != "" {
			for k, v := range p.initHeap {
				fmt.Fprintf(os.Stderr, "init heap: %s = %s\n", k, v)
			}
		}
	})
	if !p.initReady {
		return Val{}, false
	}
	v, ok := p.initHeap[path]
	return v, ok
}

// initCellsUnder joins the elements an initialiser stored under prefix "x[".
func (p *Prog) initCellsUnder(prefix string) (Val, bool) {
	if _, ok := p.initCell(prefix); !ok && !p.initReady {
		return Val{}, false
	}
	res, n := Val{K: KBot}, 0
	for k, v := range p.initHeap {
		if strings.HasPrefix(k, prefix) && !strings.Contains(k[len(prefix):], ".") && strings.Count(k[len(prefix):], "[") == 0 {
			res = join(res, v)
			n++
		}
	}
	return res, n > 0
}

// initHasRoot: the package initialisers wrote the variable or object root.
func (p *Prog) initHasRoot(root string) bool {
	if _, ok := p.initCell(root); ok {
		return true
	}
	if !p.initReady {
		return false
	}
	for k := range p.initHeap {
		if strings.HasPrefix(k, root) && len(k) > len(root) && (k[len(root)] == '.' || k[len(root)] == '[') {
			return true
		}
	}
	return false
}
