package main

import (
	"fmt"
	"go/types"
	"math"
	"math/big"
	"strconv"
	"strings"
	"unicode"

	"golang.org/x/tools/go/ssa"
)

// The value domains of SEMI E5 / E37 as this library documents them. These are
// the independent statements the code's guards are compared with.

const maxItemBytes = 16777215

func inRange(v Val, lo, hi int64) bool {
	return v.K == KInt && v.I.Cmp(big.NewInt(lo)) >= 0 && v.I.Cmp(big.NewInt(hi)) <= 0
}

func pow2(n uint) *big.Int { return new(big.Int).Lsh(big.NewInt(1), n) }

func paramIndex(fn *ssa.Function, name string) int {
	for i, p := range fn.Params {
		if p.Name() == name {
			return i
		}
	}
	return -1
}

// subjParam builds a parameter subject by parameter name; a missing parameter
// is an unresolved anchor.
func subjParam(r *Report, rule string, fn *ssa.Function, name string) (Subj, bool) {
	i := paramIndex(fn, name)
	if i < 0 {
		r.unk(rule, "anchor:"+FnName(fn)+":param:"+name, "", "parameter "+name+" of "+FnName(fn)+" not found")
		return Subj{}, false
	}
	return Subj{Name: name, Kind: SParam, Param: i, Type: fn.Params[i].Type()}, true
}

func hasField(fn *ssa.Function, param int, field string) bool {
	if param >= len(fn.Params) {
		return false
	}
	st := derefStruct(fn.Params[param].Type())
	if st == nil {
		return false
	}
	for i := 0; i < st.NumFields(); i++ {
		if st.Field(i).Name() == field {
			return true
		}
	}
	return false
}

// ruleDomainMessage: NewDataMessage / NewHSMSDataMessage /
// SetSessionIDAndSystemBytes / checkRep refuse exactly the values outside the
// documented header domains.
func ruleDomainMessage(p *Prog, r *Report) {
	const rule = "R14-domain"
	for _, ctor := range []string{"NewDataMessage", "NewHSMSDataMessage"} {
		fn := p.MustFunc(r, "ast", ctor)
		if fn == nil {
			continue
		}
		hsms := ctor == "NewHSMSDataMessage"
		if s, ok := subjParam(r, rule, fn, "stream"); ok {
			CheckDomain(p, r, DomainSpec{Rule: rule, Key: rule + ":ast." + ctor + ":stream", Fn: fn, Subjs: []Subj{s},
				Consts: []int64{0, 127, 128}, What: "0 <= stream <= 127",
				Accept: func(v []Val) bool { return inRange(v[0], 0, 127) }})
		}
		if s, ok := subjParam(r, rule, fn, "function"); ok {
			CheckDomain(p, r, DomainSpec{Rule: rule, Key: rule + ":ast." + ctor + ":function", Fn: fn, Subjs: []Subj{s},
				Consts: []int64{0, 255, 256}, What: "0 <= function <= 255",
				Accept: func(v []Val) bool { return inRange(v[0], 0, 255) }})
		}
		w, ok1 := subjParam(r, rule, fn, "waitBit")
		f, ok2 := subjParam(r, rule, fn, "function")
		if ok1 && ok2 {
			maxW := int64(2)
			what := "waitBit in {0,1,2}, not 1 on an even function"
			if hsms {
				maxW = 1
				what = "waitBit in {0,1}, not 1 on an even function"
			}
			CheckDomain(p, r, DomainSpec{Rule: rule, Key: rule + ":ast." + ctor + ":waitBit*function", Fn: fn, Subjs: []Subj{w, f},
				Consts: []int64{0, 1, 2, 255}, What: what,
				Accept: func(v []Val) bool {
					if !inRange(v[0], 0, maxW) || !inRange(v[1], 0, 255) {
						return false
					}
					even := new(big.Int).Mod(v[1].I, big.NewInt(2)).Sign() == 0
					return !(v[0].I.Int64() == 1 && even)
				}})
		}
		if s, ok := subjParam(r, rule, fn, "direction"); ok {
			CheckDomain(p, r, DomainSpec{Rule: rule, Key: rule + ":ast." + ctor + ":direction", Fn: fn, Subjs: []Subj{s},
				Strs: []string{"H->E", "H<-E", "H<->E"}, What: `direction in {"H->E","H<-E","H<->E"}`,
				Accept: func(v []Val) bool {
					return v[0].K == KStr && (v[0].S == "H->E" || v[0].S == "H<-E" || v[0].S == "H<->E")
				}})
		}
		if hsms {
			if s, ok := subjParam(r, rule, fn, "sessionID"); ok {
				CheckDomain(p, r, DomainSpec{Rule: rule, Key: rule + ":ast." + ctor + ":sessionID", Fn: fn, Subjs: []Subj{s},
					Consts: []int64{-1, 0, 65535, 65536}, What: "0 <= sessionID <= 65535",
					Accept: func(v []Val) bool { return inRange(v[0], 0, 65535) }})
			}
		}
	}
	if fn := p.MustFunc(r, "ast", "(*DataMessage).SetSessionIDAndSystemBytes"); fn != nil {
		if s, ok := subjParam(r, rule, fn, "sessionID"); ok {
			CheckDomain(p, r, DomainSpec{Rule: rule, Key: rule + ":ast.(*DataMessage).SetSessionIDAndSystemBytes:sessionID", Fn: fn, Subjs: []Subj{s},
				Consts: []int64{-1, 0, 65535, 65536}, What: "-1 <= sessionID <= 65535",
				Accept: func(v []Val) bool { return inRange(v[0], -1, 65535) }})
		}
	}
	if fn := p.MustFunc(r, "ast", "(*DataMessage).checkRep"); fn != nil {
		if hasField(fn, 0, "systemBytes") {
			CheckDomain(p, r, DomainSpec{Rule: rule, Key: rule + ":ast.(*DataMessage).checkRep:len(systemBytes)", Fn: fn,
				Subjs:  []Subj{{Name: "len(systemBytes)", Kind: SLen, Path: "p0.systemBytes", Type: typInt}},
				Consts: []int64{4}, What: "len(systemBytes) == 4",
				Accept: func(v []Val) bool { return inRange(v[0], 4, 4) }})
		} else {
			r.unk(rule, "anchor:DataMessage.systemBytes", "", "field systemBytes not found")
		}
		if hasField(fn, 0, "name") && len(stringRangeSites(fn)) == 0 {
			// the name is not walked rune by rune in checkRep itself (a library
			// search, a helper): evaluate checkRep on an otherwise valid message
			// whose name holds one character, for every white-space character
			// and for representatives of everything else
			key := rule + ":ast.(*DataMessage).checkRep:name-runes"
			var reps []rune
			for c := rune(0); c < 0x3100; c++ {
				if unicode.IsSpace(c) {
					reps = append(reps, c)
				}
			}
			nSpace := len(reps)
			reps = append(reps, 0, 8, 14, 31, '!', 'a', 'Z', '0', '_', 127, 0x84, 0x86, 0x9F, 0xA1, 0xFF, 0x167F, 0x1681, 0x1FFF, 0x200B, 0x200C, 0x2027, 0x202A, 0x202E, 0x2030, 0x205E, 0x2060, 0x2FFF, 0x3001, 0xFEFF, 0xFFFD, 0x10000)
			var bad, undec []string
			for _, c := range reps {
				for _, v := range []string{string(c), "ab" + string(c), string(c) + "ab", "a" + string(c) + "b"} {
					in := NewInterp(p)
					in.PathBind["p0.name"] = strVal(v)
					in.PathBind["p0.stream"] = int64Val(1)
					in.PathBind["p0.function"] = int64Val(1)
					in.PathBind["p0.waitBit"] = int64Val(0)
					in.PathBind["p0.sessionID"] = int64Val(-1)
					in.PathBind["p0.direction"] = strVal("H->E")
					in.PathBind["p0.systemBytes"] = Val{K: KSlice, S: "p0.systemBytes", Len: 4}
					in.PathBind["len(p0.systemBytes)"] = int64Val(4)
					out := in.Run(fn, defaultArgs(fn), nil)
					space := unicode.IsSpace(c)
					switch {
					case len(in.Stuck) > 0 || (out.CanReturn && out.CanPanic):
						undec = append(undec, fmt.Sprintf("name %q: not determined", v))
					case space && out.CanReturn:
						bad = append(bad, fmt.Sprintf("the name %q (with %#U) is accepted but must be refused (domain: no rune of the message name is white space)", v, c))
					case !space && !out.CanReturn:
						bad = append(bad, fmt.Sprintf("the name %q (with %#U) is refused but must be accepted (domain: no rune of the message name is white space)", v, c))
					}
				}
			}
			switch {
			case len(bad) > 0:
				r.bad(rule, key, p.Pos(fn.Pos()), strings.Join(firstN(bad, 3), "; "))
			case len(undec) > 0:
				r.unk(rule, key, p.Pos(fn.Pos()), strings.Join(firstN(undec, 3), "; "))
			default:
				r.ok(rule, key, p.Pos(fn.Pos()), fmt.Sprintf("evaluated on otherwise valid messages whose name holds one character (alone, first, last, in the middle): refused for each of the %d white-space characters, accepted for %d representatives of everything else (neighbours of every white-space range, controls, letters, format characters)", nSpace, len(reps)-nSpace))
			}
		} else if hasField(fn, 0, "name") {
			var ws []int64
			for c := rune(0); c < 0x3100; c++ {
				if unicode.IsSpace(c) {
					ws = append(ws, int64(c))
				}
			}
			CheckDomain(p, r, DomainSpec{Rule: rule, Key: rule + ":ast.(*DataMessage).checkRep:name-runes", Fn: fn,
				Subjs:  []Subj{{Name: "rune of name", Kind: SElem, Path: "p0.name", Type: types.Typ[types.Rune]}},
				Consts: ws, What: "no rune of the message name is white space",
				Accept: func(v []Val) bool { return v[0].K == KInt && !unicode.IsSpace(rune(v[0].I.Int64())) }})
		} else {
			r.unk(rule, "anchor:DataMessage.name", "", "field name not found")
		}
	}
}

type nodeDomain struct {
	typ       string
	byteSizes []int64
	elemType  types.Type
	accept    func(k int64) func(v []Val) bool
	what      func(k int64) string
	consts    func(k int64) []int64
}

// ruleDomainNodes: the checkRep of every array node refuses exactly the
// element values outside the item format's range, and the factories refuse
// exactly the byte sizes that are not item formats.
func ruleDomainNodes(p *Prog, r *Report) {
	const rule = "R14-domain"
	intAccept := func(k int64) func(v []Val) bool {
		lo := new(big.Int).Neg(pow2(uint(8*k - 1)))
		hi := new(big.Int).Sub(pow2(uint(8*k-1)), big.NewInt(1))
		return func(v []Val) bool { return v[0].K == KInt && v[0].I.Cmp(lo) >= 0 && v[0].I.Cmp(hi) <= 0 }
	}
	uintAccept := func(k int64) func(v []Val) bool {
		hi := new(big.Int).Sub(pow2(uint(8*k)), big.NewInt(1))
		return func(v []Val) bool { return v[0].K == KInt && v[0].I.Sign() >= 0 && v[0].I.Cmp(hi) <= 0 }
	}
	floatAccept := func(k int64) func(v []Val) bool {
		max := math.MaxFloat64
		if k == 4 {
			max = math.MaxFloat32
		}
		return func(v []Val) bool {
			return v[0].K == KFloat && !math.IsNaN(v[0].F) && !math.IsInf(v[0].F, 0) && math.Abs(v[0].F) <= max
		}
	}
	pw := func(k int64) []int64 {
		if k == 8 {
			return []int64{math.MinInt64, math.MaxInt64, 0}
		}
		return []int64{-(1 << uint(8*k-1)), 1<<uint(8*k-1) - 1, 1<<uint(8*k) - 1, 0}
	}
	doms := []nodeDomain{
		{"IntNode", []int64{1, 2, 4, 8}, types.Typ[types.Int64], intAccept,
			func(k int64) string { return fmt.Sprintf("-2^%d <= v <= 2^%d-1", 8*k-1, 8*k-1) }, pw},
		{"UintNode", []int64{1, 2, 4, 8}, types.Typ[types.Uint64], uintAccept,
			func(k int64) string { return fmt.Sprintf("0 <= v <= 2^%d-1", 8*k) }, pw},
		{"FloatNode", []int64{4, 8}, types.Typ[types.Float64], floatAccept,
			func(k int64) string { return fmt.Sprintf("v finite and |v| <= MaxFloat%d", 8*k) }, func(int64) []int64 { return nil }},
		{"BinaryNode", nil, typInt, func(int64) func(v []Val) bool { return func(v []Val) bool { return inRange(v[0], 0, 255) } },
			func(int64) string { return "0 <= v <= 255" }, func(int64) []int64 { return []int64{0, 255, 256} }},
	}
	for _, d := range doms {
		fn := p.MustFunc(r, "ast", "(*"+d.typ+").checkRep")
		if fn == nil {
			continue
		}
		if !hasField(fn, 0, "values") {
			r.unk(rule, "anchor:"+d.typ+".values", "", "field values not found")
			continue
		}
		sizes := d.byteSizes
		if sizes == nil {
			sizes = []int64{0}
		}
		for _, k := range sizes {
			env := map[string]Val{}
			key := rule + ":ast.(*" + d.typ + ").checkRep:values"
			if d.byteSizes != nil {
				if !hasField(fn, 0, "byteSize") {
					r.unk(rule, "anchor:"+d.typ+".byteSize", "", "field byteSize not found")
					continue
				}
				env["p0.byteSize"] = int64Val(k)
				key += fmt.Sprintf(":byteSize=%d", k)
			}
			CheckDomain(p, r, DomainSpec{Rule: rule, Key: key, Fn: fn, Env: env,
				Subjs:  []Subj{{Name: "element of values", Kind: SElem, Path: "p0.values", Type: d.elemType}},
				Consts: d.consts(k), What: d.what(k), Accept: d.accept(k)})
		}
		if d.byteSizes != nil {
			valid := map[int64]bool{}
			for _, k := range d.byteSizes {
				valid[k] = true
			}
			CheckDomain(p, r, DomainSpec{Rule: rule, Key: rule + ":ast.(*" + d.typ + ").checkRep:byteSize", Fn: fn,
				Subjs:  []Subj{{Name: "byteSize", Kind: SPath, Path: "p0.byteSize", Type: typInt}},
				Consts: []int64{1, 2, 4, 8, 16}, What: fmt.Sprint("byteSize in ", d.byteSizes),
				Accept: func(v []Val) bool { return v[0].K == KInt && v[0].I.IsInt64() && valid[v[0].I.Int64()] }})
		}
	}
	binaryStringLiterals(p, r, rule)
	// ASCII: every rune of a value node is 7-bit
	if fn := p.MustFunc(r, "ast", "(*ASCIINode).checkRep"); fn != nil {
		if hasField(fn, 0, "value") && hasField(fn, 0, "isValue") && len(stringRangeSites(fn)) == 0 {
			// the value is not walked rune by rune in checkRep itself (a byte
			// loop, a helper): evaluate checkRep on values made of one or two
			// characters, one representative per cell around 127/128 and the
			// UTF-8 length boundaries, alone and next to an ASCII character
			key := rule + ":ast.(*ASCIINode).checkRep:value-runes"
			reps := []rune{0, 1, 31, 32, 'a', 126, 127, 128, 129, 255, 256, 0x7FF, 0x800, 0xFFFD, 0x10000, 0x10FFFF}
			var bad, undec []string
			for _, c := range reps {
				for _, v := range []string{string(c), "a" + string(c), string(c) + "a"} {
					in := NewInterp(p)
					in.PathBind["p0.isValue"] = boolVal(true)
					in.PathBind["p0.value"] = strVal(v)
					in.PathBind["p0.variable.name"] = strVal("")
					in.PathBind["p0.variable.minLength"] = int64Val(0)
					in.PathBind["p0.variable.maxLength"] = int64Val(0)
					out := in.Run(fn, defaultArgs(fn), nil)
					switch {
					case len(in.Stuck) > 0 || (out.CanReturn && out.CanPanic):
						undec = append(undec, fmt.Sprintf("%q: not determined", v))
					case c > 127 && out.CanReturn:
						bad = append(bad, fmt.Sprintf("the value %q (with %#U) is accepted but must be refused (domain: 0 <= rune <= 127)", v, c))
					case c <= 127 && !out.CanReturn:
						bad = append(bad, fmt.Sprintf("the value %q is refused but must be accepted (domain: 0 <= rune <= 127)", v))
					}
				}
			}
			switch {
			case len(bad) > 0:
				r.bad(rule, key, p.Pos(fn.Pos()), strings.Join(firstN(bad, 3), "; "))
			case len(undec) > 0:
				r.unk(rule, key, p.Pos(fn.Pos()), strings.Join(firstN(undec, 3), "; "))
			default:
				r.ok(rule, key, p.Pos(fn.Pos()), fmt.Sprintf("evaluated on values of one and two characters for %d representatives around 127/128 and the UTF-8 length boundaries: exactly the values holding a rune above 127 are refused", len(reps)))
			}
		} else if hasField(fn, 0, "value") && hasField(fn, 0, "isValue") {
			CheckDomain(p, r, DomainSpec{Rule: rule, Key: rule + ":ast.(*ASCIINode).checkRep:value-runes", Fn: fn,
				Env:    map[string]Val{"p0.isValue": boolVal(true), "p0.variable.name": strVal(""), "p0.variable.minLength": int64Val(0), "p0.variable.maxLength": int64Val(0)},
				Subjs:  []Subj{{Name: "rune of value", Kind: SElem, Path: "p0.value", Type: types.Typ[types.Rune]}},
				Consts: []int64{0, 127, 128, 255, 256}, What: "0 <= rune <= 127",
				Accept: func(v []Val) bool { return inRange(v[0], 0, 127) || (v[0].K == KInt && v[0].I.Sign() < 0) }})
		} else {
			r.unk(rule, "anchor:ASCIINode.value", "", "fields value/isValue not found")
		}
	}
}

// binaryStringLiterals: NewBinaryNode takes a byte also as text. The factory
// is evaluated on one string argument for every notation, at and around the
// bounds 0 and 255, with leading zeros and with more digits than any integer
// type holds: it must accept exactly the Go integer literals whose value lies
// in [0, 255] (decided here with the checker's own strconv.ParseInt, base 0).
func binaryStringLiterals(p *Prog, r *Report, rule string) {
	fn := p.Func("ast", "NewBinaryNode")
	if fn == nil {
		return
	}
	vi := variadicIndex(fn)
	if vi < 0 {
		return
	}
	key := rule + ":ast.NewBinaryNode:string-literal"
	long := "0b1" + strings.Repeat("0", 64)
	// (a string that does not start with "0b" is a variable name for this factory)
	texts := []string{"0b0", "0b1", "0b01", "0b11111111", "0b011111111", "0b100000000", "0b111111111", long, "0b" + strings.Repeat("0", 70) + "1",
		"0b" + strings.Repeat("0", 70) + "100000000", "0b" + strings.Repeat("1", 63), "0b" + strings.Repeat("1", 64), "0b1" + strings.Repeat("0", 64) + "101010",
		"0b1" + strings.Repeat("0", 128), "0b", "0b102", "0b2", "0b1_0", "0b_1", "0b1__0", "0b1 ", "0b 1", "0b-1", "0b1.0", "0b1e1", "0bff"}
	var bad, undec []string
	for _, text := range texts {
		in := NewInterp(p)
		args := defaultArgs(fn)
		args[vi] = Val{K: KSlice, S: "vals", Len: 1}
		sv := strVal(text)
		in.PathBind["vals[0]"] = Val{K: KIface, T: types.Typ[types.String], Inner: &sv}
		out := in.Run(fn, args, nil)
		v, err := strconv.ParseInt(text, 0, 64)
		want := err == nil && v >= 0 && v <= 255
		switch {
		case len(in.Stuck) > 0 || (out.CanReturn && out.CanPanic):
			undec = append(undec, fmt.Sprintf("%q: not determined", text))
		case want && !out.CanReturn:
			bad = append(bad, fmt.Sprintf("the text %q (value %d) is refused but denotes a byte", text, v))
		case !want && out.CanReturn:
			bad = append(bad, fmt.Sprintf("the text %q is accepted but does not denote a value in [0, 255]", text))
		}
	}
	switch {
	case len(bad) > 0:
		r.bad(rule, key, p.Pos(fn.Pos()), strings.Join(firstN(bad, 3), "; "))
	case len(undec) > 0:
		r.unk(rule, key, p.Pos(fn.Pos()), strings.Join(firstN(undec, 3), "; "))
	default:
		r.ok(rule, key, p.Pos(fn.Pos()), fmt.Sprintf("evaluated on %d texts in 0b notation (255|256; leading zeros; 63, 64, 65 and 129 binary digits; underscores; malformed digits): accepted exactly when the text is a binary integer literal with a value in [0, 255]", len(texts)))
	}
}
