package main

import (
	"fmt"
	"go/token"
	"go/types"
	"os"
	"sort"
	"strings"
	"unicode"
	"unicode/utf8"

	"golang.org/x/tools/go/ssa"
)

const inf = 1 << 30

// ---------------------------------------------------------------------------
// R19 emit-capacity — a lexer state cannot block on its own channel.

type sendSummary struct {
	p    *Prog
	memo map[*ssa.Function]int
	busy map[*ssa.Function]bool
}

// maxSends is the largest number of channel sends on any path through one
// activation of fn (inf when a send lies on a cycle).
func (s *sendSummary) maxSends(fn *ssa.Function) int {
	if v, ok := s.memo[fn]; ok {
		return v
	}
	if s.busy[fn] {
		return inf
	}
	if fn.Blocks == nil || !InModule(fn) {
		return 0
	}
	s.busy[fn] = true
	defer func() { s.busy[fn] = false }()
	w := map[*ssa.BasicBlock]int{}
	for _, b := range fn.Blocks {
		n := 0
		for _, instr := range b.Instrs {
			switch x := instr.(type) {
			case *ssa.Send:
				n++
			case *ssa.Call:
				if c := x.Common().StaticCallee(); c != nil {
					k := s.maxSends(c)
					if k >= inf {
						n = inf
					} else if n < inf {
						n += k
					}
				}
			}
		}
		w[b] = n
	}
	// SCCs of the CFG
	comp := cfgSCC(fn)
	for _, c := range comp {
		cyclic := len(c) > 1
		if len(c) == 1 {
			for _, s2 := range c[0].Succs {
				if s2 == c[0] {
					cyclic = true
				}
			}
		}
		if cyclic {
			for _, b := range c {
				if w[b] > 0 {
					s.memo[fn] = inf
					return inf
				}
			}
		}
	}
	// longest path (cycles carry no sends, so a DFS with memo over blocks,
	// ignoring back edges into blocks on the stack, is exact)
	best := map[*ssa.BasicBlock]int{}
	on := map[*ssa.BasicBlock]bool{}
	var dfs func(b *ssa.BasicBlock) int
	dfs = func(b *ssa.BasicBlock) int {
		if v, ok := best[b]; ok {
			return v
		}
		on[b] = true
		m := 0
		for _, s2 := range b.Succs {
			if on[s2] {
				continue
			}
			if v := dfs(s2); v > m {
				m = v
			}
		}
		on[b] = false
		r := w[b] + m
		if r > inf {
			r = inf
		}
		best[b] = r
		return r
	}
	v := dfs(fn.Blocks[0])
	s.memo[fn] = v
	return v
}

func cfgSCC(fn *ssa.Function) [][]*ssa.BasicBlock {
	index, low := map[*ssa.BasicBlock]int{}, map[*ssa.BasicBlock]int{}
	on := map[*ssa.BasicBlock]bool{}
	var stack []*ssa.BasicBlock
	var out [][]*ssa.BasicBlock
	idx := 0
	var strong func(v *ssa.BasicBlock)
	strong = func(v *ssa.BasicBlock) {
		index[v], low[v] = idx, idx
		idx++
		stack = append(stack, v)
		on[v] = true
		for _, w := range v.Succs {
			if _, ok := index[w]; !ok {
				strong(w)
				if low[w] < low[v] {
					low[v] = low[w]
				}
			} else if on[w] && index[w] < low[v] {
				low[v] = index[w]
			}
		}
		if low[v] == index[v] {
			var c []*ssa.BasicBlock
			for {
				w := stack[len(stack)-1]
				stack = stack[:len(stack)-1]
				on[w] = false
				c = append(c, w)
				if w == v {
					break
				}
			}
			out = append(out, c)
		}
	}
	for _, b := range fn.Blocks {
		if _, ok := index[b]; !ok {
			strong(b)
		}
	}
	return out
}

func isStateFn(fn *ssa.Function) bool {
	if fn.Signature.Recv() != nil || fn.Signature.Params().Len() != 1 || fn.Signature.Results().Len() != 1 {
		return false
	}
	named, ok := fn.Signature.Results().At(0).Type().(*types.Named)
	return ok && named.Obj().Name() == "stateFn" && fn.Parent() == nil
}

func ruleEmitCapacity(p *Prog, r *Report) {
	const rule = "R19-emit"
	// capacity of the token channel
	capv := -1
	if lex := p.MustFunc(r, "sml", "lex"); lex != nil {
		for _, b := range lex.Blocks {
			for _, instr := range b.Instrs {
				if mc, ok := instr.(*ssa.MakeChan); ok {
					if c, ok := mc.Size.(*ssa.Const); ok {
						if v := constVal(c); v.K == KInt {
							capv = int(v.I.Int64())
						}
					}
				}
			}
		}
	}
	if capv < 0 {
		r.unk(rule, rule+":sml.lex:capacity", "", "the token channel's constant capacity was not found in lex()")
		return
	}
	ss := &sendSummary{p: p, memo: map[*ssa.Function]int{}, busy: map[*ssa.Function]bool{}}
	n := 0
	for _, fn := range p.PkgFuncs("sml") {
		if !isStateFn(fn) {
			continue
		}
		n++
		k := ss.maxSends(fn)
		key := rule + ":sml." + fn.Name()
		switch {
		case k >= inf:
			r.bad(rule, key, p.Pos(fn.Pos()), fmt.Sprintf("state function %s can send tokens repeatedly without returning (a send lies on a loop): with one goroutine and a channel of capacity %d the lexer blocks forever on some input", fn.Name(), capv))
		case k > capv:
			r.bad(rule, key, p.Pos(fn.Pos()), fmt.Sprintf("state function %s can send %d tokens in one invocation, the channel holds %d: the parser's goroutine would block on itself", fn.Name(), k, capv))
		default:
			r.ok(rule, key, p.Pos(fn.Pos()), fmt.Sprintf("at most %d token send(s) per invocation, channel capacity %d", k, capv))
		}
	}
	r.Floor(rule, 8)
	// nextToken runs a state only when the channel is empty
	if nt := p.MustFunc(r, "sml", "(*lexer).nextToken"); nt != nil {
		key := rule + ":sml.nextToken:state-only-when-empty"
		var sel *ssa.Select
		var dyn *ssa.Call
		for _, b := range nt.Blocks {
			for _, instr := range b.Instrs {
				switch x := instr.(type) {
				case *ssa.Select:
					sel = x
				case *ssa.Call:
					if x.Common().StaticCallee() == nil && !x.Common().IsInvoke() {
						if _, isB := x.Common().Value.(*ssa.Builtin); !isB {
							dyn = x
						}
					}
				}
			}
		}
		ok := false
		if sel != nil && dyn != nil && !sel.Blocking && len(sel.States) == 1 && sel.States[0].Dir == types.RecvOnly {
			// the state call must be on the side where the select chose 'default'
			for _, b := range nt.Blocks {
				iff, isIf := b.Instrs[len(b.Instrs)-1].(*ssa.If)
				if !isIf {
					continue
				}
				bo, isBo := iff.Cond.(*ssa.BinOp)
				if !isBo || bo.Op != token.EQL {
					continue
				}
				ex, isEx := bo.X.(*ssa.Extract)
				if !isEx || ex.Tuple != ssa.Value(sel) || ex.Index != 0 {
					continue
				}
				if b.Succs[1].Dominates(dyn.Block()) && len(b.Succs[1].Preds) == 1 {
					ok = true
				}
			}
		}
		if ok {
			r.ok(rule, key, p.Pos(nt.Pos()), "the state function is called only from the default arm of a non-blocking receive, i.e. when the buffer is empty")
		} else {
			r.bad(rule, key, p.Pos(nt.Pos()), "nextToken does not run the state function exclusively from the default arm of a non-blocking receive on the token channel")
		}
	}
	// the channel is closed after the error token and after EOF, and nothing sends after a close
	for _, name := range []string{"(*lexer).errorf", "lexEOF"} {
		fn := p.MustFunc(r, "sml", name)
		if fn == nil {
			continue
		}
		key := rule + ":sml." + fn.Name() + ":closes"
		if closesOnAllPaths(fn) {
			r.ok(rule, key, p.Pos(fn.Pos()), "every path sends its token and then closes the channel (directly or through terminate)")
		} else {
			r.bad(rule, key, p.Pos(fn.Pos()), fn.Name()+" can return without closing the token channel: the parser would wait for a token that never comes")
		}
	}
}

func callsClose(fn *ssa.Function, depth int) bool {
	if fn == nil || fn.Blocks == nil || depth > 2 {
		return false
	}
	for _, b := range fn.Blocks {
		for _, instr := range b.Instrs {
			if c, ok := instr.(*ssa.Call); ok {
				if bi, ok := c.Common().Value.(*ssa.Builtin); ok && bi.Name() == "close" {
					return true
				}
			}
		}
	}
	return false
}

func closesOnAllPaths(fn *ssa.Function) bool {
	seen := map[*ssa.BasicBlock]bool{}
	var walk func(b *ssa.BasicBlock) bool
	walk = func(b *ssa.BasicBlock) bool {
		for _, instr := range b.Instrs {
			switch x := instr.(type) {
			case *ssa.Call:
				if bi, ok := x.Common().Value.(*ssa.Builtin); ok && bi.Name() == "close" {
					return true
				}
				if c := x.Common().StaticCallee(); c != nil && InModule(c) && callsClose(c, 0) && closesOnAllPathsShallow(c) {
					return true
				}
			case *ssa.Return:
				return false
			case *ssa.Panic:
				return true
			}
		}
		for _, s := range b.Succs {
			if seen[s] {
				continue
			}
			seen[s] = true
			if !walk(s) {
				return false
			}
		}
		return true
	}
	return walk(fn.Blocks[0])
}

func closesOnAllPathsShallow(fn *ssa.Function) bool {
	// single-block helpers (terminate): close before return
	for _, b := range fn.Blocks {
		hasClose := false
		for _, instr := range b.Instrs {
			if c, ok := instr.(*ssa.Call); ok {
				if bi, ok := c.Common().Value.(*ssa.Builtin); ok && bi.Name() == "close" {
					hasClose = true
				}
			}
			if _, ok := instr.(*ssa.Return); ok && !hasClose && len(fn.Blocks) == 1 {
				return false
			}
		}
	}
	return len(fn.Blocks) == 1
}

// ---------------------------------------------------------------------------
// R10 lexclass

// findByteRune: unicode classifier applied to a single byte of a string/[]byte.
func findByteRune(funcs []*ssa.Function) []finding {
	var out []finding
	for _, fn := range funcs {
		k := 0
		for _, b := range fn.Blocks {
			for _, instr := range b.Instrs {
				call, ok := instr.(*ssa.Call)
				if !ok {
					continue
				}
				c := call.Common().StaticCallee()
				if c == nil || c.Pkg == nil || c.Pkg.Pkg.Path() != "unicode" || !strings.HasPrefix(c.Name(), "Is") || len(call.Common().Args) == 0 {
					continue
				}
				a := call.Common().Args[0]
				cv, ok := a.(*ssa.Convert)
				if !ok {
					continue
				}
				bt, ok := cv.X.Type().Underlying().(*types.Basic)
				if !ok || bt.Kind() != types.Uint8 {
					continue
				}
				switch src := cv.X.(type) {
				case *ssa.Lookup, *ssa.Index:
					_ = src
				case *ssa.UnOp:
					if _, isIA := src.X.(*ssa.IndexAddr); !isIA {
						continue
					}
				default:
					continue
				}
				out = append(out, finding{fn, call.Pos(), "unicode." + c.Name() + " is applied to a single byte converted to a rune: bytes 0x80-0xFF are fragments of UTF-8 sequences (0x85 and 0xA0 classify as space), so a character can be cut in the middle",
					fmt.Sprintf("%s#%d", FnName(fn), k)})
				k++
			}
		}
	}
	return out
}

var wsSpec = map[rune]bool{' ': true, '\t': true, '\r': true, '\n': true}

func runeCandidates() []rune {
	var out []rune
	for c := rune(0); c < 0x3100; c++ {
		if c < 128 || unicode.IsSpace(c) {
			out = append(out, c)
		}
	}
	out = append(out, 0x00E0, 0x4E00, 0xFFFD, -1)
	return out
}

func setString(m map[rune]bool) string {
	var rs []int
	for c := range m {
		rs = append(rs, int(c))
	}
	sort.Ints(rs)
	var parts []string
	for _, c := range rs {
		parts = append(parts, fmt.Sprintf("%#U", rune(c)))
	}
	return "{" + strings.Join(parts, " ") + "}"
}

func sameSet(a, b map[rune]bool) bool {
	if len(a) != len(b) {
		return false
	}
	for k := range a {
		if !b[k] {
			return false
		}
	}
	return true
}

func ruleLexClass(p *Prog, r *Report) {
	const rule = "R10-lexclass"
	fs := findByteRune(p.PkgFuncs("sml"))
	for _, f := range fs {
		r.bad(rule, rule+":byte-rune:"+f.key, p.Pos(f.pos), f.what)
	}
	if len(fs) == 0 {
		r.ok(rule, rule+":byte-rune:sml:none", "", "no unicode classifier is applied to a single byte in package sml")
	}
	fixtureMustFire(p, r, rule, "byterune", findByteRune)

	// whitespace skipped by the two lexer states
	cands := runeCandidates()
	for _, name := range []string{"lexMessageHeader", "lexMessageText"} {
		fn := p.MustFunc(r, "sml", name)
		if fn == nil {
			continue
		}
		key := rule + ":ws-set:sml." + name
		cs := callSites(fn, "(*sml.lexer).next")
		if len(cs) == 0 {
			r.unk(rule, key, p.Pos(fn.Pos()), "no call of (*lexer).next found")
			continue
		}
		site := cs[0]
		got := map[rune]bool{}
		stuck := false
		for _, c := range cands {
			c := c
			in := NewInterp(p)
			in.Bind = func(v ssa.Value, fr *frame) (Val, bool) {
				if v == ssa.Value(site) {
					return Val{K: KInt, I: newBig(int64(c)), Dep: true}, true
				}
				return Val{}, false
			}
			in.OnCall = func(call *ssa.Call, callee *ssa.Function, a []Val, fr *frame) {
				if fr.fn == fn && FnName(callee) == "(*sml.lexer).ignore" {
					got[c] = true
				}
			}
			in.Run(fn, defaultArgs(fn), nil)
			if len(in.Stuck) > 0 {
				stuck = true
			}
		}
		switch {
		case stuck:
			r.unk(rule, key, p.Pos(fn.Pos()), "evaluation got stuck")
		case sameSet(got, wsSpec):
			r.ok(rule, key, p.Pos(fn.Pos()), "the state skips exactly "+setString(got))
		default:
			r.bad(rule, key, p.Pos(fn.Pos()), fmt.Sprintf("the state skips %s as white space; both states and the size scanner must skip exactly %s", setString(got), setString(wsSpec)))
		}
	}
	// the size scanner's white space
	if fn := p.MustFunc(r, "sml", "lexDataItemSize"); fn != nil {
		key := rule + ":ws-set:sml.lexDataItemSize"
		in := NewInterp(p)
		var bad []string
		n := 0
		in.OnCall = func(call *ssa.Call, callee *ssa.Function, a []Val, fr *frame) {
			if fr.fn != fn || (callee.Name() != "acceptRun" && callee.Name() != "accept") || len(a) < 2 || a[1].K != KStr {
				return
			}
			set := map[rune]bool{}
			hasWS := false
			for _, c := range a[1].S {
				set[c] = true
				if unicode.IsSpace(c) {
					hasWS = true
				}
			}
			if hasWS {
				n++
				if !sameSet(set, wsSpec) {
					bad = append(bad, fmt.Sprintf("%s(%q)", callee.Name(), a[1].S))
				}
			}
		}
		in.Run(fn, defaultArgs(fn), nil)
		switch {
		case len(bad) > 0:
			r.bad(rule, key, p.Pos(fn.Pos()), "white space accepted inside a size declaration differs from what the states skip: "+strings.Join(uniq(bad), ", "))
		case n == 0:
			r.unk(rule, key, p.Pos(fn.Pos()), "no white-space acceptRun found in lexDataItemSize")
		default:
			r.ok(rule, key, p.Pos(fn.Pos()), fmt.Sprintf("all %d white-space runs inside a size declaration accept exactly %s", n, setString(wsSpec)))
		}
	}
	// everything the size scanner accepts as white space is removed from the token
	if fn := p.MustFunc(r, "sml", "(*lexer).emitSpaceRemoved"); fn != nil {
		key := rule + ":size-token:sml.emitSpaceRemoved"
		sites := stringRangeSites(fn)
		// by evaluation first: the emitter applied to each character of the
		// size scanner's alphabet alone, and to a whole size declaration
		evaluated := true
		var wrong []string
		for _, c := range []rune{' ', '\t', '\r', '\n', '0', '5', '9', '.', '[', ']'} {
			res, ok := lexRunFrom(p, fn, string(c), 0, 1, "", int64Val(11))
			if !ok || len(res.toks) != 1 {
				evaluated = false
				break
			}
			switch got := res.toks[0].val; {
			case wsSpec[c] && got != "":
				wrong = append(wrong, fmt.Sprintf("%#U is kept in the size token although the size scanner accepts it as white space", c))
			case !wsSpec[c] && got != string(c):
				wrong = append(wrong, fmt.Sprintf("%#U is removed from the size token", c))
			}
		}
		if evaluated {
			decl := "[ 12 ..\t7\r\n]"
			if res, ok := lexRunFrom(p, fn, decl, 0, len(decl), "", int64Val(11)); !ok || len(res.toks) != 1 {
				evaluated = false
			} else if res.toks[0].val != "[12..7]" {
				wrong = append(wrong, fmt.Sprintf("the size declaration %q is emitted as %q, expected %q", decl, res.toks[0].val, "[12..7]"))
			}
		}
		if evaluated {
			if len(wrong) > 0 {
				r.bad(rule, key, p.Pos(fn.Pos()), strings.Join(wrong, "; "))
			} else {
				r.ok(rule, key, p.Pos(fn.Pos()), "evaluated on every character of the size alphabet: space, tab, CR and LF are removed from a size token; digits, dots and brackets are kept, in order")
			}
		} else if len(sites) != 1 {
			r.unk(rule, key, p.Pos(fn.Pos()), "emitSpaceRemoved does not filter its token rune by rune: which characters it removes cannot be determined")
		} else {
			site := sites[0]
			var bad []string
			for _, c := range []rune{' ', '\t', '\r', '\n', '0', '9', '.', '[', ']'} {
				in := NewInterp(p)
				o1 := in.Run(fn, defaultArgs(fn), nil)
				outer := o1.Frame.Vals()
				cc := c
				in.Bind = func(v ssa.Value, fr *frame) (Val, bool) {
					if v == site {
						return Val{K: KInt, I: newBig(int64(cc)), Dep: true}, true
					}
					return Val{}, false
				}
				in.RunOuter(fn, defaultArgs(fn), site.(ssa.Instruction).Block(), outer)
				kept := false
				for instr := range in.ReachedAny {
					if call, ok := instr.(*ssa.Call); ok && instr.Parent() == fn {
						if bi, ok := call.Common().Value.(*ssa.Builtin); ok && bi.Name() == "append" {
							kept = true
						}
					}
				}
				if wsSpec[c] && kept {
					bad = append(bad, fmt.Sprintf("%#U is kept in the size token although the size scanner accepts it as white space", c))
				}
				if !wsSpec[c] && !kept {
					bad = append(bad, fmt.Sprintf("%#U is removed from the size token", c))
				}
			}
			if len(bad) > 0 {
				r.bad(rule, key, p.Pos(fn.Pos()), strings.Join(bad, "; "))
			} else {
				r.ok(rule, key, p.Pos(fn.Pos()), "space, tab, CR and LF are removed from a size token; digits, dots and brackets are kept")
			}
		}
	}
	// the comment state gives back only white space both states skip
	if fn := p.MustFunc(r, "sml", "lexComment"); fn != nil {
		key := rule + ":comment-trim:sml.lexComment"
		var bad []string
		n := 0
		for _, b := range fn.Blocks {
			for _, instr := range b.Instrs {
				call, ok := instr.(*ssa.Call)
				if !ok {
					continue
				}
				c := call.Common().StaticCallee()
				if c == nil || c.Pkg == nil || c.Pkg.Pkg.Path() != "strings" || !strings.HasPrefix(c.Name(), "Trim") {
					continue
				}
				n++
				switch c.Name() {
				case "TrimRight", "TrimLeft", "Trim":
					cs, ok := call.Common().Args[1].(*ssa.Const)
					if !ok || constVal(cs).K != KStr {
						bad = append(bad, "strings."+c.Name()+" with a non-constant cutset")
						continue
					}
					for _, ch := range constVal(cs).S {
						if !wsSpec[ch] {
							bad = append(bad, fmt.Sprintf("strings.%s trims %#U, which the lexer states do not skip", c.Name(), ch))
						}
					}
				case "TrimSpace":
					bad = append(bad, "strings.TrimSpace trims every Unicode space; the lexer states skip only "+setString(wsSpec))
				case "TrimRightFunc", "TrimLeftFunc", "TrimFunc":
					pred, _ := call.Common().Args[1].(*ssa.Function)
					if pred == nil || pred.Pkg == nil || pred.Pkg.Pkg.Path() != "unicode" {
						bad = append(bad, "strings."+c.Name()+" with a predicate whose set cannot be determined")
					} else {
						bad = append(bad, fmt.Sprintf("strings.%s(unicode.%s) trims characters (e.g. U+00A0, U+3000) that the lexer states do not skip: they are handed back to the interrupted state as input", c.Name(), pred.Name()))
					}
				default:
					bad = append(bad, "strings."+c.Name())
				}
			}
		}
		if len(bad) > 0 {
			r.bad(rule, key, p.Pos(fn.Pos()), strings.Join(uniq(bad), "; "))
		} else {
			r.ok(rule, key, p.Pos(fn.Pos()), fmt.Sprintf("%d trim call(s); only characters both states skip are given back", n))
		}
		// the comment state returns to the state it interrupted
		key2 := rule + ":comment-return:sml.lexComment"
		okRet := true
		nret := 0
		// by evaluation first: from whichever state the comment interrupted,
		// that state is resumed; at the end of the input lexEOF takes over
		evalOK, evalBad := true, []string{}
		for _, last := range []string{"lexMessageHeader", "lexMessageText"} {
			for _, text := range []string{"// c \nX", "//\nX", "// a // b\r\nX"} {
				res, ok := lexRun(p, fn, text, 0, last)
				if !ok {
					evalOK = false
					break
				}
				if res.next != last {
					evalBad = append(evalBad, fmt.Sprintf("after the comment %q interrupting %s the lexer continues in %q", text, last, res.next))
				}
			}
			if res, ok := lexRun(p, fn, "// c", 0, last); !ok {
				evalOK = false
			} else if res.next != "lexEOF" {
				evalBad = append(evalBad, fmt.Sprintf("after a comment that ends the input the lexer continues in %q, expected lexEOF", res.next))
			}
		}
		if evalOK {
			if len(evalBad) > 0 {
				r.bad(rule, key2, p.Pos(fn.Pos()), strings.Join(uniq(evalBad), "; "))
			} else {
				r.ok(rule, key2, p.Pos(fn.Pos()), "evaluated for both interruptible states: lexComment resumes the state it interrupted, or lexEOF when the comment ends the input")
			}
		}
		for _, b := range fn.Blocks {
			ret, ok := b.Instrs[len(b.Instrs)-1].(*ssa.Return)
			if !ok {
				continue
			}
			nret++
			switch v := unwrapChange(ret.Results[0]).(type) {
			case *ssa.Function:
				if v.Name() != "lexEOF" {
					okRet = false
				}
			case *ssa.UnOp:
				if f := fieldOf(v.X); f == nil || f.Name() != "lastState" {
					okRet = false
				}
			default:
				okRet = false
			}
		}
		if evalOK {
			// decided above
		} else if okRet && nret > 0 {
			r.ok(rule, key2, p.Pos(fn.Pos()), "lexComment returns lastState (or lexEOF at the end of input)")
		} else {
			r.bad(rule, key2, p.Pos(fn.Pos()), "lexComment does not return to the interrupted state (l.lastState) on every path")
		}
	}
	// keyword-like tokens go through the upper-casing emitter
	upper := map[string]bool{"tokenTypeStreamFunction": true, "tokenTypeWaitBit": true, "tokenTypeDirection": true, "tokenTypeDataItemType": true, "tokenTypeBool": true}
	byVal := map[int64]string{}
	for name := range upper {
		if v, ok := smlConst(p, name); ok {
			byVal[v] = name
		} else {
			r.unk(rule, "anchor:sml."+name, "", "constant not found")
		}
	}
	nUp := 0
	for _, fn := range p.PkgFuncs("sml") {
		for _, b := range fn.Blocks {
			for _, instr := range b.Instrs {
				call, ok := instr.(*ssa.Call)
				if !ok {
					continue
				}
				c := call.Common().StaticCallee()
				if c == nil || !strings.HasPrefix(c.Name(), "emit") || FnName(c)[:len("(*sml.lexer)")] != "(*sml.lexer)" || len(call.Common().Args) < 2 {
					continue
				}
				cs, ok := call.Common().Args[1].(*ssa.Const)
				if !ok {
					continue
				}
				name, isKw := byVal[constVal(cs).I.Int64()]
				if !isKw {
					continue
				}
				nUp++
				key := fmt.Sprintf("%s:upper-emit:%s:%s", rule, fn.Name(), name)
				if c.Name() == "emitUppercase" {
					r.ok(rule, key, p.Pos(call.Pos()), name+" is emitted upper-cased")
				} else {
					r.bad(rule, key, p.Pos(call.Pos()), fmt.Sprintf("%s is emitted with %s: the parser compares it with upper-case constants, so lower-case input would be read differently", name, c.Name()))
				}
			}
		}
	}
	if nUp < 5 {
		// the emissions are not five separate calls with a constant token type
		// (a table, a shared helper): decide by lexing lower-case text with
		// every keyword-like token kind in it
		if d, decided, good := upperCasedByEvaluation(p, byVal); !decided {
			r.unk(rule, rule+":upper-emit:count", "", fmt.Sprintf("only %d emissions of keyword tokens found, 5 were confirmed by reading, and the lexer could not be evaluated on sample text", nUp))
		} else if good {
			r.ok(rule, rule+":upper-emit:count", "", d)
			r.Credit(rule, 5-nUp)
		} else {
			r.bad(rule, rule+":upper-emit:count", "", d)
		}
	}
	// constants the parser compares token values with are upper-case
	nC := 0
	var lower []string
	for _, fn := range p.PkgFuncs("sml") {
		for _, b := range fn.Blocks {
			for _, instr := range b.Instrs {
				bo, ok := instr.(*ssa.BinOp)
				if !ok || (bo.Op != token.EQL && bo.Op != token.NEQ) {
					continue
				}
				for _, pair := range [][2]ssa.Value{{bo.X, bo.Y}, {bo.Y, bo.X}} {
					c, ok := pair[0].(*ssa.Const)
					if !ok || constVal(c).K != KStr {
						continue
					}
					ld, ok := pair[1].(*ssa.UnOp)
					if !ok {
						continue
					}
					if f := fieldOf(ld.X); f != nil && f.Name() == "val" {
						nC++
						if s := constVal(c).S; s != strings.ToUpper(s) {
							lower = append(lower, fmt.Sprintf("%q in %s", s, fn.Name()))
						}
					}
				}
			}
		}
	}
	if len(lower) > 0 {
		r.bad(rule, rule+":upper-consts", "", "token values are compared with constants that are not upper-case: "+strings.Join(lower, ", "))
	} else if nC < 3 {
		r.unk(rule, rule+":upper-consts", "", fmt.Sprintf("only %d comparisons of token values with constants found", nC))
	} else {
		r.ok(rule, rule+":upper-consts", "", fmt.Sprintf("all %d constants compared with token values are upper-case", nC))
	}
	// comments never reach the grammar
	if fn := p.MustFunc(r, "sml", "(*parser).peek"); fn != nil {
		ttComment, ok := smlConst(p, "tokenTypeComment")
		if !ok {
			r.unk(rule, "anchor:sml.tokenTypeComment", "", "constant not found")
		} else {
			nextTok := p.Func("sml", "(*lexer).nextToken")
			pick := func(f *ssa.Function) []ssa.Value {
				var out []ssa.Value
				for _, b := range f.Blocks {
					for _, instr := range b.Instrs {
						st, ok := instr.(*ssa.Store)
						if !ok {
							continue
						}
						call, ok := st.Val.(*ssa.Call)
						if !ok || call.Common().StaticCallee() != nextTok {
							continue
						}
						for _, b2 := range f.Blocks {
							for _, i2 := range b2.Instrs {
								if ld, ok := i2.(*ssa.UnOp); ok {
									if fa, ok := ld.X.(*ssa.FieldAddr); ok && fa.X == st.Addr {
										if fv := fieldOf(fa); fv != nil && fv.Name() == "typ" {
											out = append(out, ld)
										}
									}
								}
							}
						}
					}
				}
				return out
			}
			var all []Val
			for i := int64(0); i < 24; i++ {
				all = append(all, int64Val(i))
			}
			if done := commentFilterByEvaluation(p, r, rule, rule+":comment-filter:sml.(*parser).peek", p.Pos(fn.Pos())); done {
				goto filtered
			}
			CheckDomain(p, r, DomainSpec{Rule: rule, Key: rule + ":comment-filter:sml.(*parser).peek", Fn: fn,
				Init:   map[string]Val{"p0.tokenQueue": {K: KSlice, S: "p0.tokenQueue!0", Len: 0}},
				Subjs:  []Subj{{Name: "type of the token the lexer returned", Kind: SValue, Pick: pick, Type: typInt, NoReps: true, Extra: all}},
				What:   "every token type except comment is handed to the grammar",
				Accept: func(v []Val) bool { return v[0].I.Int64() != ttComment }})
		}
	}
filtered:
	commentAfterEveryToken(p, r, rule)
	tokenPositions(p, r, rule)
}

// commentFilterByEvaluation: the item parser, fed by the lexer's tokens one
// at a time (comment tokens included), builds the same nodes with the same
// diagnostics for an item written with a comment after every token as for
// the item without comments. Reports done=false when the evaluation does not
// decide; the guard rule on peek() is used then.
func commentFilterByEvaluation(p *Prog, r *Report, rule, key, pos string) bool {
	fn := p.Func("sml", "(*parser).parseDataItem")
	if fn == nil || strings.Contains(os.Getenv("SC_NOEVAL"), "comment-filter") {
		return false
	}
	plain := []string{"<", "L", "<", "A", "\"x\"", ">", "<", "U1", "1", "2", ">", "<", "BOOLEAN", "T", ">", "<", "L", ">", ">"}
	with := ""
	for i, t := range plain {
		with += t + fmt.Sprintf(" // c%d <A \"no\"> >\n", i)
	}
	with = "// first\n" + with
	run := func(text string) (string, bool) {
		toks, ok := lexAll(p, "lexMessageText", text, 400)
		if !ok {
			return "", false
		}
		obs, diags, ok := parseRun(p, fn, toks, 4)
		if !ok {
			return "", false
		}
		var parts []string
		for _, o := range obs {
			parts = append(parts, fmt.Sprintf("%s/%d", o.factory, len(o.elems)))
		}
		return strings.Join(parts, " ") + " diagnostics: " + strings.Join(diags, "|"), true
	}
	a, okA := run(strings.Join(plain, " "))
	b, okB := run(with)
	if !okA || !okB || !strings.Contains(a, "NewListNode/4") {
		return false
	}
	if a != b {
		r.bad(rule, key, pos, fmt.Sprintf("an item with a comment after every token is parsed differently from the same item without comments: [%s] against [%s]: comment tokens reach the grammar", b, a))
		return true
	}
	r.ok(rule, key, pos, fmt.Sprintf("evaluated with the parser fed one token per call of the lexer's token method, comment tokens included: a list of four items written with a comment line after each of its %d tokens builds the same nodes with the same diagnostics as without comments (%s)", len(plain), a))
	return true
}

// tokenPositions: the line and column a token carries (and every diagnostic
// reports) are those of the place its text starts at, whatever the layout:
// line breaks inside a size declaration, CRLF, tabs, comments, characters of
// several bytes. The lexer's states are evaluated on texts with all of these
// and every token's position is compared with the one counted from the text.
func tokenPositions(p *Prog, r *Report, rule string) {
	key := rule + ":token-positions"
	texts := []string{
		"S1F1 W H->E Name\n<L [\n2\n]\n  <A \"x\"> // c\r\n\t<U1 [ 1 ..\n 2 ] 1 0x1F>\n>\n.\nS2F3 .",
		"// head\r\nS6F11 名前\r\n<L[2]\r\n  <A \"é ü\"> <BOOLEAN T>  // é\r\n  <U4 v ...[1]>\r\n>\r\n.",
		"S1F1 <L [1\n..\n\n2\n] <I1 [\r\n3] 1 2 3>>.",
	}
	var bad, undec []string
	n := 0
	for _, text := range texts {
		toks, ok := lexAll(p, "lexMessageHeader", text, 400)
		if !ok {
			undec = append(undec, fmt.Sprintf("the text %q could not be lexed by evaluation", text))
			continue
		}
		for _, t := range toks {
			if t.off < 0 || t.off > len(text) || t.line == 0 || t.col == 0 {
				undec = append(undec, fmt.Sprintf("position of the token %q not determined", t.val))
				continue
			}
			before := text[:t.off]
			wantLine := int64(1 + strings.Count(before, "\n"))
			wantCol := int64(1 + utf8.RuneCountInString(before[strings.LastIndex(before, "\n")+1:]))
			n++
			if t.line != wantLine || t.col != wantCol {
				bad = append(bad, fmt.Sprintf("the token %q at byte %d of %q is reported at Ln %d, Col %d; it stands at Ln %d, Col %d", t.val, t.off, text, t.line, t.col, wantLine, wantCol))
			}
		}
	}
	switch {
	case len(bad) > 0:
		r.bad(rule, key, "", strings.Join(firstN(bad, 2), "; "))
	case len(undec) > 0:
		r.unk(rule, key, "", strings.Join(firstN(undec, 2), "; "))
	default:
		r.ok(rule, key, "", fmt.Sprintf("evaluated on %d texts with line breaks inside size declarations, CRLF, tabs, comments and multi-byte characters: each of the %d tokens carries the line and column its text starts at", len(texts), n))
	}
}

// commentAfterEveryToken: a line comment may follow any token, with or
// without a blank in between. For one sample of every token kind (for names,
// numbers, variables and ellipses one of every shape) placed at the end of a
// line, the library's lexer - its state functions evaluated one after the
// other on the text - must yield the same tokens, comments aside, for
// "T", "T //c" and "T//c".
func commentAfterEveryToken(p *Prog, r *Report, rule string) {
	key := rule + ":comment-after-token"
	ttComment, ok := smlConst(p, "tokenTypeComment")
	if !ok {
		r.unk(rule, key, "", "tokenTypeComment not found")
		return
	}
	type sample struct{ pre, tok, post string }
	// the rest of the header goes on the next line: a comment runs to the end of its line
	header := func(pre, tok, post string) sample { return sample{pre, tok, "\n" + post + "\n<L>\n."} }
	text := func(tok string) sample { return sample{"S1F1\n<L\n", tok, "\n>\n."} }
	samples := []sample{
		header("", "S1F1", " W H->E"), header("", "s127f255", ""), header("S1F1 ", "W", " H->E"), header("S1F1 ", "[W]", ""),
		header("S1F1 W ", "H->E", ""), header("S1F1 ", "H<->E", " Name"), header("S1F1 W H->E ", "N", ""), header("S1F1 W H->E ", "Name_1", ""),
		header("S1F1 H->E ", "名", ""), header("S1F1 ", "ab", " H->E"),
		text("<"), text("<L"), text("<BOOLEAN"), text("<A[2]"), text("<U1 [1..2]"), text("<A \"x y\""), text("<U1 1"), text("<I2 -0x1F"), text("<F4 1.5e3"),
		text("<B 0b101"), text("<BOOLEAN T"), text("<A v"), text("<A var_1[2]"), text("<L ..."), text("<L ...[1]"), text("<L>"), text("<L> ."),
	}
	var bad, undec []string
	n := 0
	for _, sm := range samples {
		var streams []string
		for _, sep := range []string{"", " // c", "//c", "\t//\r"} {
			toks, ok := lexAll(p, "lexMessageHeader", sm.pre+sm.tok+sep+sm.post, 300)
			if !ok {
				undec = append(undec, fmt.Sprintf("the text %q could not be lexed by evaluation", sm.pre+sm.tok+sep+sm.post))
				streams = nil
				break
			}
			var l []string
			for _, t := range toks {
				if t.typ != ttComment {
					l = append(l, fmt.Sprintf("%d:%s", t.typ, t.val))
				}
			}
			streams = append(streams, strings.Join(l, " "))
		}
		n++
		for i := 1; i < len(streams); i++ {
			if streams[i] != streams[0] {
				bad = append(bad, fmt.Sprintf("a comment right after %q changes the tokens: without it [%s], with it [%s]", sm.tok, streams[0], streams[i]))
				break
			}
		}
	}
	switch {
	case len(bad) > 0:
		r.bad(rule, key, "", strings.Join(firstN(bad, 3), "; "))
	case len(undec) > 0:
		r.unk(rule, key, "", strings.Join(firstN(undec, 2), "; "))
	default:
		r.ok(rule, key, "", fmt.Sprintf("for a sample of each of %d token shapes at the end of a line, the lexer evaluated on the text yields the same tokens with no comment, a spaced comment and an abutting comment", n))
	}
}

// ---------------------------------------------------------------------------
// R25 errors-suppress — a diagnosed input yields no message.

func isFreshEmpty(v ssa.Value) bool {
	switch x := v.(type) {
	case *ssa.Const:
		return x.Value == nil
	case *ssa.Slice:
		if al, ok := x.X.(*ssa.Alloc); ok {
			if arr, ok := al.Type().Underlying().(*types.Pointer).Elem().Underlying().(*types.Array); ok && arr.Len() == 0 {
				return true
			}
		}
	case *ssa.MakeSlice:
		if c, ok := x.Len.(*ssa.Const); ok {
			return constVal(c).K == KInt && constVal(c).I.Sign() == 0
		}
	}
	return false
}

func ruleErrorsSuppress(p *Prog, r *Report) {
	const rule = "R25-errors"
	fn := p.MustFunc(r, "sml", "Parse")
	if fn == nil {
		return
	}
	n := 0
	for _, b := range fn.Blocks {
		ret, ok := b.Instrs[len(b.Instrs)-1].(*ssa.Return)
		if !ok || len(ret.Results) != 3 {
			continue
		}
		n++
		key := fmt.Sprintf("%s:sml.Parse:return#%d", rule, n)
		if isFreshEmpty(ret.Results[0]) {
			r.ok(rule, key, p.Pos(ret.Pos()), "returns no messages")
			continue
		}
		// must be on the 'no errors' side of a test of the error list; a result
		// selected before a single return is followed edge by edge
		type guard struct {
			gb       *ssa.BasicBlock
			zeroSide int
		}
		var guards []guard
		for _, gb := range fn.Blocks {
			iff, ok := gb.Instrs[len(gb.Instrs)-1].(*ssa.If)
			if !ok {
				continue
			}
			bo, ok := iff.Cond.(*ssa.BinOp)
			if !ok {
				continue
			}
			lenCall, c := bo.X, bo.Y
			if _, isC := lenCall.(*ssa.Const); isC {
				lenCall, c = bo.Y, bo.X
			}
			cc, isC := c.(*ssa.Const)
			lc, isL := lenCall.(*ssa.Call)
			if !isC || !isL || constVal(cc).K != KInt || constVal(cc).I.Sign() != 0 {
				continue
			}
			bi, isB := lc.Common().Value.(*ssa.Builtin)
			if !isB || bi.Name() != "len" || !isErrorList(lc.Common().Args[0], ret.Results[1]) {
				continue
			}
			// which side is len == 0 ?
			zeroSide := -1
			switch bo.Op {
			case token.GTR, token.NEQ:
				zeroSide = 1
			case token.EQL, token.LEQ:
				zeroSide = 0
			}
			if bo.X == ssa.Value(cc) { // 0 < len(x)
				zeroSide = -1
				switch bo.Op {
				case token.LSS, token.NEQ:
					zeroSide = 1
				case token.GEQ, token.EQL:
					zeroSide = 0
				}
			}
			if zeroSide >= 0 {
				guards = append(guards, guard{gb, zeroSide})
			}
		}
		blockGuarded := func(blk *ssa.BasicBlock) bool {
			for _, g := range guards {
				if g.gb.Dominates(blk) && g.gb != blk && !reaches(g.gb.Succs[1-g.zeroSide], blk, g.gb) {
					return true
				}
			}
			return false
		}
		noErrorsEdge := func(from, to *ssa.BasicBlock) bool {
			if blockGuarded(from) {
				return true
			}
			for _, g := range guards {
				if g.gb == from && g.gb.Succs[g.zeroSide] == to && g.gb.Succs[1-g.zeroSide] != to {
					return true
				}
			}
			return false
		}
		guarded := blockGuarded(b)
		if phi, isPhi := ret.Results[0].(*ssa.Phi); isPhi && !guarded && (phi.Block() == b || phi.Block().Dominates(b)) {
			guarded = true
			for i, e := range phi.Edges {
				if !isFreshEmpty(e) && !noErrorsEdge(phi.Block().Preds[i], phi.Block()) {
					guarded = false
				}
			}
		}
		if guarded {
			r.ok(rule, key, p.Pos(ret.Pos()), "messages are returned only on the 'no errors' side of a test of the error list")
		} else {
			r.bad(rule, key, p.Pos(ret.Pos()), "sml.Parse can return messages without having tested that no error was reported")
		}
	}
	if n == 0 {
		r.unk(rule, rule+":sml.Parse:returns", p.Pos(fn.Pos()), "no return with three results found")
	}
	// diagnostics have the documented form
	if sf := p.MustFunc(r, "sml", "(*parseError).string"); sf != nil {
		key := rule + ":sml.(*parseError).string:format"
		// by evaluation first: the text made for two concrete diagnostics
		evalOK, evalBad := true, ""
		for _, d := range []struct {
			line, col int64
			text      string
		}{{12, 345, "expected '<', found \"x\""}, {1, 1, "%d 100% üñí"}} {
			ein := NewInterp(p)
			ein.InitBind["p0.line"] = int64Val(d.line)
			ein.InitBind["p0.col"] = int64Val(d.col)
			ein.InitBind["p0.text"] = strVal(d.text)
			out := ein.Run(sf, defaultArgs(sf), nil)
			rets := out.Frame.ReturnVals()
			if len(ein.Stuck) > 0 || len(rets) != 1 || len(rets[0]) != 1 || rets[0][0].K != KStr {
				evalOK = false
				break
			}
			if want := fmt.Sprintf("Ln %d, Col %d: %s", d.line, d.col, d.text); rets[0][0].S != want {
				evalBad = fmt.Sprintf("the diagnostic (line %d, column %d, %q) is rendered as %q; the documented form is %q", d.line, d.col, d.text, rets[0][0].S, want)
			}
		}
		if evalOK {
			if evalBad != "" {
				r.bad(rule, key, p.Pos(sf.Pos()), evalBad)
			} else {
				r.ok(rule, key, p.Pos(sf.Pos()), `evaluated on two diagnostics (one whose text holds format verbs): rendered as "Ln <line>, Col <col>: <text>"`)
			}
			return
		}
		in := NewInterp(p)
		in.Symbolic = true
		var format Val
		var terms []string
		in.OnCall = func(call *ssa.Call, callee *ssa.Function, a []Val, fr *frame) {
			if callee.Pkg != nil && callee.Pkg.Pkg.Path() == "fmt" && callee.Name() == "Sprintf" && fr.fn == sf {
				format = a[0]
				if a[1].K == KSlice && a[1].Len >= 0 {
					for i := 0; i < a[1].Len; i++ {
						e := in.Elem(a[1], i, types.NewInterfaceType(nil, nil))
						if e.K == KIface {
							t, _ := termOf(*e.Inner)
							terms = append(terms, t)
						} else {
							terms = append(terms, "?")
						}
					}
				}
			}
		}
		in.Run(sf, defaultArgs(sf), nil)
		if format.K == KStr && format.S == "Ln %d, Col %d: %s" && strings.Join(terms, ",") == "p0.line,p0.col,p0.text" {
			r.ok(rule, key, p.Pos(sf.Pos()), `diagnostics are formatted as "Ln %d, Col %d: %s" of (line, col, text)`)
		} else {
			r.bad(rule, key, p.Pos(sf.Pos()), fmt.Sprintf("diagnostics are formatted with %s of (%s); the documented form is \"Ln x, Col y: text\"", format, strings.Join(terms, ",")))
		}
	}
}

// isErrorList: v is the errors result itself or the parser's errors field.
func isErrorList(v, result ssa.Value) bool {
	if v == result {
		return true
	}
	seen := map[ssa.Value]bool{}
	var alias func(a ssa.Value, d int) bool
	alias = func(a ssa.Value, d int) bool {
		if a == v {
			return true
		}
		if seen[a] || d > 8 {
			return false
		}
		seen[a] = true
		switch x := a.(type) {
		case *ssa.Phi:
			for _, e := range x.Edges {
				if alias(e, d+1) {
					return true
				}
			}
		case *ssa.Call:
			if bi, ok := x.Common().Value.(*ssa.Builtin); ok && bi.Name() == "append" {
				return alias(x.Common().Args[0], d+1)
			}
		}
		return false
	}
	if alias(result, 0) {
		return true
	}
	if ld, ok := v.(*ssa.UnOp); ok {
		if f := fieldOf(ld.X); f != nil && f.Name() == "errors" {
			return true
		}
	}
	return false
}

// ---------------------------------------------------------------------------
// R20 msg-scope — parser state is per message.

func ruleMsgScope(p *Prog, r *Report) {
	const rule = "R20-msgscope"
	pm := p.MustFunc(r, "sml", "(*parser).parseMessage")
	if pm == nil {
		return
	}
	// fields of the parser struct
	st := derefStruct(pm.Params[0].Type())
	if st == nil {
		r.unk(rule, rule+":parser-struct", "", "receiver of parseMessage is not a pointer to struct")
		return
	}
	type write struct {
		fn  *ssa.Function
		st  *ssa.Store
		pos token.Pos
	}
	// path of a (possibly nested) field of the parser struct, "" if not one
	fieldPath := func(addr ssa.Value) string {
		var names []string
		v := addr
		for {
			fa, ok := v.(*ssa.FieldAddr)
			if !ok {
				break
			}
			names = append([]string{fieldOf(fa).Name()}, names...)
			v = fa.X
		}
		if len(names) == 0 || derefStruct(v.Type()) != st {
			return ""
		}
		if _, isAlloc := v.(*ssa.Alloc); isAlloc {
			return "" // the parser under construction
		}
		return strings.Join(names, ".")
	}
	writes := map[string][]write{}
	for _, fn := range p.PkgFuncs("sml") {
		for _, b := range fn.Blocks {
			for _, instr := range b.Instrs {
				s, ok := instr.(*ssa.Store)
				if !ok {
					continue
				}
				if path := fieldPath(s.Addr); path != "" {
					writes[path] = append(writes[path], write{fn, s, s.Pos()})
				}
			}
		}
	}
	// map fields are written through MapUpdate as well
	for _, fn := range p.PkgFuncs("sml") {
		for _, b := range fn.Blocks {
			for _, instr := range b.Instrs {
				mu, ok := instr.(*ssa.MapUpdate)
				if !ok {
					continue
				}
				if ld, ok := mu.Map.(*ssa.UnOp); ok {
					if path := fieldPath(ld.X); path != "" {
						if _, has := writes[path]; !has {
							writes[path] = nil
						}
					}
				}
			}
		}
	}
	var names []string
	for n := range writes {
		names = append(names, n)
	}
	sort.Strings(names)
	// resetIn: a store of a constant or fresh map/slice/zero struct to path (or a
	// prefix of it) in parseMessage that dominates every module call there
	isReset := func(path string) bool {
		for _, b := range pm.Blocks {
			for si, instr := range b.Instrs {
				s, ok := instr.(*ssa.Store)
				if !ok {
					continue
				}
				sp := fieldPath(s.Addr)
				if sp == "" || !(sp == path || strings.HasPrefix(path, sp+".")) {
					continue
				}
				switch s.Val.(type) {
				case *ssa.Const, *ssa.MakeMap, *ssa.MakeSlice:
				default:
					continue
				}
				dominatesAll := true
				for _, cb := range pm.Blocks {
					for ci, cin := range cb.Instrs {
						c, ok := cin.(*ssa.Call)
						if !ok {
							continue
						}
						if sc := c.Common().StaticCallee(); sc == nil || !InModule(sc) {
							continue
						}
						if cb == b {
							if ci < si {
								dominatesAll = false
							}
						} else if !b.Dominates(cb) {
							dominatesAll = false
						}
					}
				}
				if dominatesAll {
					return true
				}
			}
		}
		return false
	}
	// assignedOnAllPaths: in every function that stores path, every path from
	// the entry to a return passes a store to it (the value is set afresh for
	// each message, never inherited)
	assignedOnAllPaths := func(path string) (bool, string) {
		fnsWith := map[*ssa.Function]bool{}
		for _, w := range writes[path] {
			fnsWith[w.fn] = true
		}
		if len(fnsWith) == 0 {
			return false, ""
		}
		for fn := range fnsWith {
			gen := map[*ssa.BasicBlock]bool{}
			for _, w := range writes[path] {
				if w.fn == fn {
					gen[w.st.Block()] = true
				}
			}
			out := map[*ssa.BasicBlock]bool{}
			for _, b := range fn.Blocks {
				out[b] = true
			}
			out[fn.Blocks[0]] = gen[fn.Blocks[0]]
			for changed := true; changed; {
				changed = false
				for _, b := range fn.Blocks {
					in := len(b.Preds) > 0
					for _, pr := range b.Preds {
						in = in && out[pr]
					}
					if b == fn.Blocks[0] {
						in = false
					}
					o := in || gen[b]
					if o != out[b] {
						out[b] = o
						changed = true
					}
				}
			}
			for _, b := range fn.Blocks {
				if ret, ok := b.Instrs[len(b.Instrs)-1].(*ssa.Return); ok && !out[b] {
					// a return that reports failure ends the parse: nothing is carried further
					fail := false
					for _, rv := range ret.Results {
						if c, ok := rv.(*ssa.Const); ok && constVal(c).K == KBool && !constVal(c).B {
							fail = true
						}
					}
					if !fail {
						return false, fmt.Sprintf("%s can return (%s) without having assigned it", FnName(fn), p.Pos(ret.Pos()))
					}
				}
			}
		}
		return true, ""
	}
	for _, name := range names {
		key := rule + ":sml.parser." + name
		if isReset(name) {
			r.ok(rule, key, p.Pos(pm.Pos()), "re-initialised in parseMessage before any other parser method runs")
			continue
		}
		// accumulator / stream: every store is append(field, ...) or field[k:]
		acc := len(writes[name]) > 0 && !strings.Contains(name, ".")
		for _, w := range writes[name] {
			if !isSelfAppendOrReslice(w.st.Val, st, name) {
				acc = false
			}
		}
		if acc {
			r.ok(rule, key, "", fmt.Sprintf("only ever extended by append or advanced by reslicing (%d stores): a result list or the token stream, not per-message state", len(writes[name])))
			continue
		}
		if fns, ok := privateToTokenSupplier(p, name, fieldPath); ok {
			r.ok(rule, key, "", fmt.Sprintf("read only inside %s, which hand out the next token of the lexer: the one-token look-ahead of the token stream, whose effect on the parse is the token handed out, not per-message state", strings.Join(fns, ", ")))
			continue
		}
		if ok, _ := assignedOnAllPaths(name); ok {
			r.ok(rule, key, "", "assigned afresh on every path of the function that sets it: never inherited from the previous message")
			continue
		}
		_, why := assignedOnAllPaths(name)
		pos := ""
		if len(writes[name]) > 0 {
			pos = p.Pos(writes[name][0].pos)
		}
		r.bad(rule, key, pos, fmt.Sprintf("parser field %s is written while a message is parsed but is neither re-initialised at the start of parseMessage, nor an append-only list, nor assigned on every path (%s): its value survives the message terminator and can influence the next message", name, why))
	}
	r.Floor(rule, 6)
	// the lexer re-enters the header state after the terminator, from both states
	ttEnd, ok := smlConst(p, "tokenTypeMessageEnd")
	if !ok {
		r.unk(rule, "anchor:sml.tokenTypeMessageEnd", "", "constant not found")
		return
	}
	for _, name := range []string{"lexMessageHeader", "lexMessageText"} {
		fn := p.MustFunc(r, "sml", name)
		if fn == nil {
			continue
		}
		key := rule + ":sml." + name + ":after-terminator"
		found, okRet := false, true
		for _, b := range fn.Blocks {
			for _, instr := range b.Instrs {
				call, isCall := instr.(*ssa.Call)
				if !isCall {
					continue
				}
				c := call.Common().StaticCallee()
				if c == nil || !strings.HasPrefix(c.Name(), "emit") || len(call.Common().Args) < 2 {
					continue
				}
				cs, isC := call.Common().Args[1].(*ssa.Const)
				if !isC || constVal(cs).I.Int64() != ttEnd {
					continue
				}
				found = true
				ret, isRet := b.Instrs[len(b.Instrs)-1].(*ssa.Return)
				if !isRet {
					okRet = false
					continue
				}
				if f, isF := unwrapChange(ret.Results[0]).(*ssa.Function); !isF || f.Name() != "lexMessageHeader" {
					okRet = false
				}
			}
		}
		switch {
		case !found:
			r.unk(rule, key, p.Pos(fn.Pos()), "no emission of the message terminator found")
		case okRet:
			r.ok(rule, key, p.Pos(fn.Pos()), "after emitting the terminator the state returns lexMessageHeader")
		default:
			r.bad(rule, key, p.Pos(fn.Pos()), "after emitting the message terminator "+name+" does not return to lexMessageHeader")
		}
	}
	// lexer mode flags: a field of the lexer that a state function sets to a
	// constant is a mode; it must be back at its zero value whenever the
	// terminator has been emitted, or it leaks into the next message
	if lx := p.Func("sml", "lexMessageHeader"); lx != nil && len(lx.Params) == 1 {
		lst := derefStruct(lx.Params[0].Type())
		flags := map[string]bool{}
		var stateFns []*ssa.Function
		for _, fn := range p.PkgFuncs("sml") {
			if isStateFn(fn) {
				stateFns = append(stateFns, fn)
			}
		}
		for _, fn := range stateFns {
			for _, b := range fn.Blocks {
				for _, instr := range b.Instrs {
					if s, ok := instr.(*ssa.Store); ok {
						if fa, ok := s.Addr.(*ssa.FieldAddr); ok && lst != nil && derefStruct(fa.X.Type()) == lst {
							if _, isC := s.Val.(*ssa.Const); isC {
								flags[lst.Field(fa.Field).Name()] = true
							}
						}
					}
				}
			}
		}
		var fl []string
		for f := range flags {
			fl = append(fl, f)
		}
		sort.Strings(fl)
		for _, f := range fl {
			key := rule + ":sml.lexer." + f + ":mode-flag"
			var leaks []string
			for _, fn := range stateFns {
				for _, b := range fn.Blocks {
					emitsEnd, resets := false, false
					for _, instr := range b.Instrs {
						if c, ok := instr.(*ssa.Call); ok {
							if sc := c.Common().StaticCallee(); sc != nil && strings.HasPrefix(sc.Name(), "emit") && len(c.Common().Args) >= 2 {
								if cs, ok := c.Common().Args[1].(*ssa.Const); ok && constVal(cs).K == KInt && constVal(cs).I.Int64() == ttEnd {
									emitsEnd = true
								}
							}
						}
						if s, ok := instr.(*ssa.Store); ok {
							if fa, ok := s.Addr.(*ssa.FieldAddr); ok && derefStruct(fa.X.Type()) == lst && lst.Field(fa.Field).Name() == f {
								if c, ok := s.Val.(*ssa.Const); ok {
									z := constVal(c)
									if (z.K == KBool && !z.B) || (z.K == KInt && z.I.Sign() == 0) || (z.K == KStr && z.S == "") || z.K == KNil {
										resets = true
									}
								}
							}
						}
					}
					if emitsEnd && !resets {
						leaks = append(leaks, fn.Name())
					}
				}
			}
			if len(leaks) > 0 {
				r.bad(rule, key, "", fmt.Sprintf("lexer field %s is set to a constant by a state function (a mode flag) but is not reset where %s emits the message terminator: the mode survives into the next message", f, strings.Join(uniq(leaks), ", ")))
			} else {
				r.ok(rule, key, "", "mode flag is reset wherever the message terminator is emitted")
			}
		}
		if len(fl) == 0 {
			r.ok(rule, rule+":sml.lexer:no-mode-flags", "", "no state function stores a constant into a lexer field: the lexer has no mode besides its state function and cursor")
		}
	}
	// the message loop runs until EOF
	if pf := p.MustFunc(r, "sml", "Parse"); pf != nil {
		key := rule + ":sml.Parse:loop"
		ttEOF, _ := smlConst(p, "tokenTypeEOF")
		var call *ssa.Call
		// the loop stands in Parse itself or in a function of the package Parse
		// calls (one level)
		cands := []*ssa.Function{pf}
		for _, b := range pf.Blocks {
			for _, instr := range b.Instrs {
				if c, ok := instr.(*ssa.Call); ok {
					if sc := c.Common().StaticCallee(); sc != nil && sc != pm && InModule(sc) && sc.Pkg == pf.Pkg && len(sc.Blocks) > 0 {
						cands = append(cands, sc)
					}
				}
			}
		}
		loopFn := pf
		for _, cf := range cands {
			for _, b := range cf.Blocks {
				for _, instr := range b.Instrs {
					if c, ok := instr.(*ssa.Call); ok && c.Common().StaticCallee() == pm && call == nil {
						call = c
						loopFn = cf
					}
				}
			}
		}
		good := false
		if call != nil && inLoop(call.Block()) {
			for _, b := range loopFn.Blocks {
				if iff, ok := b.Instrs[len(b.Instrs)-1].(*ssa.If); ok && inLoop(b) {
					if bo, ok := iff.Cond.(*ssa.BinOp); ok && (bo.Op == token.NEQ || bo.Op == token.EQL) {
						if c, ok := bo.Y.(*ssa.Const); ok && constVal(c).K == KInt && constVal(c).I.Int64() == ttEOF {
							good = true
						}
					}
				}
			}
		}
		if good {
			r.ok(rule, key, p.Pos(pf.Pos()), "parseMessage is called in a loop that ends at the EOF token")
		} else {
			r.bad(rule, key, p.Pos(pf.Pos()), "sml.Parse does not call parseMessage in a loop that runs until the EOF token")
		}
	}
}

func isSelfAppendOrReslice(v ssa.Value, st *types.Struct, name string) bool {
	isField := func(x ssa.Value) bool {
		ld, ok := x.(*ssa.UnOp)
		if !ok {
			return false
		}
		fa, ok := ld.X.(*ssa.FieldAddr)
		return ok && derefStruct(fa.X.Type()) == st && st.Field(fa.Field).Name() == name
	}
	switch x := v.(type) {
	case *ssa.Call:
		if bi, ok := x.Common().Value.(*ssa.Builtin); ok && bi.Name() == "append" {
			return isField(x.Common().Args[0])
		}
	case *ssa.Slice:
		return isField(x.X)
	}
	return false
}

// ---------------------------------------------------------------------------
// R6c — no input-sized allocation is made before a recursive call.

func ruleAllocBeforeRecursion(pkg string) func(p *Prog, r *Report) {
	return func(p *Prog, r *Report) {
		const rule = "R6c-prealloc"
		t := computeTaint(p, pkg)
		n := 0
		for _, fn := range p.PkgFuncs(pkg) {
			// is fn on a call-graph cycle?
			cyc := onCycle(p, fn)
			if len(cyc) == 0 {
				continue
			}
			for _, b := range fn.Blocks {
				for _, instr := range b.Instrs {
					var size ssa.Value
					switch x := instr.(type) {
					case *ssa.MakeSlice:
						if t.tainted[x.Len] {
							size = x.Len
						} else if t.tainted[x.Cap] {
							size = x.Cap
						}
					}
					if size == nil {
						continue
					}
					n++
					key := fmt.Sprintf("%s:%s:make#%d", rule, FnName(fn), n)
					// can a recursive call be reached from here?
					rec := false
					seen := map[*ssa.BasicBlock]bool{}
					var walk func(bb *ssa.BasicBlock, from int)
					walk = func(bb *ssa.BasicBlock, from int) {
						for i := from; i < len(bb.Instrs); i++ {
							if c, ok := bb.Instrs[i].(*ssa.Call); ok {
								for _, callee := range p.Callees(c) {
									if cyc[callee] {
										rec = true
									}
								}
							}
						}
						for _, s := range bb.Succs {
							if !seen[s] {
								seen[s] = true
								walk(s, 0)
							}
						}
					}
					walk(b, instrIndex(b, instr)+1)
					if rec {
						r.bad(rule, key, p.Pos(instr.Pos()), fmt.Sprintf("a buffer sized from the input-declared value %s is allocated and then %s recurses: every nesting level can reserve a buffer proportional to the remaining input, so total memory is quadratic in the input length", size.Name(), FnName(fn)))
					} else {
						r.ok(rule, key, p.Pos(instr.Pos()), "no recursive call is reachable after this input-sized allocation")
					}
				}
			}
		}
		if n == 0 {
			r.ok(rule, rule+":"+pkg+":none", "", "no input-sized allocation inside a recursive function of package "+pkg)
		}
	}
}

// onCycle returns the set of module functions on a call-graph cycle with fn
// (empty when fn is not recursive).
func onCycle(p *Prog, fn *ssa.Function) map[*ssa.Function]bool {
	reach := map[*ssa.Function]bool{}
	var dfs func(f *ssa.Function)
	dfs = func(f *ssa.Function) {
		n := p.CG.Nodes[f]
		if n == nil {
			return
		}
		for _, e := range n.Out {
			c := e.Callee.Func
			if InModule(c) && c.Blocks != nil && !reach[c] {
				reach[c] = true
				dfs(c)
			}
		}
	}
	dfs(fn)
	if !reach[fn] {
		return nil
	}
	// functions that reach fn and are reached from fn
	out := map[*ssa.Function]bool{}
	for c := range reach {
		r2 := map[*ssa.Function]bool{}
		var d2 func(f *ssa.Function)
		d2 = func(f *ssa.Function) {
			n := p.CG.Nodes[f]
			if n == nil {
				return
			}
			for _, e := range n.Out {
				cc := e.Callee.Func
				if InModule(cc) && cc.Blocks != nil && !r2[cc] {
					r2[cc] = true
					d2(cc)
				}
			}
		}
		d2(c)
		if r2[fn] {
			out[c] = true
		}
	}
	return out
}

func unwrapChange(v ssa.Value) ssa.Value {
	for {
		c, ok := v.(*ssa.ChangeType)
		if !ok {
			return v
		}
		v = c.X
	}
}

// upperCasedByEvaluation lexes lower-case message texts that hold every
// keyword-like token kind and every data item keyword, and compares the
// tokens of those kinds with the upper-cased words.
func upperCasedByEvaluation(p *Prog, kinds map[int64]string) (detail string, decided, good bool) {
	texts := []struct {
		text string
		want []string
	}{
		{"s1f1 w h->e\n<boolean t f>\n.", []string{"S1F1", "W", "H->E", "BOOLEAN", "T", "F"}},
		{"s127f255 [w] h<-e\n<l <a> <b> <f4> <f8> <i1> <i2> <i4> <i8> <u1> <u2> <u4> <u8>>\n.", []string{"S127F255", "[W]", "H<-E", "L", "A", "B", "F4", "F8", "I1", "I2", "I4", "I8", "U1", "U2", "U4", "U8"}},
		{"S6F11 W H<->E\n<L <Boolean T> <bOOLEAN f>>\n.", []string{"S6F11", "W", "H<->E", "L", "BOOLEAN", "T", "BOOLEAN", "F"}},
	}
	var bad []string
	n := 0
	for _, tc := range texts {
		toks, ok := lexAll(p, "lexMessageHeader", tc.text, 400)
		if !ok {
			return "", false, false
		}
		var got []string
		for _, t := range toks {
			if _, isKw := kinds[t.typ]; isKw {
				got = append(got, t.val)
			}
		}
		n += len(got)
		if strings.Join(got, " ") != strings.Join(tc.want, " ") {
			bad = append(bad, fmt.Sprintf("the text %q yields the keyword-like tokens %v, expected %v", tc.text, got, tc.want))
		}
	}
	if len(bad) > 0 {
		return strings.Join(firstN(bad, 2), "; "), true, false
	}
	return fmt.Sprintf("evaluated on three lower- and mixed-case messages: all %d stream/function, wait-bit, direction, item-type and boolean tokens are emitted upper-cased", n), true, true
}

// privateToTokenSupplier: every read of the parser field (or of a part of it)
// stands in a function that itself calls the lexer's token-returning method.
func privateToTokenSupplier(p *Prog, name string, fieldPath func(ssa.Value) string) ([]string, bool) {
	isTokenCall := func(sc *ssa.Function) bool {
		if sc == nil || sc.Signature.Recv() == nil || sc.Pkg == nil || sc.Pkg.Pkg.Name() != "sml" {
			return false
		}
		res := sc.Signature.Results()
		if res.Len() != 1 || sc.Signature.Params().Len() != 0 || !strings.Contains(sc.Signature.Recv().Type().String(), "lexer") {
			return false
		}
		nm, ok := res.At(0).Type().(*types.Named)
		return ok && nm.Obj().Name() == "token"
	}
	// suppliers: functions that hand out a token and get it from the lexer's
	// token method, directly or from another supplier
	returnsToken := func(f *ssa.Function) bool {
		res := f.Signature.Results()
		for i := 0; i < res.Len(); i++ {
			if nm, ok := res.At(i).Type().(*types.Named); ok && nm.Obj().Name() == "token" {
				return true
			}
		}
		return false
	}
	supplier := map[*ssa.Function]bool{}
	for changed := true; changed; {
		changed = false
		for _, fn := range p.PkgFuncs("sml") {
			if supplier[fn] || !returnsToken(fn) {
				continue
			}
			for _, b := range fn.Blocks {
				for _, instr := range b.Instrs {
					if c, ok := instr.(ssa.CallInstruction); ok {
						if sc := c.Common().StaticCallee(); sc != nil && (isTokenCall(sc) || supplier[sc]) && !supplier[fn] {
							supplier[fn] = true
							changed = true
						}
					}
				}
			}
		}
	}
	readers := map[string]bool{}
	for _, fn := range p.PkgFuncs("sml") {
		reads := false
		for _, b := range fn.Blocks {
			for _, instr := range b.Instrs {
				if x, ok := instr.(*ssa.UnOp); ok && x.Op == token.MUL {
					if fp := fieldPath(x.X); fp == name || strings.HasPrefix(fp, name+".") {
						reads = true
					}
				}
			}
		}
		if reads && !supplier[fn] {
			return nil, false
		}
		if reads {
			readers[FnName(fn)] = true
		}
	}
	if len(readers) == 0 {
		return nil, false
	}
	var out []string
	for f := range readers {
		out = append(out, f)
	}
	sort.Strings(out)
	return out, true
}
