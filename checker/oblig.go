package main

import (
	"encoding/json"
	"fmt"
	"os"
	"path/filepath"
	"regexp"
	"sort"
	"strings"
)

type Status string

const (
	Discharged Status = "discharged"
	Violated   Status = "violated"
	Undecided  Status = "undecided"
)

// Obligation is one instance of a rule applied to one construct. Key is
// rule:construct and never contains a line number.
type Obligation struct {
	Rule   string `json:"rule"`
	Key    string `json:"key"`
	Pos    string `json:"pos,omitempty"`
	Status Status `json:"status"`
	Detail string `json:"detail,omitempty"`
	// Nontrivial marks obligations whose verdict depended on analysing code
	// (a path, a denotation, a flow) rather than on mere presence.
	Nontrivial bool `json:"nontrivial,omitempty"`
}

// Report collects obligations of one property run.
type Report struct {
	Obls   []Obligation
	Floors map[string]int // rule -> minimum number of obligations
	// Credits: instances a rule counts beyond its obligations (see Credit)
	Credits map[string]int
	Notes   []string
	// SelfTest is filled by the thorough tier (variant matrix outcome).
	SelfTest map[string]interface{}
	seen     map[string]bool
}

func NewReport() *Report {
	return &Report{Floors: map[string]int{}, seen: map[string]bool{}}
}

func (r *Report) Add(o Obligation) {
	// keys must be unique; disambiguate deterministically
	k := o.Key
	for i := 2; r.seen[k]; i++ {
		k = fmt.Sprintf("%s#%d", o.Key, i)
	}
	o.Key = k
	r.seen[k] = true
	r.Obls = append(r.Obls, o)
}

func (r *Report) ok(rule, key, pos, detail string) {
	r.Add(Obligation{Rule: rule, Key: key, Pos: pos, Status: Discharged, Detail: detail, Nontrivial: true})
}
func (r *Report) bad(rule, key, pos, detail string) {
	r.Add(Obligation{Rule: rule, Key: key, Pos: pos, Status: Violated, Detail: detail, Nontrivial: true})
}
func (r *Report) unk(rule, key, pos, detail string) {
	r.Add(Obligation{Rule: rule, Key: key, Pos: pos, Status: Undecided, Detail: detail, Nontrivial: true})
}

// Floor declares the minimum number of obligations a rule must produce: a
// rule that has lost its anchors must not pass by matching nothing.
func (r *Report) Floor(rule string, n int) { r.Floors[rule] = n }

// Credit counts n further instances for a rule's floor: one obligation on a
// shared helper stands for as many instances as the helper has call sites
// (merging equal code into a helper must not look like a lost anchor).
func (r *Report) Credit(rule string, n int) {
	if r.Credits == nil {
		r.Credits = map[string]int{}
	}
	r.Credits[rule] += n
}

func (r *Report) Note(format string, a ...interface{}) {
	r.Notes = append(r.Notes, fmt.Sprintf(format, a...))
}

func (r *Report) CountByRule() map[string]int {
	m := map[string]int{}
	for _, o := range r.Obls {
		m[o.Rule]++
	}
	return m
}

// CheckFloors turns missing instances into undecided obligations.
func (r *Report) CheckFloors() {
	c := r.CountByRule()
	var rules []string
	for rule := range r.Floors {
		rules = append(rules, rule)
	}
	sort.Strings(rules)
	for _, rule := range rules {
		if c[rule]+r.Credits[rule] < r.Floors[rule] {
			r.Add(Obligation{Rule: rule, Key: "floor:" + rule, Status: Undecided,
				Detail: fmt.Sprintf("rule produced %d obligations, fewer than the %d instances confirmed by reading the code: its anchors no longer match", c[rule], r.Floors[rule])})
		}
	}
}

// KnownFindings is the committed list of open findings; read-only at run time.
type KnownFindings struct {
	Open []struct {
		Property string `json:"property"`
		Rule     string `json:"rule"`
		Key      string `json:"key"`
		What     string `json:"what"`
	} `json:"open"`
	Fixed []string `json:"fixed"`
}

func LoadKnown(path string) (*KnownFindings, error) {
	var k KnownFindings
	b, err := os.ReadFile(path)
	if err != nil {
		return nil, err
	}
	if err := json.Unmarshal(b, &k); err != nil {
		return nil, err
	}
	return &k, nil
}

func (k *KnownFindings) Lookup(prop, key string) (string, bool) {
	for _, o := range k.Open {
		if o.Property == prop && o.Key == key {
			return o.What, true
		}
	}
	return "", false
}

var unsafeName = regexp.MustCompile(`[^A-Za-z0-9_.-]+`)

// Finish prints the verdict lines, writes replay files and evidence, and
// returns the exit code.
func Finish(prop *Property, tier string, seed int, r *Report, p *Prog, known *KnownFindings,
	evidencePath string, wall float64, extra map[string]interface{}) int {
	r.CheckFloors()
	evDir := filepath.Dir(evidencePath)
	replayDir := filepath.Join(evDir, "replay")
	os.MkdirAll(replayDir, 0o755)
	// remove stale replay files of this property
	old, _ := filepath.Glob(filepath.Join(replayDir, prop.ID+"-*.json"))
	for _, f := range old {
		os.Remove(f)
	}

	sort.SliceStable(r.Obls, func(i, j int) bool { return r.Obls[i].Key < r.Obls[j].Key })
	nViol, nKnown, nDis := 0, 0, 0
	distinct := map[string]bool{}
	var samples []interface{}
	var failing []interface{}
	for _, o := range r.Obls {
		if o.Nontrivial {
			distinct[o.Key] = true
		}
		switch o.Status {
		case Discharged:
			nDis++
		default:
			if what, ok := known.Lookup(prop.ID, o.Key); ok && o.Status == Violated {
				fmt.Printf("KNOWN-FINDING: property=%s %s %s\n", prop.ID, o.Key, what)
				nKnown++
				continue
			}
			nViol++
			path := filepath.Join(replayDir, prop.ID+"-"+unsafeName.ReplaceAllString(o.Key, "_")+".json")
			rec := map[string]interface{}{"property": prop.ID, "tier": tier, "obligation": o,
				"replay": fmt.Sprintf("cd /verif && ./run.sh %s %s   # re-evaluates rule %s on /repo's current tree", prop.ID, tier, o.Rule)}
			b, _ := json.MarshalIndent(rec, "", " ")
			os.WriteFile(path, b, 0o644)
			fmt.Printf("%s %s %s: %s\n", strings.ToUpper(string(o.Status)), o.Key, o.Pos, o.Detail)
			fmt.Printf("VIOLATION property=%s replay=%s\n", prop.ID, path)
			failing = append(failing, o)
		}
	}
	// samples: a spread of discharged obligations, one per rule first
	perRule := map[string]int{}
	for _, o := range r.Obls {
		if o.Status == Discharged && perRule[o.Rule] < 2 && len(samples) < 24 {
			perRule[o.Rule]++
			samples = append(samples, o)
		}
	}
	for _, f := range failing {
		samples = append(samples, f)
	}
	counts := r.CountByRule()
	floors := map[string]interface{}{}
	for rule, n := range counts {
		floors[rule] = map[string]int{"obligations": n, "floor": r.Floors[rule]}
	}
	cov := map[string]interface{}{
		"explanation":         prop.Explanation,
		"obligations":         len(r.Obls),
		"discharged":          nDis,
		"known_findings":      nKnown,
		"evaluations":         len(r.Obls),
		"distinct_nontrivial": len(distinct),
		"rule": "one evaluation = one rule instance (rule:construct key) derived from /repo's current source; " +
			"non-trivial = the verdict required analysing a path, a value flow, a guard denotation or a table, not mere presence; distinct = distinct keys",
		"samples":            samples,
		"rules":              floors,
		"not_decided":        prop.NotDecided,
		"packages_analysed":  len(p.Pkgs),
		"files_analysed":     p.NFiles,
		"functions_analysed": p.NFuncs,
		"callgraph_edges":    p.NEdges,
		"checker_cmd":        fmt.Sprintf("./run.sh %s %s", prop.ID, tier),
		"trusted_base": []string{"go/types and go/packages (type-checked program)", "golang.org/x/tools v0.29.0 go/ssa, callgraph/cha, callgraph/vta",
			"the checker's own rule engines and spec tables (checker/spec.go)", "documented behaviour of strconv, regexp, math, encoding/binary, strings, unicode, fmt"},
		"notes":      r.Notes,
		"exhaustive": false,
	}
	for k, v := range extra {
		cov[k] = v
	}
	if r.SelfTest != nil {
		cov["self_test"] = r.SelfTest
	}
	ev := map[string]interface{}{
		"property_id": prop.ID,
		"tier":        tier,
		"seed":        seed,
		"level":       "other",
		"coverage":    cov,
		"assumptions": prop.Assumptions,
		"wall_s":      wall,
		"violations":  nViol,
	}
	b, _ := json.MarshalIndent(ev, "", " ")
	if err := os.WriteFile(evidencePath, b, 0o644); err != nil {
		fmt.Fprintln(os.Stderr, "cannot write evidence:", err)
		return 2
	}
	fmt.Printf("%s %s: %d obligations, %d discharged, %d known findings, %d failing; rules:", prop.ID, tier, len(r.Obls), nDis, nKnown, nViol)
	var rules []string
	for rule := range counts {
		rules = append(rules, rule)
	}
	sort.Strings(rules)
	for _, rule := range rules {
		fmt.Printf(" %s=%d", rule, counts[rule])
	}
	fmt.Println()
	if nViol > 0 {
		return 1
	}
	return 0
}
