package main

import (
	"fmt"
	"go/token"
	"go/types"
	"math/big"
	"os"
	"regexp"
	"sort"
	"strings"

	"golang.org/x/tools/go/ssa"
)

var basicKinds = []types.BasicKind{types.Int, types.Int8, types.Int16, types.Int32, types.Int64,
	types.Uint, types.Uint8, types.Uint16, types.Uint32, types.Uint64, types.Uintptr,
	types.Float32, types.Float64, types.Bool, types.String, types.Complex128}

var intKinds = map[string]bool{"int": true, "int8": true, "int16": true, "int32": true, "int64": true,
	"uint": true, "uint8": true, "uint16": true, "uint32": true, "uint64": true}

type factorySpec struct {
	name   string
	accept func(tn string) bool // by type name; "ItemNode" stands for every implementation
	doc    string
}

var factorySpecs = []factorySpec{
	{"NewListNode", func(t string) bool { return t == "ItemNode" || t == "string" }, "ItemNode, string"},
	{"NewBinaryNode", func(t string) bool { return t == "int" || t == "string" }, "int, string"},
	{"NewBooleanNode", func(t string) bool { return t == "bool" || t == "string" }, "bool, string"},
	{"NewIntNode", func(t string) bool { return intKinds[t] || t == "string" }, "the ten integer types, string"},
	{"NewUintNode", func(t string) bool { return intKinds[t] || t == "string" }, "the ten integer types, string"},
	{"NewFloatNode", func(t string) bool { return intKinds[t] || t == "float32" || t == "float64" || t == "string" }, "the ten integer types, float32, float64, string"},
}

func variadicIndex(fn *ssa.Function) int {
	if !fn.Signature.Variadic() {
		return -1
	}
	return len(fn.Params) - 1
}

func itemNodeImpls(p *Prog) []types.Type {
	astPkg := p.Pkgs["ast"].Types
	it := astPkg.Scope().Lookup("ItemNode").Type().Underlying().(*types.Interface)
	var out []types.Type
	sc := astPkg.Scope()
	for _, name := range sc.Names() {
		tn, ok := sc.Lookup(name).(*types.TypeName)
		if !ok {
			continue
		}
		t := tn.Type()
		if types.IsInterface(t) {
			continue
		}
		if types.Implements(types.NewPointer(t), it) && !types.Implements(t, it) {
			out = append(out, types.NewPointer(t))
		} else if types.Implements(t, it) {
			out = append(out, t)
		}
	}
	return out
}

// elementAccepted evaluates the factory's element loop with an element of the
// given dynamic type (value unknown) and reports whether it can get past it.
func elementAccepted(p *Prog, fn *ssa.Function, vi int, dyn types.Type, inner Val, extraArgs map[int]Val) (accepted bool, stuck []string, in *Interp, found bool) {
	args := defaultArgs(fn)
	for i, v := range extraArgs {
		args[i] = v
	}
	path := fmt.Sprintf("p%d", vi)
	sites := elemSites(p, fn, args, nil, path)
	if len(sites) == 0 {
		return false, nil, nil, false
	}
	accepted = true
	for _, site := range sites {
		in = NewInterp(p)
		in.Symbolic = inner.K == KSym
		o1 := in.Run(fn, args, nil)
		outer := o1.Frame.Vals()
		in.ResetHeap() // what the unbound run stored must not blur the bound run
		iv := inner
		ev := Val{K: KIface, T: dyn, Inner: &iv, Dep: true}
		in.Bind = func(v ssa.Value, fr *frame) (Val, bool) {
			if v == site {
				return ev, true
			}
			return Val{}, false
		}
		o2 := in.RunOuter(fn, args, site.(ssa.Instruction).Block(), outer)
		if !(o2.CanReturn || o2.Frame.reentered) {
			accepted = false
		}
		stuck = append(stuck, in.Stuck...)
	}
	return accepted, stuck, in, true
}

// R2 iface-types — what the factories accept, and that every producer inside
// the module hands them only that.
func ruleIfaceTypes(p *Prog, r *Report) {
	const rule = "R2-iface"
	impls := itemNodeImpls(p)
	accepted := map[string]map[string]bool{}
	for _, fs := range factorySpecs {
		fn := p.MustFunc(r, "ast", fs.name)
		if fn == nil {
			continue
		}
		vi := variadicIndex(fn)
		key := rule + ":consumer:ast." + fs.name
		if vi < 0 {
			r.unk(rule, key, p.Pos(fn.Pos()), "factory is not variadic")
			continue
		}
		extra := map[int]Val{}
		if bi := paramIndex(fn, "byteSize"); bi >= 0 {
			extra[bi] = int64Val(8)
		}
		acc := map[string]bool{}
		var bad, undec []string
		try := func(t types.Type, tn string) {
			ok, stuck, _, found := elementAccepted(p, fn, vi, t, top, extra)
			if !found {
				undec = append(undec, "no loop over the arguments found")
				return
			}
			if len(stuck) > 0 {
				undec = append(undec, "evaluation stuck for "+tn)
				return
			}
			if ok {
				acc[tn] = true
			}
			if ok != fs.accept(tn) {
				if ok {
					bad = append(bad, fmt.Sprintf("an argument of dynamic type %s is accepted (documented: %s)", types.TypeString(t, nil), fs.doc))
				} else {
					bad = append(bad, fmt.Sprintf("an argument of dynamic type %s is refused (documented: %s)", types.TypeString(t, nil), fs.doc))
				}
			}
		}
		for _, k := range basicKinds {
			try(types.Typ[k], types.Typ[k].Name())
		}
		for _, t := range impls {
			try(t, "ItemNode")
		}
		accepted[fs.name] = acc
		switch {
		case len(bad) > 0:
			r.bad(rule, key, p.Pos(fn.Pos()), strings.Join(firstN(uniq(bad), 4), "; "))
		case len(undec) > 0:
			r.unk(rule, key, p.Pos(fn.Pos()), strings.Join(uniq(undec), "; "))
		default:
			var l []string
			for t := range acc {
				l = append(l, t)
			}
			sort.Strings(l)
			r.ok(rule, key, p.Pos(fn.Pos()), "accepts exactly the dynamic types "+strings.Join(l, ", ")+"; every other type reaches the 'invalid type' refusal")
		}
	}
	// producers
	nProd := 0
	for _, fn := range p.Funcs {
		ord := map[string]int{}
		for _, b := range fn.Blocks {
			for _, instr := range b.Instrs {
				call, ok := instr.(*ssa.Call)
				if !ok {
					continue
				}
				callee := call.Common().StaticCallee()
				if callee == nil || !isFactory(callee) || accepted[callee.Name()] == nil {
					continue
				}
				vi := variadicIndex(callee)
				if vi < 0 || vi >= len(call.Common().Args) {
					continue
				}
				nProd++
				k := ord[callee.Name()]
				ord[callee.Name()]++
				key := fmt.Sprintf("%s:producer:%s->%s#%d", rule, FnName(fn), callee.Name(), k)
				prods, user, unknown := ifaceProducers(p, call.Common().Args[vi])
				var bad []string
				var names []string
				for tn := range prods {
					names = append(names, tn)
					if !accepted[callee.Name()][tn] {
						bad = append(bad, fmt.Sprintf("hands %s a value of dynamic type %s, which that factory refuses", callee.Name(), tn))
					}
				}
				sort.Strings(names)
				desc := strings.Join(names, ", ")
				if user {
					desc += " (+ caller-supplied values, refused or accepted as the factory documents)"
				}
				if unknown != "" && len(bad) == 0 && fn.Pkg != nil && fn.Pkg.Pkg.Name() == "hsms" {
					// the data flow could not be followed (a closure, a shared
					// helper with an unreachable default): evaluate the item
					// decoder on an item of every format this factory builds and
					// look at the dynamic types that actually arrive
					if names, bad2, ok := decoderProducedTypes(p, callee.Name(), accepted[callee.Name()]); ok {
						unknown = ""
						bad = bad2
						desc = strings.Join(names, ", ") + " (evaluated from the item decoder for every format built by " + callee.Name() + ")"
					}
				}
				switch {
				case len(bad) > 0:
					r.bad(rule, key, p.Pos(call.Pos()), FnName(fn)+" "+strings.Join(bad, "; "))
				case unknown != "":
					r.unk(rule, key, p.Pos(call.Pos()), "a value of undetermined dynamic type reaches the factory: "+unknown)
				default:
					r.ok(rule, key, p.Pos(call.Pos()), "hands the factory values of dynamic type "+desc)
				}
			}
		}
	}
	// a factory handed on as a function value (a table or a parameter of a
	// shared decoding helper) is called where no static call names it: the
	// types that arrive are read off the item decoder, evaluated on an item of
	// every format that factory builds
	for _, fn := range p.Funcs {
		seenVal := map[string]bool{}
		for _, b := range fn.Blocks {
			for _, instr := range b.Instrs {
				var callee *ssa.Function
				if c, isCall := instr.(ssa.CallInstruction); isCall {
					callee = c.Common().StaticCallee()
				}
				for _, op := range instr.Operands(nil) {
					if op == nil || *op == nil {
						continue
					}
					var f *ssa.Function
					switch x := (*op).(type) {
					case *ssa.Function:
						f = x
					case *ssa.ChangeType:
						f, _ = x.X.(*ssa.Function)
					}
					if f == nil || f == callee || !isFactory(f) || accepted[f.Name()] == nil || seenVal[f.Name()] {
						continue
					}
					seenVal[f.Name()] = true
					nProd++
					key := fmt.Sprintf("%s:producer:%s->%s#value", rule, FnName(fn), f.Name())
					if fn.Pkg != nil && fn.Pkg.Pkg.Name() == "hsms" {
						if names, bad2, ok := decoderProducedTypes(p, f.Name(), accepted[f.Name()]); ok {
							if len(bad2) > 0 {
								r.bad(rule, key, p.Pos(instr.Pos()), FnName(fn)+" "+strings.Join(bad2, "; "))
							} else {
								r.ok(rule, key, p.Pos(instr.Pos()), "the factory is handed on as a function value; evaluated from the item decoder for every format it builds, it receives values of dynamic type "+strings.Join(names, ", "))
							}
							continue
						}
					}
					r.unk(rule, key, p.Pos(instr.Pos()), f.Name()+" is used as a function value in "+FnName(fn)+": the values it is called with there could not be determined")
				}
			}
		}
	}
	r.Floor(rule, 6+17)
	_ = nProd
}

// ifaceProducers collects the dynamic types stored into the []interface{}
// value s (through append chains, indexed stores and phis).
func ifaceProducers(p *Prog, s ssa.Value) (prods map[string]bool, user bool, unknown string) {
	prods = map[string]bool{}
	seenS := map[ssa.Value]bool{}
	seenV := map[ssa.Value]bool{}
	// via is the call through which the walk entered the helper it is in (one
	// level of context: a helper's parameter then means that call's argument,
	// not the arguments of all its callers)
	var via *ssa.Call
	var elem func(v ssa.Value, d int)
	// results follows a call into a helper of the module: what the helper
	// returns at that result position is what the call yields
	results := func(c *ssa.Call, idx int, d int) bool {
		g := c.Common().StaticCallee()
		if g == nil || !InModule(g) || g.Blocks == nil || idx >= g.Signature.Results().Len() {
			return false
		}
		// each call is walked with its own visited set: the helper's values
		// mean something else for every caller
		saved, savedSeen := via, seenV
		via, seenV = c, map[ssa.Value]bool{}
		for _, b := range g.Blocks {
			if ret, ok := b.Instrs[len(b.Instrs)-1].(*ssa.Return); ok {
				elem(ret.Results[idx], d+1)
			}
		}
		via, seenV = saved, savedSeen
		return true
	}
	// closureResults: a call of a function value that is a parameter of the
	// helper the walk is in - what the closure the caller passed returns
	closureResults := func(c *ssa.Call, d int) bool {
		prm, ok := c.Common().Value.(*ssa.Parameter)
		if !ok || via == nil || via.Common().StaticCallee() != prm.Parent() {
			return false
		}
		for i, q := range prm.Parent().Params {
			if q != prm || i >= len(via.Common().Args) {
				continue
			}
			var f *ssa.Function
			switch a := via0Arg(via, i).(type) {
			case *ssa.MakeClosure:
				f, _ = a.Fn.(*ssa.Function)
			case *ssa.Function:
				f = a
			}
			if f == nil || f.Blocks == nil {
				return false
			}
			saved, savedSeen := via, seenV
			via, seenV = nil, map[ssa.Value]bool{}
			for _, b := range f.Blocks {
				if ret, ok := b.Instrs[len(b.Instrs)-1].(*ssa.Return); ok && len(ret.Results) > 0 {
					elem(ret.Results[0], d+1)
				}
			}
			via, seenV = saved, savedSeen
			return true
		}
		return false
	}
	elem = func(v ssa.Value, d int) {
		if v == nil || seenV[v] || d > 12 {
			return
		}
		seenV[v] = true
		switch x := v.(type) {
		case *ssa.MakeInterface:
			t := x.X.Type()
			if types.IsInterface(t) {
				elem(x.X, d+1)
				return
			}
			if _, isPtr := t.Underlying().(*types.Pointer); isPtr || namedStruct(t) != nil {
				prods["ItemNode"] = true
				return
			}
			if b, ok := t.Underlying().(*types.Basic); ok {
				prods[types.Typ[b.Kind()].Name()] = true // byte -> uint8, rune -> int32
				return
			}
			unknown = types.TypeString(t, nil)
		case *ssa.ChangeInterface:
			// an ItemNode converted to interface{}
			prods["ItemNode"] = true
		case *ssa.Phi:
			for _, e := range x.Edges {
				elem(e, d+1)
			}
		case *ssa.Extract:
			switch t := x.Tuple.(type) {
			case *ssa.Lookup:
				user = true // value from the caller's map
			case *ssa.Call:
				if types.IsInterface(x.Type()) && x.Type().String() != "interface{}" && x.Type().String() != "any" {
					prods["ItemNode"] = true
				} else if !results(t, x.Index, d) {
					unknown = "result of " + t.String()
				}
			case *ssa.TypeAssert:
				elem(t.X, d+1)
			default:
				unknown = x.String()
			}
		case *ssa.Lookup:
			user = true
		case *ssa.Call:
			if nt, ok := x.Type().(*types.Named); ok && nt.Obj().Name() == "ItemNode" {
				prods["ItemNode"] = true
			} else if !results(x, 0, d) && !closureResults(x, d) {
				unknown = "result of " + x.String()
			}
		case *ssa.UnOp:
			// load of an element of another []interface{} (e.g. the caller's variadic slice)
			if ia, ok := x.X.(*ssa.IndexAddr); ok {
				if _, isParam := ia.X.(*ssa.Parameter); isParam {
					user = true
					return
				}
			}
			if nt, ok := x.Type().(*types.Named); ok && nt.Obj().Name() == "ItemNode" {
				prods["ItemNode"] = true
				return
			}
			unknown = x.String()
		case *ssa.Const:
			if x.Value == nil {
				unknown = "nil"
			}
		case *ssa.TypeAssert:
			elem(x.X, d+1)
		case *ssa.Parameter:
			// a parameter of a private helper of the module: what its callers pass
			g := x.Parent()
			idx := -1
			for i, prm := range g.Params {
				if prm == x {
					idx = i
				}
			}
			if idx < 0 || exported(g) || !InModule(g) {
				unknown = "parameter " + x.Name() + " of " + FnName(g)
				return
			}
			if via != nil && via.Common().StaticCallee() == g {
				if args := via.Common().Args; idx < len(args) {
					saved, savedSeen := via, seenV
					via, seenV = nil, map[ssa.Value]bool{}
					elem(args[idx], d+1)
					via, seenV = saved, savedSeen
					return
				}
			}
			n := 0
			for _, cf := range p.Funcs {
				for _, cb := range cf.Blocks {
					for _, ci := range cb.Instrs {
						switch c := ci.(type) {
						case *ssa.Call:
							if c.Common().StaticCallee() == g {
								// receiver first for methods
								if args := c.Common().Args; idx < len(args) {
									n++
									elem(args[idx], d+1)
								}
							} else {
								for _, a := range c.Common().Args {
									if a == ssa.Value(g) {
										unknown = FnName(g) + " is used as a function value; the arguments of its parameter " + x.Name() + " cannot all be seen"
									}
								}
							}
						case *ssa.MakeClosure, *ssa.Store:
							for _, op := range ci.Operands(nil) {
								if *op == ssa.Value(g) {
									unknown = FnName(g) + " is used as a function value; the arguments of its parameter " + x.Name() + " cannot all be seen"
								}
							}
						}
					}
				}
			}
			if n == 0 {
				unknown = "parameter " + x.Name() + " of " + FnName(g) + " (no caller found)"
			}
		default:
			if nt, ok := v.Type().(*types.Named); ok && nt.Obj().Name() == "ItemNode" {
				prods["ItemNode"] = true
				return
			}
			unknown = v.String()
		}
	}
	var slice func(v ssa.Value, d int)
	// sliceResults: the slice a helper of the module returns at result idx
	sliceResults := func(c *ssa.Call, idx int, d int) bool {
		g := c.Common().StaticCallee()
		if g == nil || !InModule(g) || g.Blocks == nil || idx >= g.Signature.Results().Len() {
			return false
		}
		saved, savedSeen := via, seenS
		via, seenS = c, map[ssa.Value]bool{}
		for _, b := range g.Blocks {
			if ret, ok := b.Instrs[len(b.Instrs)-1].(*ssa.Return); ok {
				slice(ret.Results[idx], d+1)
			}
		}
		via, seenS = saved, savedSeen
		return true
	}
	slice = func(v ssa.Value, d int) {
		if v == nil || seenS[v] || d > 16 {
			return
		}
		seenS[v] = true
		// indexed stores into this slice value
		if refs := v.Referrers(); refs != nil {
			for _, ref := range *refs {
				if ia, ok := ref.(*ssa.IndexAddr); ok && ia.X == v {
					if r2 := ia.Referrers(); r2 != nil {
						for _, rr := range *r2 {
							if st, ok := rr.(*ssa.Store); ok && st.Addr == ssa.Value(ia) {
								elem(st.Val, 0)
							}
						}
					}
				}
			}
		}
		switch x := v.(type) {
		case *ssa.Slice:
			slice(x.X, d+1)
		case *ssa.Alloc, *ssa.MakeSlice:
		case *ssa.Phi:
			for _, e := range x.Edges {
				slice(e, d+1)
			}
		case *ssa.Call:
			if bi, ok := x.Common().Value.(*ssa.Builtin); ok && bi.Name() == "append" {
				slice(x.Common().Args[0], d+1)
				slice(x.Common().Args[1], d+1)
				return
			}
			if !sliceResults(x, 0, d) {
				unknown = "slice from " + x.String()
			}
		case *ssa.Extract:
			if c, ok := x.Tuple.(*ssa.Call); !ok || !sliceResults(c, x.Index, d) {
				unknown = "slice " + v.String()
			}
		case *ssa.Const:
		case *ssa.Parameter:
			if InModule(x.Parent()) && !exported(x.Parent()) && via != nil && via.Common().StaticCallee() == x.Parent() {
				// a private helper's parameter: the slice its caller passes
				for i, prm := range x.Parent().Params {
					if prm == x && i < len(via.Common().Args) {
						saved := via
						via = nil
						slice(via0Arg(saved, i), d+1)
						via = saved
						return
					}
				}
			}
			user = true
		default:
			unknown = "slice " + v.String()
		}
	}
	slice(s, 0)
	return
}

// R3 lossy-conv — factories never change the mathematical value of an integer;
// R3b — between the argument and the stored element there are conversions only.
func ruleLossyConv(p *Prog, r *Report) {
	const rule = "R3-lossy"
	sizes := types.SizesFor("gc", "amd64")
	nConv := 0
	// the factories and the helpers of their package they hand values to
	// (two levels): a conversion may have been moved into such a helper
	type unit struct {
		fn    *ssa.Function
		name  string
		sites int // call sites that reach it (1 for a factory)
	}
	var units []unit
	seenFn := map[*ssa.Function]int{}
	var addCallees func(g *ssa.Function, depth int)
	addCallees = func(g *ssa.Function, depth int) {
		if depth > 2 {
			return
		}
		for _, b := range g.Blocks {
			for _, instr := range b.Instrs {
				c, ok := instr.(*ssa.Call)
				if !ok {
					continue
				}
				h := c.Common().StaticCallee()
				if h == nil || h.Pkg != g.Pkg || h.Blocks == nil || isFactory(h) || strings.Contains(h.Name(), "checkRep") {
					continue
				}
				if _, seen := seenFn[h]; !seen {
					seenFn[h] = len(units)
					units = append(units, unit{h, h.Name(), 0})
					addCallees(h, depth+1)
				}
				units[seenFn[h]].sites++
			}
		}
	}
	for _, name := range []string{"NewIntNode", "NewUintNode", "NewBinaryNode", "NewFloatNode", "NewBooleanNode", "NewListNode"} {
		fn := p.MustFunc(r, "ast", name)
		if fn == nil {
			continue
		}
		seenFn[fn] = len(units)
		units = append(units, unit{fn, name, 1})
	}
	for _, u := range append([]unit{}, units...) {
		if isFactory(u.fn) {
			addCallees(u.fn, 1)
		}
	}
	for _, u := range units {
		fn, name := u.fn, u.name
		for _, b := range fn.Blocks {
			for _, instr := range b.Instrs {
				cv, ok := instr.(*ssa.Convert)
				if !ok || !isIntType(cv.X.Type()) || !isIntType(cv.Type()) {
					continue
				}
				slo, shi, ok1 := TypeBounds(cv.X.Type(), sizes)
				dlo, dhi, ok2 := TypeBounds(cv.Type(), sizes)
				if !ok1 || !ok2 {
					continue
				}
				nConv += u.sites
				if u.sites > 1 {
					r.Credit(rule, u.sites-1) // a conversion in a helper stands for each of the helper's call sites
				}
				st, dt := types.TypeString(cv.X.Type(), nil), types.TypeString(cv.Type(), nil)
				key := fmt.Sprintf("%s:ast.%s:%s->%s", rule, name, st, dt)
				if slo.Cmp(dlo) >= 0 && shi.Cmp(dhi) <= 0 {
					r.ok(rule, key, p.Pos(cv.Pos()), "conversion preserves every value of the source type")
					continue
				}
				// lossy: every source value outside the target range must be refused before the conversion
				src, isInstr := cv.X.(ssa.Instruction)
				prm, isParam := cv.X.(*ssa.Parameter)
				if !isInstr && !isParam {
					r.unk(rule, key, p.Pos(cv.Pos()), "operand of a lossy conversion is neither an instruction result nor a parameter")
					continue
				}
				var cuts []*big.Int
				cuts = append(cuts, slo, shi, dlo, dhi, big.NewInt(0))
				var leak []string
				var stuck []string
				for _, c := range intReps(cv.X.Type(), cuts, sizes) {
					if c.Cmp(dlo) >= 0 && c.Cmp(dhi) <= 0 {
						continue
					}
					in := NewInterp(p)
					o1 := in.Run(fn, defaultArgs(fn), nil)
					outer := o1.Frame.Vals()
					cc := c
					in.Bind = func(v ssa.Value, fr *frame) (Val, bool) {
						if v == cv.X {
							return Val{K: KInt, I: cc, Dep: true}, true
						}
						return Val{}, false
					}
					var o2 Outcome
					if isParam {
						_ = prm
						in.ResetHeap()
						o2 = in.Run(fn, defaultArgs(fn), nil)
					} else {
						o2 = in.RunOuter(fn, defaultArgs(fn), src.Block(), outer)
					}
					if o2.Frame.Reached(cv) {
						leak = append(leak, c.String())
					}
					stuck = append(stuck, in.Stuck...)
				}
				switch {
				case len(stuck) > 0:
					r.unk(rule, key, p.Pos(cv.Pos()), "evaluation stuck")
				case len(leak) > 0:
					r.bad(rule, key, p.Pos(cv.Pos()), fmt.Sprintf("%s converts a %s to %s without first refusing the values %s cannot hold: e.g. %s would be stored as a different number (wrap-around)", name, st, dt, dt, strings.Join(firstN(leak, 3), ", ")))
				default:
					r.ok(rule, key, p.Pos(cv.Pos()), fmt.Sprintf("every %s value outside the range of %s is refused before the conversion", st, dt))
				}
			}
		}
	}
	r.Floor(rule, 19)

	// R3b pass-through
	const rb = "R3b-passthrough"
	conv := regexp.MustCompile(`^((u?int(8|16|32|64)?|float(32|64))\()*v\)*$`)
	for _, fs := range factorySpecs {
		fn := p.MustFunc(r, "ast", fs.name)
		if fn == nil {
			continue
		}
		vi := variadicIndex(fn)
		extra := map[int]Val{}
		if bi := paramIndex(fn, "byteSize"); bi >= 0 {
			extra[bi] = int64Val(8)
		}
		var types_ []types.Type
		for _, k := range basicKinds {
			if fs.accept(types.Typ[k].Name()) {
				types_ = append(types_, types.Typ[k])
			}
		}
		for _, t := range types_ {
			tn := t.(*types.Basic).Name()
			key := fmt.Sprintf("%s:ast.%s:%s", rb, fs.name, tn)
			inner := symVal("v", true)
			if tn == "string" {
				inner = Val{K: KStr, S: "name", Dep: true}
			}
			_, stuck, in, found := elementAccepted(p, fn, vi, t, inner, extra)
			if !found || len(stuck) > 0 || in == nil {
				r.unk(rb, key, p.Pos(fn.Pos()), "the element loop could not be evaluated")
				continue
			}
			// what was appended to the node's value slice?
			var stored []Val
			var valuesPath string
			for path, v := range in.FinalHeap() {
				if strings.HasPrefix(path, "ast."+fs.name+"#") && strings.HasSuffix(path, ".values") && v.K == KSlice {
					valuesPath = v.S
				}
			}
			if valuesPath == "" {
				r.unk(rb, key, p.Pos(fn.Pos()), "the node's values field was not found")
				continue
			}
			for path, v := range in.FinalHeap() {
				if strings.HasPrefix(path, valuesPath+"[") {
					stored = append(stored, v)
				}
			}
			var probs []string
			for _, s := range stored {
				if s.K == KBot {
					continue
				}
				if tn == "string" {
					zero := (s.K == KInt && s.I.Sign() == 0) || (s.K == KFloat && s.F == 0) || (s.K == KBool && !s.B) || s.K == KIface || s.K == KSym
					if fs.name == "NewBinaryNode" {
						zero = zero || s.K == KTop // "0b..." strings go through strconv (R9)
					}
					if !zero {
						probs = append(probs, "the placeholder stored at a variable's position is "+s.String()+", not the zero value")
					}
					continue
				}
				t2, ok := termOf(s)
				if !ok || !conv.MatchString(t2) {
					probs = append(probs, fmt.Sprintf("an argument v of type %s is stored as %s: something other than conversions lies between the argument and the stored element", tn, s.String()))
				}
			}
			if len(stored) == 0 && tn == "string" && madeWithLength(in, valuesPath) {
				// the slot of a variable keeps the zero value the slice was made with
			} else if len(stored) == 0 {
				probs = append(probs, "nothing is appended to the node's values for an argument of type "+tn)
			}
			if len(probs) > 0 {
				r.bad(rb, key, p.Pos(fn.Pos()), strings.Join(uniq(probs), "; "))
			} else {
				r.ok(rb, key, p.Pos(fn.Pos()), "stored element is the argument under conversions only")
			}
		}
	}
	r.Floor(rb, 40)
}

// R2b — FillVariables hands the caller's value to the factory untouched.
func ruleFillPassThrough(p *Prog, r *Report) {
	const rule = "R2b-fill"
	for _, tn := range []string{"ListNode", "BinaryNode", "BooleanNode", "IntNode", "UintNode", "FloatNode"} {
		fn := p.MustFunc(r, "ast", "(*"+tn+").FillVariables")
		if fn == nil {
			continue
		}
		key := rule + ":ast.(*" + tn + ").FillVariables"
		{
			if d, decided, good := fillByEvaluation(p, fn); decided {
				if good {
					r.ok(rule, key, p.Pos(fn.Pos()), d)
				} else {
					r.bad(rule, key, p.Pos(fn.Pos()), d)
				}
				continue
			}
		}
		// the factory call and its argument slice
		var call *ssa.Call
		for _, b := range fn.Blocks {
			for _, instr := range b.Instrs {
				if c, ok := instr.(*ssa.Call); ok {
					if sc := c.Common().StaticCallee(); sc != nil && isFactory(sc) && variadicIndex(sc) >= 0 {
						call = c
					}
				}
			}
		}
		if call == nil {
			r.unk(rule, key, p.Pos(fn.Pos()), "no factory call found: the node is not rebuilt through its factory")
			continue
		}
		vi := variadicIndex(call.Common().StaticCallee())
		alias := map[ssa.Value]bool{}
		var collect func(v ssa.Value, d int)
		collect = func(v ssa.Value, d int) {
			if v == nil || alias[v] || d > 16 {
				return
			}
			alias[v] = true
			switch x := v.(type) {
			case *ssa.Slice:
				collect(x.X, d+1)
			case *ssa.Phi:
				for _, e := range x.Edges {
					collect(e, d+1)
				}
			case *ssa.Call:
				if bi, ok := x.Common().Value.(*ssa.Builtin); ok && bi.Name() == "append" {
					collect(x.Common().Args[0], d+1)
				}
			}
		}
		collect(call.Common().Args[vi], 0)
		var probs []string
		nUser := 0
		for _, b := range fn.Blocks {
			for _, instr := range b.Instrs {
				switch x := instr.(type) {
				case *ssa.UnOp:
					if x.Op == token.MUL {
						if ia, ok := x.X.(*ssa.IndexAddr); ok && alias[ia.X] {
							probs = append(probs, "reads an element of the argument list back before the factory sees it ("+p.Pos(x.Pos())+"): a caller-supplied value can be transformed on the way")
						}
					}
				case *ssa.Range:
					if alias[x.X] {
						probs = append(probs, "iterates over the argument list before the factory sees it ("+p.Pos(x.Pos())+")")
					}
				case *ssa.Store:
					ia, ok := x.Addr.(*ssa.IndexAddr)
					if !ok || !alias[ia.X] {
						continue
					}
					// classify the stored value
					if ex, ok := x.Val.(*ssa.Extract); ok {
						if _, isLookup := ex.Tuple.(*ssa.Lookup); isLookup {
							nUser++
							continue
						}
					}
					if derivesFromLookup(x.Val, 0) {
						probs = append(probs, "stores a value computed from the caller's fill-in value instead of the value itself ("+p.Pos(x.Pos())+")")
					}
				}
			}
		}
		// the fill-in value must not be used for anything but the store (and the ok test)
		for _, b := range fn.Blocks {
			for _, instr := range b.Instrs {
				ex, ok := instr.(*ssa.Extract)
				if !ok || ex.Index != 0 {
					continue
				}
				lk, ok := ex.Tuple.(*ssa.Lookup)
				if !ok || !lk.CommaOk {
					continue
				}
				if _, isParam := lk.X.(*ssa.Parameter); !isParam {
					if _, isExt := lk.X.(*ssa.Extract); !isExt {
						continue
					}
				}
				if refs := ex.Referrers(); refs != nil {
					for _, ref := range *refs {
						switch u := ref.(type) {
						case *ssa.Store:
						case *ssa.DebugRef:
						default:
							probs = append(probs, fmt.Sprintf("uses the caller's fill-in value in %s (%s) instead of handing it to the factory as is", u.String(), p.Pos(ref.Pos())))
						}
					}
				}
			}
		}
		if nUser == 0 && tn != "ListNode" {
			probs = append(probs, "no store of the looked-up fill-in value into the argument list was found")
		}
		if tn == "ListNode" && nUser == 0 {
			probs = append(probs, "no store of the looked-up fill-in value into the argument list was found")
		}
		if len(probs) > 0 {
			r.bad(rule, key, p.Pos(fn.Pos()), strings.Join(uniq(probs), "; "))
		} else {
			r.ok(rule, key, p.Pos(call.Pos()), "the value looked up in the caller's map is stored into the argument list as is, the list is never read back, and it is handed to the factory")
		}
	}
	// ASCII: the fill-in string reaches NewASCIINode itself
	if fn := p.MustFunc(r, "ast", "(*ASCIINode).FillVariables"); fn != nil {
		key := rule + ":ast.(*ASCIINode).FillVariables"
		good := false
		if d, decided, ok := fillASCIIByEvaluation(p, fn); decided {
			if ok {
				r.ok(rule, key, p.Pos(fn.Pos()), d)
			} else {
				r.bad(rule, key, p.Pos(fn.Pos()), d)
			}
			r.Floor(rule, 7)
			return
		}
		for _, b := range fn.Blocks {
			for _, instr := range b.Instrs {
				if c, ok := instr.(*ssa.Call); ok {
					if sc := c.Common().StaticCallee(); sc != nil && sc.Name() == "NewASCIINode" {
						if ex, ok := c.Common().Args[0].(*ssa.Extract); ok {
							if ta, ok := ex.Tuple.(*ssa.TypeAssert); ok {
								if _, isLookup := ta.X.(*ssa.Lookup); isLookup {
									good = true
								}
							}
						}
					}
				}
			}
		}
		if good {
			r.ok(rule, key, p.Pos(fn.Pos()), "the looked-up string is handed to NewASCIINode unchanged")
		} else {
			r.bad(rule, key, p.Pos(fn.Pos()), "the fill-in string does not reach NewASCIINode unchanged (the node is built some other way, or from a transformed string)")
		}
	}
	r.Floor(rule, 7)
}

func derivesFromLookup(v ssa.Value, d int) bool {
	if v == nil || d > 8 {
		return false
	}
	switch x := v.(type) {
	case *ssa.Extract:
		if _, ok := x.Tuple.(*ssa.Lookup); ok {
			return true
		}
		if ta, ok := x.Tuple.(*ssa.TypeAssert); ok {
			return derivesFromLookup(ta.X, d+1)
		}
		if c, ok := x.Tuple.(*ssa.Call); ok {
			for _, a := range c.Common().Args {
				if derivesFromLookup(a, d+1) {
					return true
				}
			}
		}
	case *ssa.Lookup:
		return true
	case *ssa.MakeInterface:
		return derivesFromLookup(x.X, d+1)
	case *ssa.Convert:
		return derivesFromLookup(x.X, d+1)
	case *ssa.BinOp:
		return derivesFromLookup(x.X, d+1) || derivesFromLookup(x.Y, d+1)
	case *ssa.TypeAssert:
		return derivesFromLookup(x.X, d+1)
	case *ssa.Call:
		for _, a := range x.Common().Args {
			if derivesFromLookup(a, d+1) {
				return true
			}
		}
	case *ssa.Phi:
		for _, e := range x.Edges {
			if derivesFromLookup(e, d+1) {
				return true
			}
		}
	}
	return false
}

// fillByEvaluation decides the pass-through of a fill-in value by evaluating
// FillVariables on a node of two elements whose second position is the
// variable "x", with a fill-in map that holds an arbitrary (symbolic) value
// for "x": the value handed to the factory at that position must be that very
// symbol - anything computed from it would be a different term. decided is
// false when the evaluation does not reach a factory call with a known
// argument list (the syntactic rule then decides).
func fillByEvaluation(p *Prog, fn *ssa.Function) (detail string, decided, good bool) {
	ifaceT := types.NewInterfaceType(nil, nil)
	run := func(keys []Val) (called bool, e0, e1 Val, n int, out Outcome, stuck bool) {
		in := symInterp(p)
		in.PathBind["p0.byteSize"] = int64Val(8)
		in.PathBind["p0.values"] = Val{K: KSlice, S: "p0.values", Len: 2}
		in.MapKeys["p0.variables"] = []Val{strVal("x")}
		in.InitBind[`p0.variables["x"]`] = int64Val(1)
		in.MapKeys["p1"] = keys
		if strings.Contains(FnName(fn), "ListNode") {
			// a list's elements are item nodes: a leaf node at position 0, the
			// placeholder of the variable at position 1
			leaf, empty := p.namedType(modPath+"/pkg/ast", "IntNode"), p.namedType(modPath+"/pkg/ast", "emptyItemNode")
			if leaf != nil && empty != nil {
				c0 := Val{K: KPtr, S: "child0"}
				e1 := Val{K: KAgg, S: "placeholder", Agg: map[string]cell{}}
				in.PathBind["p0.values[0]"] = Val{K: KIface, T: types.NewPointer(leaf), Inner: &c0}
				in.PathBind["p0.values[1]"] = Val{K: KIface, T: empty, Inner: &e1}
			}
		}
		in.OnCall = func(call *ssa.Call, callee *ssa.Function, a []Val, fr *frame) {
			if fr.fn != fn {
				return
			}
			if os.Getenv("SC_DEBUG_FILL") != "" {
				fmt.Fprintf(os.Stderr, "  %s calls %s %v\n", FnName(fn), FnName(callee), a)
			}
			vi := variadicIndex(callee)
			if !isFactory(callee) || vi < 0 || vi >= len(a) {
				return
			}
			called = true
			n = a[vi].Len
			if a[vi].K == KSlice && a[vi].Len == 2 {
				e0 = in.Elem(a[vi], 0, ifaceT)
				e1 = in.Elem(a[vi], 1, ifaceT)
			}
		}
		args := defaultArgs(fn)
		if len(args) > 1 {
			args[1] = Val{K: KPtr, S: "p1"}
		}
		out = in.Run(fn, args, nil)
		return called, e0, e1, n, out, len(in.Stuck) > 0
	}
	called, _, e1, n, _, stuck := run([]Val{strVal("x")})
	if os.Getenv("SC_DEBUG_FILL") != "" {
		fmt.Fprintf(os.Stderr, "fill %s: called=%v n=%d e1=%s stuck=%v\n", FnName(fn), called, n, e1, stuck)
	}
	if stuck || !called || n != 2 {
		return "", false, false
	}
	if !(e1.K == KSym && e1.S == `p1["x"]`) {
		return fmt.Sprintf("with a fill-in value for the variable at position 1, the factory receives %s at that position instead of the caller's value itself", e1), true, false
	}
	called2, _, f1, n2, out2, stuck2 := run(nil)
	if stuck2 {
		return "", false, false
	}
	if called2 {
		if n2 != 2 || !(f1.K == KIface && f1.Inner != nil && f1.Inner.K == KStr && f1.Inner.S == "x") {
			return fmt.Sprintf("without a fill-in value the variable position is rebuilt from %s instead of the variable's name", f1), true, false
		}
	} else {
		rets := out2.Frame.ReturnVals()
		if len(rets) != 1 {
			return "", false, false
		}
	}
	// two variables of which the caller fills one (both orders of visiting
	// them): the other must keep its name, not a placeholder
	if !strings.Contains(FnName(fn), "ListNode") {
		for _, order := range [][]string{{"x", "y"}, {"y", "x"}} {
			in := symInterp(p)
			in.PathBind["p0.byteSize"] = int64Val(8)
			in.PathBind["p0.values"] = Val{K: KSlice, S: "p0.values", Len: 3}
			in.MapKeys["p0.variables"] = []Val{strVal(order[0]), strVal(order[1])}
			in.InitBind[`p0.variables["x"]`] = int64Val(1)
			in.InitBind[`p0.variables["y"]`] = int64Val(2)
			in.MapKeys["p1"] = []Val{strVal("x")}
			var got []Val
			in.OnCall = func(call *ssa.Call, callee *ssa.Function, a []Val, fr *frame) {
				vi := variadicIndex(callee)
				if fr.fn != fn || !isFactory(callee) || vi < 0 || vi >= len(a) || a[vi].K != KSlice || a[vi].Len != 3 {
					return
				}
				got = []Val{in.Elem(a[vi], 1, ifaceT), in.Elem(a[vi], 2, ifaceT)}
			}
			args := defaultArgs(fn)
			if len(args) > 1 {
				args[1] = Val{K: KPtr, S: "p1"}
			}
			in.Run(fn, args, nil)
			if len(in.Stuck) > 0 || got == nil {
				return "", false, false
			}
			if !(got[0].K == KSym && got[0].S == `p1["x"]`) {
				return fmt.Sprintf("with two variables of which one is filled, the factory receives %s at the filled position instead of the caller's value", got[0]), true, false
			}
			if !(got[1].K == KIface && got[1].Inner != nil && got[1].Inner.K == KStr && got[1].Inner.S == "y") {
				return fmt.Sprintf("with two variables of which only x is filled (variables visited in the order %v), the position of y is rebuilt from %s instead of the name y: the unfilled variable is lost", order, got[1]), true, false
			}
		}
	}
	return "evaluated on a node whose position 1 is a variable: the value the caller's map holds for it reaches the factory at that position as the very same (symbolic) value; without an entry the variable's name is kept, also next to a filled variable and whichever is visited first", true, true
}

// fillASCIIByEvaluation: the string found in the caller's map for the node's
// variable is the string NewASCIINode is called with.
func fillASCIIByEvaluation(p *Prog, fn *ssa.Function) (detail string, decided, good bool) {
	in := symInterp(p)
	in.PathBind["p0.isValue"] = boolVal(false)
	in.PathBind["p0.variable.name"] = strVal("x")
	in.MapKeys["p1"] = []Val{strVal("x")}
	fill := symVal("FILL", false)
	in.InitBind[`p1["x"]`] = Val{K: KIface, T: types.Typ[types.String], Inner: &fill}
	var got []Val
	in.OnCall = func(call *ssa.Call, callee *ssa.Function, a []Val, fr *frame) {
		if callee.Name() == "NewASCIINode" && len(a) == 1 {
			got = append(got, a[0])
		}
	}
	args := defaultArgs(fn)
	if len(args) > 1 {
		args[1] = Val{K: KPtr, S: "p1"}
	}
	in.Run(fn, args, nil)
	if len(in.Stuck) > 0 || len(got) == 0 {
		return "", false, false
	}
	for _, g := range got {
		if !(g.K == KSym && g.S == "FILL") {
			return fmt.Sprintf("the fill-in string reaches NewASCIINode as %s, not as the caller's string itself", g), true, false
		}
	}
	return "evaluated with an arbitrary (symbolic) string in the caller's map: NewASCIINode is called with that very string", true, true
}

// madeWithLength reports whether the modelled slice at path was created by a
// make with a length (its elements start as zero values) rather than grown by
// append.
func madeWithLength(in *Interp, path string) bool {
	for _, fn := range in.Prog.Funcs {
		for _, b := range fn.Blocks {
			for _, instr := range b.Instrs {
				if ms, ok := instr.(*ssa.MakeSlice); ok && strings.HasPrefix(path, allocName(ms)) {
					if c, ok := ms.Len.(*ssa.Const); ok && constVal(c).K == KInt && constVal(c).I.Sign() == 0 {
						return false
					}
					return true
				}
			}
		}
	}
	return false
}

// via0Arg returns argument i of a call (receiver first for methods), looking
// through a ChangeType around a function value.
func via0Arg(c *ssa.Call, i int) ssa.Value {
	a := c.Common().Args[i]
	if ct, ok := a.(*ssa.ChangeType); ok {
		return ct.X
	}
	return a
}

// decoderProducedTypes evaluates the hsms item decoder on an item of every
// format the factory builds and returns the dynamic types of the elements it
// hands over.
func decoderProducedTypes(p *Prog, factory string, accepted map[string]bool) (names, bad []string, ok bool) {
	seen := map[string]bool{}
	n := 0
	for _, f := range e5Formats {
		if f.Factory != factory || f.Node == "ListNode" || f.Node == "ASCIINode" {
			continue
		}
		_, _, elems, okRun := decodeItemRun(p, f.Code, int64(f.Width), 2)
		if !okRun || len(elems) != 2 {
			return nil, nil, false
		}
		n++
		for _, e := range elems {
			if e.K != KIface {
				return nil, nil, false
			}
			tn := types.TypeString(e.T, nil)
			if b, isBasic := e.T.Underlying().(*types.Basic); isBasic {
				tn = types.Typ[b.Kind()].Name()
			}
			if !seen[tn] {
				seen[tn] = true
				names = append(names, tn)
				if !accepted[tn] {
					bad = append(bad, fmt.Sprintf("hands %s a value of dynamic type %s (format %s), which that factory refuses", factory, tn, f.Key))
				}
			}
		}
	}
	sort.Strings(names)
	return names, bad, n > 0
}
