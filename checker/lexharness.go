package main

// Abstract evaluation of one lexer state function on a concrete input: the
// lexer's fields start as given (input text, position), every other cell is
// unknown. The state function and the helpers it calls are followed in path
// mode as far as the text decides every branch; what is observed are the
// tokens sent on the token channel, the position reached and the state
// function returned. Nothing is executed: the values are the evaluator's.

import (
	"fmt"
	"go/types"
	"golang.org/x/tools/go/ssa"
	"os"
	"strings"
)

type lexTok struct {
	typ int64
	val string
	// where the lexer says the token is (0 when not determined) and the byte
	// offset its text starts at (l.start when it was sent; -1 when not determined)
	line, col int64
	off       int
}

type lexResult struct {
	toks []lexTok
	end  int // l.pos on return
	from int // l.start on return (where the pending token begins)
	// the lexer's other scalar fields on return (bookkeeping a refactoring may
	// have added: cached line numbers, mode flags); threaded from state to state
	fields map[string]Val
	next   string // name of the state function returned ("" = nil, "?" = undetermined)
}

// lexRun evaluates the state function fn on input from byte offset pos;
// lastState names the state function l.lastState holds. ok is false when the
// evaluation did not yield constants (the rule then falls back or is undecided).
func lexRun(p *Prog, fn *ssa.Function, input string, pos int, lastState string) (res lexResult, ok bool) {
	return lexRunFrom(p, fn, input, pos, pos, lastState)
}

// lexRunFrom is lexRun with a pending token that began at start; further
// arguments of fn (a token type, say) are given in extra.
func lexRunFrom(p *Prog, fn *ssa.Function, input string, start, pos int, lastState string, extra ...Val) (res lexResult, ok bool) {
	return lexRunWith(p, fn, input, start, pos, lastState, nil, extra...)
}

// lexScalarFields lists the scalar fields of the lexer struct other than the
// four the harness sets itself.
func lexScalarFields(p *Prog) []*types.Var {
	obj := p.Pkgs["sml"].Types.Scope().Lookup("lexer")
	if obj == nil {
		return nil
	}
	st, ok := obj.Type().Underlying().(*types.Struct)
	if !ok {
		return nil
	}
	var out []*types.Var
	for i := 0; i < st.NumFields(); i++ {
		f := st.Field(i)
		switch f.Name() {
		case "input", "pos", "start", "width":
			continue
		}
		if b, ok := f.Type().Underlying().(*types.Basic); ok && b.Info()&(types.IsInteger|types.IsBoolean|types.IsString) != 0 {
			out = append(out, f)
		}
	}
	return out
}

// lexInitialFields: what the constructor of the lexer gives those fields
// (evaluated once per text; the zero value when the constructor does not set a
// field or cannot be found).
func lexInitialFields(p *Prog, input string) map[string]Val {
	out := map[string]Val{}
	fields := lexScalarFields(p)
	for _, f := range fields {
		out[f.Name()] = zeroVal(f.Type())
	}
	if len(fields) == 0 {
		return out
	}
	for _, fn := range p.PkgFuncs("sml") {
		if fn.Signature.Results().Len() != 1 || fn.Signature.Recv() != nil || !strings.HasSuffix(fn.Signature.Results().At(0).Type().String(), "sml.lexer") {
			continue
		}
		in := NewInterp(p)
		args := defaultArgs(fn)
		for i, prm := range fn.Params {
			if isStringType(prm.Type()) {
				args[i] = strVal(input)
			}
		}
		o := in.Run(fn, args, nil)
		rets := o.Frame.ReturnVals()
		if len(rets) != 1 || rets[0][0].K != KPtr {
			continue
		}
		for _, f := range fields {
			if v := in.Load(rets[0][0].S+"."+f.Name(), f.Type()); v.K == KInt || v.K == KBool || v.K == KStr {
				out[f.Name()] = v
			}
		}
		break
	}
	return out
}

func lexRunWith(p *Prog, fn *ssa.Function, input string, start, pos int, lastState string, fields map[string]Val, extra ...Val) (res lexResult, ok bool) {
	in := NewInterp(p)
	if fields == nil {
		fields = lexInitialFields(p, input)
	}
	for name, v := range fields {
		in.InitBind["p0."+name] = v
	}
	in.InitBind["p0.input"] = strVal(input)
	in.InitBind["p0.pos"] = int64Val(int64(pos))
	in.InitBind["p0.start"] = int64Val(int64(start))
	in.InitBind["p0.width"] = int64Val(0)
	if lastState != "" {
		if lf := p.Func("sml", lastState); lf != nil {
			in.InitBind["p0.lastState"] = Val{K: KFunc, Fn: lf}
		}
	}
	ok = true
	in.OnSend = func(send *ssa.Send, v Val, fr *frame) {
		if v.K != KAgg {
			ok = false
			return
		}
		t, haveT := v.Agg[".typ"]
		s, haveS := v.Agg[".val"]
		if !haveT || !haveS || t.V.K != KInt || s.V.K != KStr || t.Maybe || s.Maybe {
			ok = false
			return
		}
		tk := lexTok{typ: t.V.I.Int64(), val: s.V.S, off: -1}
		if l, ok := v.Agg[".line"]; ok && l.V.K == KInt && !l.Maybe {
			tk.line = l.V.I.Int64()
		}
		if c, ok := v.Agg[".col"]; ok && c.V.K == KInt && !c.Maybe {
			tk.col = c.V.I.Int64()
		}
		if st := in.Load("p0.start", types.Typ[types.Int]); st.K == KInt && st.I.IsInt64() {
			tk.off = int(st.I.Int64())
		}
		res.toks = append(res.toks, tk)
	}
	args := defaultArgs(fn)
	for i, e := range extra {
		if 1+i < len(args) {
			args[1+i] = e
		}
	}
	out := in.Run(fn, args, nil)
	if len(in.Stuck) > 0 || out.CanPanic || !out.CanReturn {
		return res, false
	}
	rets := out.Frame.ReturnVals()
	if len(rets) != 1 || len(rets[0]) > 1 {
		return res, false
	}
	res.next = "?"
	if len(rets[0]) == 1 {
		switch rv := rets[0][0]; rv.K {
		case KFunc:
			res.next = rv.Fn.Name()
		case KNil:
			res.next = ""
		}
	}
	end := in.Load("p0.pos", types.Typ[types.Int])
	if end.K != KInt || !end.I.IsInt64() {
		return res, false
	}
	res.end = int(end.I.Int64())
	res.fields = map[string]Val{}
	for _, f := range lexScalarFields(p) {
		if v := in.Load("p0."+f.Name(), f.Type()); v.K == KInt || v.K == KBool || v.K == KStr {
			res.fields[f.Name()] = v
		} else {
			ok = false // a field the next state depends on is not determined
		}
	}
	res.from = res.end
	if st := in.Load("p0.start", types.Typ[types.Int]); st.K == KInt && st.I.IsInt64() {
		res.from = int(st.I.Int64())
	}
	return res, ok
}

// lexAll drives the lexer's state functions over a text the way nextToken
// does - each state evaluated by lexRunFrom, its result deciding the next -
// and returns the tokens sent. It stops at the end-of-stream state, after
// maxStates states, or (ok=false) when a state cannot be evaluated.
func lexAll(p *Prog, first string, text string, maxStates int) (toks []lexTok, ok bool) {
	state, last := first, ""
	start, pos := 0, 0
	fields := lexInitialFields(p, text)
	for n := 0; n < maxStates && state != ""; n++ {
		fn := p.Func("sml", state)
		if fn == nil {
			return toks, false
		}
		res, ok := lexRunWith(p, fn, text, start, pos, last, fields)
		fields = res.fields
		if !ok || res.next == "?" {
			return toks, false
		}
		toks = append(toks, res.toks...)
		last, state = state, res.next
		start, pos = res.from, res.end
	}
	return toks, true
}

// ---------------------------------------------------------------------------
// parser harness

// parseObs is a factory call observed while a parse function is evaluated on
// a token queue: the factory and the elements of its variadic argument.
type parseObs struct {
	factory string
	elems   []Val
	args    []Val
}

// parseRun evaluates a method of the SML parser on a concrete token queue
// (as lexAll yields it; comment tokens are dropped, as peek() drops them),
// with the per-message state empty: no variable names seen, ellipsis count 0.
// Scalar fields of the parser other than those start as zero values. It
// returns the factory calls in call order and the diagnostics reported.
var modelAlways = os.Getenv("SC_QUEUETOK") == ""

func parseRun(p *Prog, fn *ssa.Function, toks []lexTok, depth int) (obs []parseObs, diags []string, ok bool) {
	obs, diags, _, ok = parseRunRet(p, fn, toks, depth)
	return
}

// parseRunRet is parseRun that also hands back the values the method returns
// (one tuple per return reached).
func parseRunRet(p *Prog, fn *ssa.Function, toks []lexTok, depth int) (obs []parseObs, diags []string, rets [][]Val, ok bool) {
	ttComment, _ := smlConst(p, "tokenTypeComment")
	in := NewInterp(p)
	in.Recursion = depth
	// the token source. A parser that keeps the tokens in a queue field gets
	// the queue filled (comment tokens dropped, as its peek() drops them before
	// queueing); any other parser is fed through the lexer's token-returning
	// method, one token per call, comment tokens included.
	queueField := ""
	if obj := p.Pkgs["sml"].Types.Scope().Lookup("parser"); obj != nil {
		if st, isStruct := obj.Type().Underlying().(*types.Struct); isStruct {
			for i := 0; i < st.NumFields(); i++ {
				if sl, isSlice := st.Field(i).Type().Underlying().(*types.Slice); isSlice {
					if nm, isNamed := sl.Elem().(*types.Named); isNamed && nm.Obj().Name() == "token" {
						queueField = st.Field(i).Name()
					}
				}
			}
		}
	}
	n := 0
	for _, t := range toks {
		if t.typ == ttComment && queueField != "" && !modelAlways {
			continue
		}
		in.PathBind[fmt.Sprintf("tq[%d].typ", n)] = int64Val(t.typ)
		in.PathBind[fmt.Sprintf("tq[%d].val", n)] = strVal(t.val)
		in.PathBind[fmt.Sprintf("tq[%d].line", n)] = int64Val(t.line)
		in.PathBind[fmt.Sprintf("tq[%d].col", n)] = int64Val(t.col)
		n++
	}
	if queueField != "" && !modelAlways {
		in.InitBind["p0."+queueField] = Val{K: KSlice, S: "tq", Len: n}
	} else {
		if queueField != "" {
			in.InitBind["p0."+queueField] = Val{K: KSlice, S: "p0." + queueField + "!0", Len: 0}
		}
		intT := types.Typ[types.Int]
		in.InitBind["tq!next"] = int64Val(0)
		in.CallModel = func(callee *ssa.Function, a []Val, fr *frame) (Val, bool) {
			sig := callee.Signature
			if sig.Recv() == nil || sig.Params().Len() != 0 || sig.Results().Len() != 1 || callee.Pkg == nil || callee.Pkg.Pkg.Name() != "sml" {
				return Val{}, false
			}
			if nm, isNamed := sig.Results().At(0).Type().(*types.Named); !isNamed || nm.Obj().Name() != "token" {
				return Val{}, false
			}
			if !strings.Contains(sig.Recv().Type().String(), "lexer") {
				return Val{}, false
			}
			k := fr.load("tq!next", intT)
			if os.Getenv("SC_TRACE7") != "" {
				fmt.Fprintf(os.Stderr, "token model: next=%s in %s\n", k, FnName(fr.fn))
			}
			if k.K != KInt || !k.I.IsInt64() {
				return top, true
			}
			i := int(k.I.Int64())
			if i >= n {
				i = n - 1 // the end-of-input token repeats
			}
			fr.store(Val{K: KPtr, S: "tq!next"}, int64Val(int64(i+1)), intT)
			if os.Getenv("SC_TRACE7") != "" {
				fmt.Fprintf(os.Stderr, "  after store: %s\n", fr.load("tq!next", intT))
			}
			return Val{K: KAgg, S: fmt.Sprintf("tq[%d]", i), Agg: map[string]cell{}}, true
		}
	}
	in.InitBind["p0.ellipsisCount"] = int64Val(0)
	in.MapKeys["p0.variableNames"] = nil
	if obj := p.Pkgs["sml"].Types.Scope().Lookup("parser"); obj != nil {
		if st, isStruct := obj.Type().Underlying().(*types.Struct); isStruct {
			for i := 0; i < st.NumFields(); i++ {
				f := st.Field(i)
				if _, bound := in.InitBind["p0."+f.Name()]; bound {
					continue
				}
				if b, isBasic := f.Type().Underlying().(*types.Basic); isBasic && b.Info()&(types.IsInteger|types.IsBoolean|types.IsString) != 0 && f.Name() != "input" {
					in.InitBind["p0."+f.Name()] = zeroVal(f.Type())
				}
			}
			// scalar fields of nested structs (a look-ahead buffer, counters kept
			// in a helper struct) start as zero values too
			if leaves, ok := leafPaths(obj.Type()); ok {
				for _, suffix := range leaves {
					if strings.Count(suffix, ".") < 2 || strings.Contains(suffix, "$") || strings.Contains(suffix, "[") {
						continue
					}
					t := typeAtSuffix(obj.Type(), suffix)
					if t == nil {
						continue
					}
					if b, isBasic := t.Underlying().(*types.Basic); isBasic && b.Info()&(types.IsInteger|types.IsBoolean|types.IsString) != 0 {
						if _, bound := in.InitBind["p0"+suffix]; !bound {
							in.InitBind["p0"+suffix] = zeroVal(t)
						}
					}
				}
			}
		}
	}
	ok = true
	in.OnCall = func(call *ssa.Call, callee *ssa.Function, a []Val, fr *frame) {
		switch {
		case isFactory(callee) && callee.Pkg != nil && callee.Pkg.Pkg.Name() == "ast":
			o := parseObs{factory: callee.Name(), args: a}
			if vi := variadicIndex(callee); vi >= 0 && vi < len(a) {
				if a[vi].K == KSlice && a[vi].Len >= 0 {
					for i := 0; i < a[vi].Len; i++ {
						o.elems = append(o.elems, in.Elem(a[vi], i, types.NewInterfaceType(nil, nil)))
					}
				} else if a[vi].K != KNil {
					ok = false
				}
			}
			obs = append(obs, o)
		case callee.Pkg != nil && callee.Pkg.Pkg.Path() == "strconv" && (strings.HasPrefix(callee.Name(), "Parse") || callee.Name() == "Atoi"):
			obs = append(obs, parseObs{factory: "strconv." + callee.Name(), args: append([]Val{}, a...)})
		case isParserErrorf(callee) || FnName(callee) == "(*sml.parser).warningf":
			if len(a) > 2 && a[2].K == KStr {
				diags = append(diags, a[2].S)
			} else {
				diags = append(diags, "?")
			}
		}
	}
	out := in.Run(fn, defaultArgs(fn), nil)
	if len(in.Stuck) > 0 {
		ok = false
	}
	if out.Frame != nil {
		rets = out.Frame.ReturnVals()
	}
	return obs, diags, rets, ok
}
