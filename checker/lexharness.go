package main

// Abstract evaluation of one lexer state function on a concrete input: the
// lexer's fields start as given (input text, position), every other cell is
// unknown. The state function and the helpers it calls are followed in path
// mode as far as the text decides every branch; what is observed are the
// tokens sent on the token channel, the position reached and the state
// function returned. Nothing is executed: the values are the evaluator's.

import (
	"go/types"
	"golang.org/x/tools/go/ssa"
)

type lexTok struct {
	typ int64
	val string
}

type lexResult struct {
	toks []lexTok
	end  int    // l.pos on return
	from int    // l.start on return (where the pending token begins)
	next string // name of the state function returned ("" = nil, "?" = undetermined)
}

// lexRun evaluates the state function fn on input from byte offset pos;
// lastState names the state function l.lastState holds. ok is false when the
// evaluation did not yield constants (the rule then falls back or is undecided).
func lexRun(p *Prog, fn *ssa.Function, input string, pos int, lastState string) (res lexResult, ok bool) {
	return lexRunFrom(p, fn, input, pos, pos, lastState)
}

// lexRunFrom is lexRun with a pending token that began at start; further
// arguments of fn (a token type, say) are given in extra.
func lexRunFrom(p *Prog, fn *ssa.Function, input string, start, pos int, lastState string, extra ...Val) (res lexResult, ok bool) {
	in := NewInterp(p)
	in.InitBind["p0.input"] = strVal(input)
	in.InitBind["p0.pos"] = int64Val(int64(pos))
	in.InitBind["p0.start"] = int64Val(int64(start))
	in.InitBind["p0.width"] = int64Val(0)
	if lastState != "" {
		if lf := p.Func("sml", lastState); lf != nil {
			in.InitBind["p0.lastState"] = Val{K: KFunc, Fn: lf}
		}
	}
	ok = true
	in.OnSend = func(send *ssa.Send, v Val, fr *frame) {
		if v.K != KAgg {
			ok = false
			return
		}
		t, haveT := v.Agg[".typ"]
		s, haveS := v.Agg[".val"]
		if !haveT || !haveS || t.V.K != KInt || s.V.K != KStr || t.Maybe || s.Maybe {
			ok = false
			return
		}
		res.toks = append(res.toks, lexTok{t.V.I.Int64(), s.V.S})
	}
	args := defaultArgs(fn)
	for i, e := range extra {
		if 1+i < len(args) {
			args[1+i] = e
		}
	}
	out := in.Run(fn, args, nil)
	if len(in.Stuck) > 0 || out.CanPanic || !out.CanReturn {
		return res, false
	}
	rets := out.Frame.ReturnVals()
	if len(rets) != 1 || len(rets[0]) > 1 {
		return res, false
	}
	res.next = "?"
	if len(rets[0]) == 1 {
		switch rv := rets[0][0]; rv.K {
		case KFunc:
			res.next = rv.Fn.Name()
		case KNil:
			res.next = ""
		}
	}
	end := in.Load("p0.pos", types.Typ[types.Int])
	if end.K != KInt || !end.I.IsInt64() {
		return res, false
	}
	res.end = int(end.I.Int64())
	res.from = res.end
	if st := in.Load("p0.start", types.Typ[types.Int]); st.K == KInt && st.I.IsInt64() {
		res.from = int(st.I.Int64())
	}
	return res, ok
}

// lexAll drives the lexer's state functions over a text the way nextToken
// does - each state evaluated by lexRunFrom, its result deciding the next -
// and returns the tokens sent. It stops at the end-of-stream state, after
// maxStates states, or (ok=false) when a state cannot be evaluated.
func lexAll(p *Prog, first string, text string, maxStates int) (toks []lexTok, ok bool) {
	state, last := first, ""
	start, pos := 0, 0
	for n := 0; n < maxStates && state != ""; n++ {
		fn := p.Func("sml", state)
		if fn == nil {
			return toks, false
		}
		res, ok := lexRunFrom(p, fn, text, start, pos, last)
		if !ok || res.next == "?" {
			return toks, false
		}
		toks = append(toks, res.toks...)
		last, state = state, res.next
		start, pos = res.from, res.end
	}
	return toks, true
}
