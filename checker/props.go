package main

// Property ties a property id to the rules that decide its structural
// clauses. Explanation/NotDecided/Assumptions go into the evidence file.
type Property struct {
	ID          string
	Title       string
	Rules       []Rule
	Explanation string
	NotDecided  string
	Assumptions []string
}

// Rule is one rule engine applied to the program; it appends obligations.
type Rule struct {
	Name string
	Run  func(p *Prog, r *Report)
}

var properties = map[string]*Property{}

func register(p *Property) { properties[p.ID] = p }
