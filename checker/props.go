package main

import "strings"

// Property ties a property id to the rules that decide its structural
// clauses. Explanation/NotDecided/Assumptions go into the evidence file.
type Property struct {
	ID          string
	Title       string
	Rules       []Rule
	Explanation string
	NotDecided  string
	Assumptions []string
}

// Rule is one rule engine applied to the program; it appends obligations.
type Rule struct {
	Name string
	Run  func(p *Prog, r *Report)
}

var properties = map[string]*Property{}

func register(p *Property) { properties[p.ID] = p }

// only keeps the obligations of a rule whose key contains one of the given
// substrings (a rule engine that spans the module is shared by properties
// that each own a part of it). Floors are dropped: the owning property keeps them.
func only(rule Rule, subs ...string) Rule {
	return Rule{Name: rule.Name, Run: func(p *Prog, r *Report) {
		tmp := NewReport()
		rule.Run(p, tmp)
		n := 0
		for _, o := range tmp.Obls {
			keep := o.Status == Undecided && (strings.HasPrefix(o.Key, "anchor:") || strings.HasPrefix(o.Key, "panic:"))
			for _, s := range subs {
				if strings.Contains(o.Key, s) {
					keep = true
				}
			}
			if keep {
				r.Add(o)
				n++
			}
		}
		r.Notes = append(r.Notes, tmp.Notes...)
		if n == 0 {
			r.Add(Obligation{Rule: rule.Name, Key: "floor:" + rule.Name + ":" + strings.Join(subs, "|"), Status: Undecided,
				Detail: "the rule produced no obligation for this property's part of the code: its anchors no longer match"})
		}
	}}
}

var stdAssumptions = []string{
	"go/types, go/ssa and the x/tools call graphs (v0.29.0) represent the program faithfully; type sizes are those of gc/amd64",
	"the specification tables in checker/spec.go (SEMI E5 format codes and widths, SEMI E37 session types and header layout) and the value domains in the rule files are correct transcriptions of the standards and of the library's documentation",
	"strconv, regexp, math, encoding/binary, strings, unicode and fmt behave as documented; where the abstract evaluator computes such a function on known arguments it uses the checker's own standard library (pure functions) or a restatement of the documented effect (encoding/binary, strings.Builder, bytes.Buffer writers)",
	"where an obligation says it was evaluated on enumerated inputs, the enumerated values cover the stated finite domain or one representative per cell; structural sizes named there (number of elements, number of variables, string lengths) are bounded unrollings, extended to all sizes only under the uniformity of the loop body, which is not proved",
	"distinct input memory paths do not alias (the receiver's fields, the arguments and their elements are different cells)",
	"the rule engines are my own and unverified: every claimed clause is a necessary condition of the property, decided from source shape; see coverage.not_decided for what remains behavioural",
}

var (
	rDomMsg    = Rule{"R14-domain(message)", ruleDomainMessage}
	rDomNodes  = Rule{"R14-domain(nodes)", ruleDomainNodes}
	rCkRep     = Rule{"R13-ckrep", ruleCkRep()}
	rErr       = Rule{"R9-err", ruleErrDiscipline}
	rShift     = Rule{"R4-shift", ruleShiftTrunc}
	rRecH      = Rule{"R8-recursion(hsms)", ruleRecursion("hsms")}
	rRecS      = Rule{"R8-recursion(sml)", ruleRecursion("sml")}
	rContH     = Rule{"R7-contain(hsms)", ruleContain("hsms")}
	rContS     = Rule{"R7-contain(sml)", ruleContain("sml")}
	rAllocH    = Rule{"R6-alloc(hsms)", ruleAllocBound("hsms")}
	rAllocS    = Rule{"R6-alloc(sml)", ruleAllocBound("sml")}
	rPreH      = Rule{"R6c-prealloc(hsms)", ruleAllocBeforeRecursion("hsms")}
	rPreS      = Rule{"R6c-prealloc(sml)", ruleAllocBeforeRecursion("sml")}
	rHeader    = Rule{"R26-header", ruleHeaderBytes}
	rEncTab    = Rule{"R1-encode", ruleEncodeTables}
	rToBytes   = Rule{"R15-tobytes", ruleToBytesGuard}
	rDispatch  = Rule{"R1c-dispatch", ruleDecodeDispatch}
	rSTypes    = Rule{"R1d-stype", ruleSTypes}
	rWidth     = Rule{"R22-width", ruleDecodeWidth}
	rDecHdr    = Rule{"R21-decode-header", ruleDecodeHeader}
	rFraming   = Rule{"R5-framing", ruleFraming}
	rDivisible = Rule{"R17-divisible", ruleDivisibility}
	rDomSML    = Rule{"R14-sml", ruleDomainSML}
	rSMLTab    = Rule{"R1e-sml", ruleSMLTables}
	rEmit      = Rule{"R19-emit", ruleEmitCapacity}
	rLexClass  = Rule{"R10-lexclass", ruleLexClass}
	rErrSupp   = Rule{"R25-errors", ruleErrorsSuppress}
	rMsgScope  = Rule{"R20-msgscope", ruleMsgScope}
	rImmut     = Rule{"R12-immut", ruleImmut}
	rIface     = Rule{"R2-iface", ruleIfaceTypes}
	rLossy     = Rule{"R3-lossy", ruleLossyConv}
	rFillPass  = Rule{"R2b-fill", ruleFillPassThrough}
	rFrame     = Rule{"R11-frame", ruleFrame}
	rCopy      = Rule{"R18-copy", ruleBoundedCopy}
	rCtlLayout = Rule{"R21-control", ruleControlLayout}
	rMsgLayout = Rule{"R21-message", ruleMessageLayout}
	rEndian    = Rule{"R16-endian", ruleEndian}
	rLimit     = Rule{"R14-limit", ruleSizeLimit}
	rSizes     = Rule{"R14-size", ruleDeclaredSizes}
	rAnchored  = Rule{"R24-anchored", ruleAnchoredRegex}
	rQuote     = Rule{"R23-quote", ruleQuoteAlphabet}
	rCensus    = Rule{"R14c-census", ruleRefusalCensus}
	rPayload   = Rule{"R16b-payload", rulePayload}
	rAdvance   = Rule{"R5b-advance", rulePosAdvance}
	rHdrSpell  = Rule{"R1e-header", ruleHeaderSpelling}
	rOrder     = Rule{"R27-order", ruleVariableOrder}
	rPrint     = Rule{"R1e-print", rulePrinters}
	rAllocSite = Rule{"R13b-alloc-site", ruleNodeAllocSites}
	rFormat    = Rule{"R28-format", ruleFormatConst}
	rLitSrc    = Rule{"R29-literal-source", ruleLiteralSource}
	rTermCall  = Rule{"R19b-terminate", ruleTerminateCallers}
	rFanH      = Rule{"R8b-fanout(hsms)", ruleFanout("hsms")}
	rFanS      = Rule{"R8b-fanout(sml)", ruleFanout("sml")}
)

func init() {
	register(&Property{ID: "C01", Title: "HSMS encode->decode round trip",
		Rules:       []Rule{rEncTab, rHeader, rDispatch, rWidth, rShift, rDecHdr, rMsgLayout, rEndian, only(rIface, "hsms.parser", "consumer:"), rPayload, rAdvance, only(rImmut, "NewHSMSDataMessage", "SetSessionIDAndSystemBytes", "hsms.Parse", "(*hsms.parser)", "I5:global")},
		Explanation: "Decides, from the source, the structural conditions every round trip depends on: each node's ToBytes requests the item header of its own E5 format (R1-encode) and the header routine emits the E5 format byte and minimal big-endian length on every cell of the size axis (R26); the decoder maps each of the 256 format-byte values to exactly the factory and width of that E5 code (R1c); every numeric branch reads its own width big-endian, reinterprets it at that width and hands the value to the factory untouched, in a type that factory accepts (R22, R2); multi-byte item lengths are accumulated without losing bits (R4); header fields are read from the offsets they are written to (R21 both directions); multi-byte values are written most significant byte first (R16). Each element's payload bytes are the element itself (booleans 1/0, byte(v) for binary and ASCII, children in index order: R16b), the decoder advances by exactly the declared length before building an item (R5b), and a decoded message never aliases the input buffer (R12 on the decoder and the message constructors).",
		NotDecided:  "equality of values and item trees for all inputs (round-trip equality over run-time data) and the decoder's position arithmetic are not decided; only the listed necessary conditions are.",
		Assumptions: stdAssumptions})
	register(&Property{ID: "C02", Title: "Encoded bytes conform to SEMI E5 / E37",
		Rules:       []Rule{rEncTab, rHeader, rToBytes, rMsgLayout, rEndian, rLimit, rPayload},
		Explanation: "Compares the encoder with an independent transcription of the standards: format code and element width per node type and byteSize (R1-encode), the item header routine against the E5 reference header for all 14 type names on every cell of the size axis cut at 255|256, 65535|65536, 16777215|16777216 bytes and at every constant the code compares with (R26: format byte, number of length bytes, big-endian length, error beyond the limit), the message layout byte by byte as symbolic terms (R21: 4-byte big-endian length of text+10, session id, W|stream, function, 0, 0, system bytes, item), big-endian payload emission (R16), and that an incomplete item or message encodes to the empty slice on each of its incompleteness conditions separately (R15). Per-element payload emission is decided as terms (R16b).",
		NotDecided:  "payload bytes for all values (two's complement of every integer, IEEE conversion delegated to math.Float*bits, 7-bit ASCII) are decided only as 'the bytes appended are byte(x >> 8k) of the stored value in descending k'; children order in lists and boolean 0/1 emission are not decided.",
		Assumptions: stdAssumptions})
	register(&Property{ID: "C03", Title: "HSMS decoder accepts exactly well-formed messages",
		Rules:       []Rule{rFraming, rSTypes, rDispatch, rDivisible, rShift, rContH, rWidth, only(rIface, "hsms.parser", "consumer:"), only(rCkRep, "ast.New"), only(rAllocH, "R6-alloc"), rAdvance, rDomNodes, only(rDomMsg, "NewHSMSDataMessage")},
		Explanation: "Every rejection the statement lists that has a structural form is decided as a guard denotation or a dominance fact: at least 14 bytes and success exactly when declared length equals bytes present (R5), PType 0 and exactly the E37 STypes over all 256x5 header byte pairs, with the right constructor per SType (R1d), exactly the 42 E5 format bytes with 1-3 length bytes accepted over all 256 values (R1c), payload length divisible by the element width in all three numeric handlers (R17), all bytes consumed before a data message is built (R5), lengths read without losing bits (R4), declared lengths checked against the remaining input (R6), constructor refusals converted to ok=false (R7), values built through validating factories with agreeing types and widths (R13, R2, R22). Values must be representable: the factories the decoder feeds refuse NaN/Inf/out-of-range/non-ASCII exactly (R14-domain), and the position advances by the declared length (R5b). Evaluated on concrete texts, a list whose text ends at an element boundary before the declared count is refused and the complete text next to it accepted (R5b short-list); a control message of every E37 SType is accepted whatever its header bytes 0-3 hold, and its ten header bytes are handed on unchanged (R1d control-header-bytes); the framing test and the 'no bytes after the item' test are evaluated on 87 framings and 15 data messages (R5).",
		NotDecided:  "that position arithmetic and slice bounds implement the grammar for every byte string, and re-encoding equality, are not decided (an independent reference decoder comparison is dynamic).",
		Assumptions: stdAssumptions})
	register(&Property{ID: "C04", Title: "SML print->parse round trip",
		Rules:       []Rule{rSMLTab, rQuote, only(rSizes, "String:bounds", "bounds->variable", "bounds-flow", "NewASCIINodeVariable", "parseDataItemSize"), only(rLexClass, "upper-emit", "upper-consts"), rHdrSpell, rPrint, only(rFormat, "ast."), rLitSrc, only(rDomSML, "ellipsis-numbering")},
		Explanation: "Decides that printer and reader use the same alphabets: each of the 14 type keywords is classified by the lexer and dispatched by the parser to the factory and element width of the same format, numbers are read with the item's own bit size (R1e-sml); every ASCII character the printer puts inside a quoted run can be read back there and the value never reaches the output unfiltered, while the reader takes quoted text literally (R23); ASCII-variable bounds are printed from, and parsed into, (min, max) in the same order (R14-size data flow). Printers write '<KEYWORD[n] ...>' with their own keyword, numbers in base 10 / shortest float of the item's width / 0b binary / T,F, and variable names at their positions (R1e-print); the 33 header spellings are read back in full by the header lexer's patterns (R1e-header); no format string is computed from data (R28); each numeric item is read by exactly one strconv function (R29); on nested lists with two and three ellipses the reader numbers every ellipsis by its place in the text (lexer and item parser evaluated on the texts).",
		NotDecided:  "that parse(print(m)) equals m on values (number formatting, shortest float printing, message-name lexing, ellipsis numbering beyond the nested samples) is a run-time-value question and is not decided.",
		Assumptions: stdAssumptions})
	register(&Property{ID: "C05", Title: "SML literals denote exactly the stored values",
		Rules:       []Rule{only(rErr, "sml.parser"), only(rIface, "sml.parser", "consumer:"), rSMLTab, rDomSML, rErrSupp, only(rCkRep, "ast.New"), rLitSrc, only(rMsgScope, "sml.parser.")},
		Explanation: "No conversion error of a literal is discarded except four documented, range-guarded Atoi calls (R9); each item parser hands its factory only types it accepts (R2); bitSize is 8 x the item's width, base 0, and keyword->width dispatch is right (R1e-sml); the parser diagnoses exactly the literals outside [0,255] for binary, above 127 for ASCII codes and quoted runes, outside [0,127]/[0,255] for stream/function, and a number followed by a letter, digit or underscore (R14-sml, as guard denotations in sink mode); any diagnosed input returns no message (R25); the factories' own range checks cannot be bypassed (R13). Each numeric item type is read by exactly one strconv function, also through helpers (R29). What a literal denotes cannot depend on the literals read before it: the parser keeps no field that is written while items are parsed and survives them (a memo of converted literals), other than the diagnostics, the messages and the per-message name set that is reset (R20 on the parser's fields).",
		NotDecided:  "that strconv's reading of a literal is the SML reading (trusted) and the lexer's number scanning beyond the terminator check are not decided.",
		Assumptions: stdAssumptions})
	register(&Property{ID: "C06", Title: "SML parser is total and all-or-nothing",
		Rules:       []Rule{rContS, rAllocS, rPreS, rRecS, rFanS, rEmit, rErrSupp, only(rImmut, "I5:go"), rTermCall, only(rLexClass, "comment-return", "token-positions"), only(rFormat, "sml.")},
		Explanation: "Every refusal (explicit panic or failing type assertion) reachable from sml.Parse lies under a deferred recover on every call path (R7); no size taken from the input text sizes an allocation unchecked (R6, R6c); each lexer state sends at most as many tokens per invocation as the channel holds, runs only when the buffer is empty, and closes the channel after error/EOF (R19); messages are returned only when no error was reported and diagnostics have the documented form (R25); no goroutine is started (I5); recursion depth (R8) is an open, recorded finding; the recursive walk of the built item tree that every list construction runs (Variables, through checkRep) enters each child at most once on any path through its body, so nesting cannot multiply the work by 2 per level (R8b). Only errorf and lexEOF, which send a positioned token first, end the token stream, and the comment state returns to the interrupted state or lexEOF (R19b, R10), so a diagnostic always carries a token position, and that position is the place of the token in the text: the lexer evaluated on texts with line breaks inside size declarations, CRLF, tabs, comments and multi-byte characters gives every token the line and column counted from the text (R10 token-positions); no format string is computed from data (R28).",
		NotDecided:  "lexer termination (progress per state invocation), run-time index/slice panics in the lexer, time complexity, and positions beyond the evaluated texts are not decided.",
		Assumptions: stdAssumptions})
	register(&Property{ID: "C07", Title: "HSMS decoder is total, memory linear in the input",
		Rules:       []Rule{rContH, rAllocH, rPreH, rRecH, rFanH, only(rImmut, "I5:go", "hsms.Parse", "(*hsms.parser)")},
		Explanation: "hsms.Parse defers, in its entry block, a closure that itself calls recover and sets ok=false, and every may-panic site below it is under that recover (R7); every buffer sized from a declared length is preceded, on every path, by a comparison of that length with the bytes present (R6, interprocedural through the numeric handlers); no input-sized buffer is allocated before a recursive call (R6c) and no string is built by concatenation in a loop (R6b) — the two ways allocation becomes quadratic; the input slice is never written (R12-I3); recursion depth (R8) is an open, recorded finding; the recursive walk of the built item tree that every list construction runs enters each child at most once per path through its body (R8b: no 2^depth blow-up for nested lists).",
		NotDecided:  "the constant of the linear bound, allocation inside the ast factories beyond 'sized by len(values)', and the allocation total of the per-level re-walk of nested lists (quadratic in depth once a visit allocates) are not decided.",
		Assumptions: stdAssumptions})
	register(&Property{ID: "C08", Title: "Comments, whitespace and letter case never change what is parsed",
		Rules:       []Rule{rLexClass, only(rSMLTab, "keyword-class"), only(rHdrSpell, "prefix-case")},
		Explanation: "Decides the character classes as sets, by evaluating the lexer states over every rune below U+3100 that is ASCII or Unicode white space: both states skip exactly {space, tab, CR, LF}, the size scanner accepts exactly that set and the size token drops all of it, the comment state gives back only characters both states skip and returns to the interrupted state (R10b); no classifier is applied to a single byte (R10a); every keyword-like token is emitted upper-cased and the parser compares only with upper-case constants (R10c); exactly the 14 keywords and T/F are classified case-insensitively (R1e-sml); comment tokens never reach the grammar (R10d).",
		NotDecided:  "equality of parses for all layout pairs and that diagnostics move by exactly the inserted lines and columns (arithmetic of lineColumn) are not decided; number-prefix case is decided only through base 0.",
		Assumptions: stdAssumptions})
	register(&Property{ID: "C09", Title: "Filling variables is pure substitution",
		Rules:       []Rule{rImmut, rFillPass, only(rIface, "FillVariables", "fillEllipsis", "consumer:"), rCkRep, rLossy, only(rFrame, "FillVariables"), rAllocSite},
		Explanation: "Necessary conditions only: the receiver and shared children are never written (R12); in every FillVariables the value looked up in the caller's map is stored into the factory's argument list as is, the list is never read back before the factory sees it, and the factory receives it (R2b) in a type set the factory accepts (R2); the result is validated by the same checkRep a constructor runs (R13) with the same lossless-conversion guarantee (R3, R3b) — the 'refused exactly as the constructor refuses it' clause; the message-level fill keeps every header field (R11). Nodes are allocated only by their own factory, so no fill path bypasses the factory's checks (R13b).",
		NotDecided:  "equality with direct construction, order preservation and composition of successive fills are relations between values of different runs; nothing structural stands for them.",
		Assumptions: stdAssumptions})
	register(&Property{ID: "C11", Title: "Items and messages are immutable; no aliasing with caller data",
		Rules:       []Rule{rImmut, only(rCopy, "R18"), only(rCtlLayout, "NewHSMSControlMessage:copy")},
		Explanation: "A type-directed effect analysis over all three packages decides the whole statement under its stated assumptions: (I1) a field of an item or message is stored only into an object the storing function has just allocated; (I2) a slice or map loaded from such an object is never written through, appended to, copied into, handed to an external function outside the read-only allow-list, returned by an exported function, or stored anywhere but into a new immutable object; (I3) slice/map parameters of exported functions are treated the same and never stored into an object; (I5) no package-level variable is written after initialisation, none is a slice or map, there are no goroutines and no sync/unsafe/reflect. Labels propagate through slicing, phis, interfaces, calls in both directions, closures and fields of the per-call helper structs.",
		NotDecided:  "user-defined ItemNode implementations are outside the claim.",
		Assumptions: append([]string{"external functions on the read-only allow-list (fmt, strings, strconv, unicode, utf8, math, regexp, binary.BigEndian.Uint*) do not modify or retain their slice arguments"}, stdAssumptions...)})
	register(&Property{ID: "C12", Title: "Constructors store exactly what was passed or refuse it",
		Rules:       []Rule{rDomMsg, rDomNodes, rLossy, only(rErr, "ast."), rCkRep, rIface, rAnchored, rLimit, only(rSizes, "checkRep:bounds", "FillVariables"), rCensus, rAllocSite, only(rImmut, ":I1:", "I5:global", "I5:import:ast", "I5:imports:ast")},
		Explanation: "Each documented value domain is compared with the code's guards as sets, by three-valued evaluation over one representative per cell of the arrangement cut by all constants of the code, of its observed comparisons and of the specification: stream, function, wait bit x function parity, direction, session id, system-bytes length, message-name runes, element ranges of I1-I8/U1-U8/F4/F8/binary/ASCII per byteSize, admissible byteSizes, the size limit, ASCII-variable bounds (R14); every integer conversion in a factory is value-preserving or dominated by a refusal of the values it would change, and arguments reach the stored slice through conversions only, placeholders being zero (R3, R3b); accepted dynamic types are exactly the documented ones (R2); no parse error is dropped (R9); every allocation is validated before it is returned (R13); name patterns are anchored (R24). Nodes are allocated only by their own factory (R13b); every explicit refusal of pkg/ast is live, membership refusals insert what they test, and the refusals the statement names are present (R14c). What a constructor accepts cannot depend on earlier calls: pkg/ast has no package-level mutable state (I5); and what an item or message encodes to cannot drift from what was stored: no method writes a field of an object that already exists, so there is no memo to go stale (I1).",
		NotDecided:  "that stored values are printed and encoded unchanged (C02/C04), float rounding, the languages of the name patterns beyond anchoring, and the list rules (ellipsis position, duplicates) beyond the presence of validation on every construction path are not decided.",
		Assumptions: stdAssumptions})
	register(&Property{ID: "C13", Title: "16,777,215-byte item limit and length header",
		Rules:       []Rule{rLimit, rHeader, rEncTab, rShift, only(rAllocH, "R6-alloc:"), rAllocSite, only(rAdvance, "sequence-of-items")},
		Explanation: "The limit constant is 16,777,215 and each of the 7 factories refuses exactly count*width > limit for all 14 formats (R14-limit, cells at limit/width); the header routine returns an error beyond the limit and otherwise the E5 format byte, the minimal number of length bytes and the big-endian length for every type name on every cell of the size axis, including 255|256 and 65535|65536 (R26); each node requests the header of its own type for its element count (R1-encode); the decoder accumulates 1-3 length bytes without losing bits (R4). No path allocates a node outside its factory, so the limit check cannot be bypassed (R13b). Evaluated on a list of items whose length fields have 2, 1 and 3 bytes, the decoder reads each length on its own, whatever came before (R5b sequence).",
		NotDecided:  "the header is decided on one representative per cell of the size axis, which is exact as long as the routine only compares the size (or bytes of it) with constants; a sweep of all 16.7M sizes is dynamic and not done.",
		Assumptions: stdAssumptions})
	register(&Property{ID: "C14", Title: "HSMS control messages",
		Rules:       []Rule{rCtlLayout, rSTypes, only(rDecHdr, "control"), only(rImmut, "ControlMessage", "NewHSMSControlMessage", "NewHSMSMessage")},
		Explanation: "Each of the 8 typed constructors is evaluated symbolically and its 10 header bytes are compared, as terms over the parameters, with the E37 layout: session id high/low (0xFF 0xFF for linktest), byte 2 (0, or the rejected SType / PType when the reason is 2, decided per reason code), byte 3 status/reason, byte 4 never written, byte 5 the constructor's SType, bytes 6-9 from the caller's or the request's system bytes; responses copy bytes 0-1 and 6-9 of the request and refuse exactly the requests whose Type() is not the paired one (R21); the encoder emits 00 00 00 0A then the whole header; Type() returns the E37 name for all 256 STypes x 6 PTypes and never panics, the decoder accepts exactly those STypes and passes the 10 header bytes on (R1d, R21-decode). Evaluated on 256 concrete control messages (every SType; bytes 0-3 at their extremes) the decoder accepts each and builds it from exactly its ten header bytes; the control frame evaluated on ten distinct header bytes is 00 00 00 0A followed by them.",
		NotDecided:  "behaviour of the generic constructor for a header that is not 10 bytes long is outside the statement.",
		Assumptions: stdAssumptions})
	register(&Property{ID: "C15", Title: "Declared item sizes are enforced",
		Rules:       []Rule{rSizes, only(rAllocSite, "ASCIINode"), only(rLexClass, "token-positions")},
		Explanation: "The three guards involved only compare integers, so their denotation is decided exactly on the weak orderings of (size, lower, upper, -1): the parser's size check reports an error exactly when not (lower <= size and (upper == -1 or size <= upper)) (512 tuples), ASCIINode.FillVariables reaches NewASCIINode exactly when min <= len and (max == -1 or len <= max), and ASCIINode.checkRep accepts exactly min >= 0, max >= -1, min <= max unless max == -1; the bounds travel unpermuted from the size token through parseDataItemSize, parseDataItem, parseASCII and NewASCIINodeVariable into the fields, FillInStringLength and the printer's three size forms; the size check is reached for all 14 item types with item.Size() and the size token; [n] yields (n, n) and [a..b] yields (a, b). ASCII nodes are allocated only by their factories, so bounds cannot be dropped on the way (R13b). The error is reported at the declaration only if the size token carries the position of its place in the text, also after an earlier size declaration that spans lines: the lexer evaluated on such texts gives every token the line and column counted from the text (R10 token-positions).",
		NotDecided:  "the size scanner in the lexer and what Size() counts for each node are not decided.",
		Assumptions: stdAssumptions})
	register(&Property{ID: "C16", Title: "Variable listing, encodability, size",
		Rules:       []Rule{rToBytes, only(rCkRep, "ListNode", "DataMessage"), only(rImmut, "Variables", "getVariableNames", "variablesSwapKeyValue"), only(rCensus, "ListNode", "duplicated"), only(rHeader, "R26"), only(rLimit, "R14-limit"), rOrder, only(rPrint, "variables-at-positions"), rAllocSite},
		Explanation: "An item or message encodes to bytes only when it reports no variables, decided per type by evaluating ToBytes with the variable count bound: a non-zero count forces the empty slice on every reachable return, zero allows bytes; a list returns the empty slice as soon as a child does; a message additionally requires a decided wait bit and a session id, each condition separately (R15); every list construction runs the tree-wide duplicate check because every ListNode allocation is validated (R13); the observers return fresh slices (R12). The variable list is sorted ascending by position, Size() is len(values), printers put names at their positions, lists walk children in index order (R27, R1e-print); duplicate detection inserts what it tests (R14c); nodes come only from factories (R13b); an item that the factory accepts always gets a header (R26 + R14-limit agree on the limit).",
		NotDecided:  "that the listed order equals the printed order and that Size() equals the number of printed elements are relations between two run-time outputs and are not decided.",
		Assumptions: stdAssumptions})
	register(&Property{ID: "C17", Title: "Safe for concurrent use",
		Rules:       []Rule{rImmut},
		Explanation: "Decided by immutability: no package-level variable is written after initialisation and none is a slice or map, no goroutine is started, sync/unsafe/reflect are not imported, the mutable helper structs (sml.parser, sml.lexer, hsms.parser, ast.fillState) are unexported, not reachable from any item or message and not returned by any exported function, and no function writes memory reachable from its receiver or arguments (I1-I3). Concurrent calls therefore share only memory nobody writes, which is race-free for every schedule and makes each call's result independent of the others.",
		NotDecided:  "nothing schedule-dependent is left under the assumptions.",
		Assumptions: append([]string{"the allow-listed standard-library functions are safe for concurrent use on shared read-only arguments (documented for regexp, strconv, strings, fmt)"}, stdAssumptions...)})
	register(&Property{ID: "C18", Title: "Message producers change exactly the fields they name",
		Rules:       []Rule{rFrame, only(rCkRep, "DataMessage"), rCopy, only(rDomMsg, "SetSessionIDAndSystemBytes"), only(rImmut, "(*ast.DataMessage)")},
		Explanation: "The frame condition is decided for all three producers and all 8 fields (taken from the struct type, so a new field becomes an obligation): each producer is evaluated symbolically and every field of the freshly allocated result outside the producer's modifies-set must be the receiver's field of the same name; inside the set the value must be the argument (session id), 0/1 for false/true (wait bit), a fresh 4-byte buffer filled from the argument (system bytes) or receiver.dataItem.FillVariables(values); SetWaitBit returns the receiver itself exactly when its wait bit is not optional (R11); results are validated (R13); the system-bytes copy cannot overrun its 4-byte buffer (R18) and never keeps the caller's slice (R12-I3).",
		NotDecided:  "nothing structural is left for the stated producers.",
		Assumptions: stdAssumptions})
	register(&Property{ID: "C19", Title: "Messages in one SML text are parsed independently",
		Rules:       []Rule{rMsgScope, only(rImmut, "I5:global", "I5:go", "I5:mutable-struct:sml")},
		Explanation: "Every field of the parser that is written while a message is parsed is either re-initialised at the top of parseMessage before anything else runs, or only ever extended by append / advanced by reslicing (result lists and the token queue); a new field that is neither is a violation; both lexer states return to the header state right after emitting the terminator; parseMessage is called in a loop that ends at the EOF token (R20); there is no package-level state to carry anything across (I5).",
		NotDecided:  "that the token stream of a concatenation is the concatenation of the token streams (lexer position arithmetic) is not decided.",
		Assumptions: stdAssumptions})
}
