package main

import (
	"fmt"
	"go/token"
	"go/types"
	"strings"

	"golang.org/x/tools/go/ssa"
)

// R6 alloc-bound — input-declared sizes are checked before they size a buffer.
//
// Taint: values computed from the *content* of the input (bytes of the HSMS
// input slice, results of strconv on SML token text). Sinks: make() sizes and
// strings.Repeat counts. A tainted sink operand must be bounded where it is
// used: it (or the value it is monotonically derived from) was compared as
// "not greater than" something on every path to the sink.

type taintCtx struct {
	p       *Prog
	tainted map[ssa.Value]bool
	fields  map[*types.Var]bool // struct fields holding tainted values
	srcPkg  string
}

func isInputBytesSource(v ssa.Value, pkg string) bool {
	switch x := v.(type) {
	case *ssa.Call:
		callee := x.Common().StaticCallee()
		if callee == nil || callee.Pkg == nil {
			return false
		}
		path := callee.Pkg.Pkg.Path()
		if pkg == "hsms" && path == "encoding/binary" {
			return true
		}
		if pkg == "sml" && path == "strconv" {
			switch callee.Name() {
			case "Atoi", "ParseInt", "ParseUint", "ParseFloat":
				return true
			}
		}
	}
	return false
}

// fieldOf returns the struct field a FieldAddr/Field selects.
func fieldOf(v ssa.Value) *types.Var {
	switch x := v.(type) {
	case *ssa.FieldAddr:
		if st := derefStruct(x.X.Type()); st != nil {
			return st.Field(x.Field)
		}
	case *ssa.Field:
		if st, ok := x.X.Type().Underlying().(*types.Struct); ok {
			return st.Field(x.Field)
		}
	}
	return nil
}

func computeTaint(p *Prog, pkg string) *taintCtx {
	t := &taintCtx{p: p, tainted: map[ssa.Value]bool{}, fields: map[*types.Var]bool{}, srcPkg: pkg}
	funcs := p.PkgFuncs(pkg)
	// In the decoder the input is the []byte field/parameter named by type:
	// any element read from a []byte that is (a reslice of) the parser's
	// input field or Parse's parameter.
	inputSlices := map[ssa.Value]bool{}
	if pkg == "hsms" {
		for _, fn := range funcs {
			for _, prm := range fn.Params {
				if isByteSlice(prm.Type()) {
					inputSlices[prm] = true
				}
			}
		}
	}
	mark := func(v ssa.Value) bool {
		if v == nil || t.tainted[v] {
			return false
		}
		t.tainted[v] = true
		return true
	}
	for changed := true; changed; {
		changed = false
		for _, fn := range funcs {
			for _, b := range fn.Blocks {
				for _, instr := range b.Instrs {
					v, isVal := instr.(ssa.Value)
					switch x := instr.(type) {
					case *ssa.Store:
						if t.tainted[x.Val] {
							if f := fieldOf(x.Addr); f != nil && !t.fields[f] {
								t.fields[f] = true
								changed = true
							}
							// store into a local cell: loads of it are tainted
							if al, ok := x.Addr.(*ssa.Alloc); ok && mark(al) {
								changed = true
							}
						}
						if pkg == "hsms" && inputSlices[x.Val] {
							if f := fieldOf(x.Addr); f != nil && !t.fields[f] {
								// the input slice itself is stored in a field: remember as input holder
								t.fields[f] = true
								changed = true
							}
						}
						continue
					}
					if !isVal {
						continue
					}
					if isInputBytesSource(v, pkg) {
						if mark(v) {
							changed = true
						}
						continue
					}
					switch x := v.(type) {
					case *ssa.UnOp:
						if x.Op == token.MUL {
							// load: tainted if loading an input element, a tainted field, or a tainted cell
							if ia, ok := x.X.(*ssa.IndexAddr); ok && (inputSlices[ia.X] || (isByteSlice(ia.X.Type()) && t.tainted[ia.X])) {
								if mark(v) {
									changed = true
								}
							}
							if f := fieldOf(x.X); f != nil && t.fields[f] {
								if isByteSlice(x.Type()) {
									if !inputSlices[v] {
										inputSlices[v] = true
										changed = true
									}
								} else if mark(v) {
									changed = true
								}
							}
							if t.tainted[x.X] {
								if mark(v) {
									changed = true
								}
							}
						} else if t.tainted[x.X] && mark(v) {
							changed = true
						}
					case *ssa.Slice:
						if inputSlices[x.X] && !inputSlices[v] {
							inputSlices[v] = true
							changed = true
						}
					case *ssa.Index:
						if inputSlices[x.X] && mark(v) {
							changed = true
						}
					case *ssa.Lookup:
						if inputSlices[x.X] && mark(v) {
							changed = true
						}
					case *ssa.Range:
						if inputSlices[x.X] && mark(v) {
							changed = true
						}
					case *ssa.Next:
						if t.tainted[x.Iter] && mark(v) {
							changed = true
						}
					case *ssa.Extract:
						if t.tainted[x.Tuple] {
							// index 0 of Next is the ok flag, 1 the key: only the value is content
							if nx, ok := x.Tuple.(*ssa.Next); ok && x.Index != 2 {
								_ = nx
							} else if mark(v) {
								changed = true
							}
						}
					case *ssa.BinOp:
						switch x.Op {
						case token.EQL, token.NEQ, token.LSS, token.LEQ, token.GTR, token.GEQ:
						default:
							if (t.tainted[x.X] || t.tainted[x.Y]) && mark(v) {
								changed = true
							}
						}
					case *ssa.Convert:
						if t.tainted[x.X] && mark(v) {
							changed = true
						}
					case *ssa.ChangeType:
						if t.tainted[x.X] && mark(v) {
							changed = true
						}
					case *ssa.Phi:
						for _, e := range x.Edges {
							if t.tainted[e] && mark(v) {
								changed = true
							}
						}
					case *ssa.Call:
						// module callee: arguments taint parameters, tainted returns taint the call
						for _, callee := range p.Callees(x) {
							if !InModule(callee) || callee.Blocks == nil {
								continue
							}
							args := x.Common().Args
							off := 0
							if x.Common().IsInvoke() {
								off = 1
							}
							for i, a := range args {
								if i+off < len(callee.Params) {
									if t.tainted[a] && mark(callee.Params[i+off]) {
										changed = true
									}
									if inputSlices[a] && !inputSlices[callee.Params[i+off]] {
										inputSlices[callee.Params[i+off]] = true
										changed = true
									}
								}
							}
							for _, cb := range callee.Blocks {
								if ret, ok := cb.Instrs[len(cb.Instrs)-1].(*ssa.Return); ok {
									for _, rv := range ret.Results {
										if t.tainted[rv] && mark(v) {
											changed = true
										}
									}
								}
							}
						}
					}
				}
			}
		}
	}
	return t
}

func isByteSlice(t types.Type) bool {
	s, ok := t.Underlying().(*types.Slice)
	if !ok {
		return false
	}
	b, ok := s.Elem().Underlying().(*types.Basic)
	return ok && b.Kind() == types.Uint8
}

// derivedFrom returns the chain of values v is monotonically (non-strictly
// increasing) derived from, v first: conversions, division or multiplication
// by a positive constant, addition of a constant.
func monotoneChain(v ssa.Value) []ssa.Value {
	var out []ssa.Value
	for i := 0; i < 8 && v != nil; i++ {
		out = append(out, v)
		switch x := v.(type) {
		case *ssa.Convert:
			v = x.X
		case *ssa.ChangeType:
			v = x.X
		case *ssa.BinOp:
			if x.Op == token.QUO {
				// |x / y| <= |x| for every integer divisor (y == 0 panics)
				v = x.X
				continue
			}
			c, ok := x.Y.(*ssa.Const)
			if !ok {
				return out
			}
			cv := constVal(c)
			if cv.K != KInt {
				return out
			}
			switch x.Op {
			case token.QUO, token.MUL, token.SHR, token.SHL:
				if cv.I.Sign() <= 0 && (x.Op == token.QUO || x.Op == token.MUL) {
					return out
				}
				v = x.X
			case token.ADD, token.SUB:
				v = x.X
			default:
				return out
			}
		default:
			return out
		}
	}
	return out
}

// upperBoundedAt reports whether some value of chain is known to be <= a
// bound at block b: a dominating conditional compares it and b lies on the
// side where it is not greater.
func (t *taintCtx) upperBoundedAt(chain []ssa.Value, b *ssa.BasicBlock, depth int) (bool, string) {
	for _, u := range chain {
		if _, ok := u.(*ssa.Const); ok {
			return true, "constant"
		}
		if c, ok := u.(*ssa.Call); ok {
			if bi, ok := c.Call.Value.(*ssa.Builtin); ok && bi.Name() == "len" {
				return true, "length of an existing object"
			}
		}
		if !t.tainted[u] {
			return true, "not derived from input content"
		}
		refs := u.Referrers()
		if refs != nil {
			for _, ref := range *refs {
				cmp, ok := ref.(*ssa.BinOp)
				if !ok {
					continue
				}
				// which successor is the "u <= bound" side?
				var side int = -1 // index into Succs
				other := cmp.Y
				uLeft := cmp.X == u
				if !uLeft {
					other = cmp.X
				}
				if t.tainted[other] && !t.boundedExpr(other, 0) {
					// compared with another unchecked input-derived value: not a bound
					continue
				}
				switch cmp.Op {
				case token.GTR: // u > X : false side ; X > u : true side
					if uLeft {
						side = 1
					} else {
						side = 0
					}
				case token.GEQ: // u >= X: false side; X >= u: true
					if uLeft {
						side = 1
					} else {
						side = 0
					}
				case token.LSS: // u < X: true; X < u: false
					if uLeft {
						side = 0
					} else {
						side = 1
					}
				case token.LEQ:
					if uLeft {
						side = 0
					} else {
						side = 1
					}
				case token.EQL:
					side = 0
				case token.NEQ:
					side = 1
				default:
					continue
				}
				crefs := cmp.Referrers()
				if crefs == nil {
					continue
				}
				for _, cr := range *crefs {
					iff, ok := cr.(*ssa.If)
					if !ok {
						continue
					}
					target := iff.Block().Succs[side]
					otherSucc := iff.Block().Succs[1-side]
					// b must be reachable only through the bounded side:
					// the bounded successor dominates b and has the If block as its only predecessor,
					// or the other successor cannot reach b at all.
					if (target.Dominates(b) && len(target.Preds) == 1) || (iff.Block().Dominates(b) && !reaches(otherSucc, b, iff.Block())) {
						return true, fmt.Sprintf("compared (%s) at %s before use", cmp.Op, t.p.Pos(cmp.Pos()))
					}
				}
			}
		}
		// result of a module function: bounded at every return of the callee
		if depth < 3 {
			var call *ssa.Call
			idx := 0
			switch x := u.(type) {
			case *ssa.Extract:
				call, _ = x.Tuple.(*ssa.Call)
				idx = x.Index
			case *ssa.Call:
				call = x
			}
			if call != nil {
				if sc := call.Common().StaticCallee(); sc != nil && len(sc.Blocks) > 0 && InModule(sc) {
					all, nRet, why := true, 0, ""
					for _, rb := range sc.Blocks {
						ret, ok := rb.Instrs[len(rb.Instrs)-1].(*ssa.Return)
						if !ok || idx >= len(ret.Results) {
							continue
						}
						nRet++
						ok2, w := t.upperBoundedAt(monotoneChain(ret.Results[idx]), rb, depth+1)
						if !ok2 {
							all = false
							break
						}
						if w != "constant" {
							why = w
						}
					}
					if all && nRet > 0 {
						return true, fmt.Sprintf("result of %s, bounded at each of its %d returns: %s", FnName(sc), nRet, why)
					}
				}
			}
		}
		// a field of a struct: the same field read elsewhere from the same local
		// variable may be the one that was compared; a field of a struct
		// parameter is bounded when it is at every call site
		if depth < 3 {
			var sv ssa.Value
			fi := -1
			switch x := u.(type) {
			case *ssa.Field:
				sv, fi = x.X, x.Field
			case *ssa.UnOp:
				if fa, ok := x.X.(*ssa.FieldAddr); ok && x.Op == token.MUL {
					if al, ok := fa.X.(*ssa.Alloc); ok {
						for _, eq := range fieldLoads(al, fa.Field) {
							if eq != u {
								if ok2, w := t.upperBoundedAt([]ssa.Value{eq}, b, depth+3); ok2 {
									return true, w
								}
							}
						}
						// the local is the spilled copy of a struct parameter
						if arefs := al.Referrers(); arefs != nil {
							nStore := 0
							var stored ssa.Value
							for _, ar := range *arefs {
								if st, ok := ar.(*ssa.Store); ok && st.Addr == ssa.Value(al) {
									nStore++
									stored = st.Val
								}
							}
							if nStore == 1 {
								if _, isPrm := stored.(*ssa.Parameter); isPrm {
									sv, fi = stored, fa.Field
								}
							}
						}
					}
				}
			}
			if prm, ok := sv.(*ssa.Parameter); ok && fi >= 0 {
				fn := prm.Parent()
				idx := -1
				for i, q := range fn.Params {
					if q == prm {
						idx = i
					}
				}
				node := t.p.CG.Nodes[fn]
				if node != nil && idx >= 0 && len(node.In) > 0 {
					all, why := true, ""
					for _, e := range node.In {
						site := e.Site
						if site == nil || site.Common().IsInvoke() || idx >= len(site.Common().Args) {
							all = false
							break
						}
						found := false
						if ld, ok := site.Common().Args[idx].(*ssa.UnOp); ok && ld.Op == token.MUL {
							if al, ok := ld.X.(*ssa.Alloc); ok {
								for _, eq := range fieldLoads(al, fi) {
									if ok2, w := t.upperBoundedAt(monotoneChain(eq), site.Block(), depth+1); ok2 {
										found, why = true, w
										break
									}
								}
							}
						}
						if !found {
							all = false
							break
						}
					}
					if all {
						return true, "the field is bounded at every call site: " + why
					}
				}
			}
		}
		// parameter: every caller must pass a bounded value
		if prm, ok := u.(*ssa.Parameter); ok && depth < 3 {
			fn := prm.Parent()
			idx := -1
			for i, q := range fn.Params {
				if q == prm {
					idx = i
				}
			}
			node := t.p.CG.Nodes[fn]
			if node != nil && idx >= 0 && len(node.In) > 0 {
				all := true
				why := ""
				for _, e := range node.In {
					site := e.Site
					if site == nil {
						all = false
						break
					}
					args := site.Common().Args
					ai := idx
					if site.Common().IsInvoke() {
						ai = idx - 1
					}
					if ai < 0 || ai >= len(args) {
						all = false
						break
					}
					ok2, w := t.upperBoundedAt(monotoneChain(args[ai]), site.Block(), depth+1)
					if !ok2 {
						all = false
						break
					}
					why = w
				}
				if all {
					return true, "bounded at every call site: " + why
				}
			}
		}
	}
	return false, ""
}

// boundedExpr recognises expressions that cannot exceed the size of an
// existing object: a constant, len(x), len(x) minus a consumed amount, sums
// and conversions of those, and anything not derived from input content.
func (t *taintCtx) boundedExpr(v ssa.Value, d int) bool {
	if d > 6 {
		return false
	}
	if _, ok := v.(*ssa.Const); ok {
		return true
	}
	if boundedSource(v) || !t.tainted[v] {
		return true
	}
	switch x := v.(type) {
	case *ssa.Convert:
		return t.boundedExpr(x.X, d+1)
	case *ssa.BinOp:
		switch x.Op {
		case token.SUB:
			return t.boundedExpr(x.X, d+1)
		case token.ADD:
			return t.boundedExpr(x.X, d+1) && t.boundedExpr(x.Y, d+1)
		case token.QUO, token.SHR:
			return t.boundedExpr(x.X, d+1)
		}
	case *ssa.Call:
		// a helper of the module whose result is such an expression at each of
		// its returns (e.g. remaining() = len(input) - pos)
		if sc := x.Common().StaticCallee(); sc != nil && InModule(sc) && len(sc.Blocks) > 0 && sc.Signature.Results().Len() == 1 {
			n := 0
			for _, b := range sc.Blocks {
				if ret, ok := b.Instrs[len(b.Instrs)-1].(*ssa.Return); ok && len(ret.Results) == 1 {
					n++
					if !t.boundedExprIn(ret.Results[0], d+1) {
						return false
					}
				}
			}
			return n > 0
		}
	}
	return false
}

// boundedExprIn is boundedExpr for a value inside a callee, where taint was
// not computed for this query: only the shape counts (constants, len(), and
// differences, sums, quotients of those).
func (t *taintCtx) boundedExprIn(v ssa.Value, d int) bool {
	if d > 6 {
		return false
	}
	if _, ok := v.(*ssa.Const); ok {
		return true
	}
	if boundedSource(v) {
		return true
	}
	switch x := v.(type) {
	case *ssa.Convert:
		return t.boundedExprIn(x.X, d+1)
	case *ssa.BinOp:
		switch x.Op {
		case token.SUB, token.QUO, token.SHR:
			return t.boundedExprIn(x.X, d+1)
		case token.ADD:
			return t.boundedExprIn(x.X, d+1) && t.boundedExprIn(x.Y, d+1)
		}
	}
	return false
}

func boundedSource(v ssa.Value) bool {
	if c, ok := v.(*ssa.Call); ok {
		if bi, ok := c.Call.Value.(*ssa.Builtin); ok && bi.Name() == "len" {
			return true
		}
	}
	return false
}

// reaches reports whether 'to' is reachable from 'from' without passing through 'avoid'.
func reaches(from, to, avoid *ssa.BasicBlock) bool {
	seen := map[*ssa.BasicBlock]bool{}
	var dfs func(b *ssa.BasicBlock) bool
	dfs = func(b *ssa.BasicBlock) bool {
		if b == to {
			return true
		}
		if seen[b] || b == avoid {
			return false
		}
		seen[b] = true
		for _, s := range b.Succs {
			if dfs(s) {
				return true
			}
		}
		return false
	}
	return dfs(from)
}

func ruleAllocBound(pkg string) func(p *Prog, r *Report) {
	return func(p *Prog, r *Report) {
		const rule = "R6-alloc"
		t := computeTaint(p, pkg)
		nSinks, nTainted := 0, 0
		for _, fn := range p.PkgFuncs(pkg) {
			ord := map[string]int{}
			for _, b := range fn.Blocks {
				for _, instr := range b.Instrs {
					var ops []ssa.Value
					kind := ""
					switch x := instr.(type) {
					case *ssa.MakeSlice:
						ops = []ssa.Value{x.Len, x.Cap}
						kind = "make"
					case *ssa.MakeMap:
						if x.Reserve != nil {
							ops = []ssa.Value{x.Reserve}
							kind = "makemap"
						}
					case *ssa.MakeChan:
						ops = []ssa.Value{x.Size}
						kind = "makechan"
					case *ssa.Call:
						if c := x.Common().StaticCallee(); c != nil && c.Pkg != nil {
							full := c.Pkg.Pkg.Path() + "." + c.Name()
							if full == "strings.Repeat" || full == "bytes.Repeat" {
								ops = []ssa.Value{x.Common().Args[1]}
								kind = full
							}
						}
					}
					if kind == "" {
						continue
					}
					nSinks++
					if sites := staticCallSites(p, fn, pkg); sites > 1 && !exported(fn) {
						r.Credit(rule, sites-1) // an allocation in a shared helper stands for each of the helper's call sites
					}
					k := ord[kind]
					ord[kind]++
					key := fmt.Sprintf("%s:%s:%s#%d", rule, FnName(fn), kind, k)
					verdict, detail := Discharged, "size is not derived from input content"
					for _, op := range ops {
						if op == nil || !t.tainted[op] {
							continue
						}
						nTainted++
						ok, why := t.upperBoundedAt(monotoneChain(op), b, 0)
						if ok {
							detail = "size derives from input content and is bounded: " + why
						} else {
							verdict = Violated
							detail = fmt.Sprintf("the size of this %s is computed from input content (%s) and no comparison bounds it on the way here: a few input bytes can demand an arbitrarily large allocation", kind, op.Name())
						}
					}
					r.Add(Obligation{Rule: rule, Key: key, Pos: p.Pos(instr.Pos()), Status: verdict, Detail: detail, Nontrivial: true})
				}
			}
		}
		r.Note("%s: %d allocation sinks in package %s, %d sized from input content", rule, nSinks, pkg, nTainted)
		if pkg == "hsms" {
			r.Floor(rule, 5)
			// R6b: no quadratic string accumulation in the decoder
			fs := findConcatLoop(p.PkgFuncs(pkg))
			for _, f := range fs {
				r.bad("R6b-concat", "R6b-concat:"+f.key, p.Pos(f.pos), f.what)
			}
			if len(fs) == 0 {
				r.ok("R6b-concat", "R6b-concat:hsms:none", "", "no string is built by repeated concatenation in a loop in package hsms")
			}
			fixtureMustFire(p, r, "R6b-concat", "concatloop", findConcatLoop)
		} else {
			r.Floor(rule, 2)
		}
	}
}

// findConcatLoop: s = s + x where s is loop-carried.
func findConcatLoop(funcs []*ssa.Function) []finding {
	var out []finding
	for _, fn := range funcs {
		k := 0
		for _, b := range fn.Blocks {
			for _, instr := range b.Instrs {
				bo, ok := instr.(*ssa.BinOp)
				if !ok || bo.Op != token.ADD || !isStringType(bo.Type()) {
					continue
				}
				for _, side := range []ssa.Value{bo.X, bo.Y} {
					phi, ok := side.(*ssa.Phi)
					if !ok {
						continue
					}
					for _, e := range phi.Edges {
						if e == ssa.Value(bo) {
							out = append(out, finding{fn, bo.Pos(), "a string is extended by concatenation on every iteration of a loop: each step copies the whole string, so the total allocation is quadratic in the number of iterations",
								fmt.Sprintf("%s#%d", FnName(fn), k)})
							k++
						}
					}
				}
			}
		}
	}
	return out
}

var _ = strings.Contains

// fieldLoads: the reads of field fi of the local struct variable al, provided
// the field is never assigned on its own (only the whole variable is).
func fieldLoads(al *ssa.Alloc, fi int) []ssa.Value {
	var out []ssa.Value
	refs := al.Referrers()
	if refs == nil {
		return nil
	}
	for _, ref := range *refs {
		switch x := ref.(type) {
		case *ssa.FieldAddr:
			if x.Field != fi {
				continue
			}
			if frefs := x.Referrers(); frefs != nil {
				for _, fr := range *frefs {
					switch y := fr.(type) {
					case *ssa.UnOp:
						if y.Op == token.MUL {
							out = append(out, y)
						}
					case *ssa.Store:
						if y.Addr == ssa.Value(x) {
							return nil // assigned on its own: not one value
						}
					}
				}
			}
		case *ssa.UnOp:
			// whole-struct load followed by a Field
			if lrefs := x.Referrers(); lrefs != nil {
				for _, lr := range *lrefs {
					if f, ok := lr.(*ssa.Field); ok && f.Field == fi {
						out = append(out, f)
					}
				}
			}
		}
	}
	return out
}
