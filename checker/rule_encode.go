package main

import (
	"sync"
	"fmt"
	"go/types"
	"math/big"
	"regexp"
	"sort"
	"strings"

	"golang.org/x/tools/go/ssa"
)

var typByte = types.Typ[types.Uint8]

// sliceBytes reads a fully known byte slice out of the interpreter's memory.
func sliceBytes(in *Interp, v Val) ([]byte, bool) {
	if v.K != KSlice || v.Len < 0 {
		return nil, false
	}
	out := make([]byte, v.Len)
	for i := 0; i < v.Len; i++ {
		e := in.Elem(v, i, typByte)
		if e.K != KInt || !e.I.IsInt64() || e.I.Int64() < 0 || e.I.Int64() > 255 {
			return nil, false
		}
		out[i] = byte(e.I.Int64())
	}
	return out, true
}

// ---------------------------------------------------------------------------
// R26 item-header denotation: getHeaderBytes(typ, n) yields the E5 header
// (format byte, minimal big-endian length) or an error beyond 16,777,215
// bytes, for all 14 type names — decided on one representative per cell of n.

func ruleHeaderBytes(p *Prog, r *Report) {
	const rule = "R26-header"
	if p.Func("ast", "getHeaderBytes") == nil {
		// the header routine is not to be found under its name: its results
		// are read off the encoders, for element counts on every cell the
		// encoders can reach (an item beyond the limit cannot be built)
		for _, f := range e5Formats {
			key := fmt.Sprintf("%s:ast.getHeaderBytes:%s", rule, f.Key)
			d, decided, good := headerThroughToBytes(p, f)
			switch {
			case !decided:
				r.unk(rule, key, "", "no function getHeaderBytes, and the header could not be read off "+f.Node+".ToBytes")
			case good:
				r.ok(rule, key, "", d)
			default:
				r.bad(rule, key, "", d)
			}
		}
		return
	}
	fn := p.MustFunc(r, "ast", "getHeaderBytes")
	if fn == nil {
		return
	}
	if len(fn.Params) != 2 || !isStringType(fn.Params[0].Type()) || !isIntType(fn.Params[1].Type()) || fn.Signature.Results().Len() != 2 {
		r.unk(rule, rule+":signature", p.Pos(fn.Pos()), "getHeaderBytes no longer has the shape (typ string, size int) ([]byte, error)")
		return
	}
	codeInts, _ := moduleConsts(fn)
	for _, f := range e5Formats {
		f := f
		key := fmt.Sprintf("%s:ast.getHeaderBytes:%s", rule, f.Key)
		observed := map[string]*big.Int{}
		var mismatch, undec []string
		tuples := 0
		for iter := 0; iter < 3; iter++ {
			cuts := []*big.Int{}
			w := int64(f.Width)
			for _, c := range []int64{0, 255, 256, 65535, 65536, maxItemBytes, maxItemBytes + 1} {
				cuts = append(cuts, big.NewInt(c), big.NewInt(c/w), big.NewInt((c+w-1)/w))
			}
			for _, c := range codeInts {
				cuts = append(cuts, c, new(big.Int).Quo(c, big.NewInt(w)))
			}
			for _, c := range observed {
				cuts = append(cuts, c, new(big.Int).Quo(c, big.NewInt(w)))
			}
			reps := intReps(typInt, cuts, p0Sizes)
			newCut := false
			mismatch, undec = nil, nil
			tuples = 0
			for _, n := range reps {
				if n.Sign() < 0 || n.Cmp(big.NewInt(1<<40)) > 0 {
					continue // a size is a len(): never negative; beyond 2^40 nothing new
				}
				tuples++
				in := NewInterp(p)
				in.CutSink = func(c *big.Int) {
					if _, ok := observed[c.String()]; !ok && c.IsInt64() {
						observed[c.String()] = c
						newCut = true
					}
				}
				out := in.Run(fn, []Val{strVal(f.Key), {K: KInt, I: n, Dep: true}}, nil)
				want, wantOK := e5Header(f.Code, n.Int64()*w)
				rets := out.Frame.ReturnVals()
				if len(in.Stuck) > 0 || len(rets) != 1 || out.CanPanic {
					undec = append(undec, fmt.Sprintf("n=%s: %d returns reachable, panic=%v, stuck=%v", n, len(rets), out.CanPanic, in.Stuck))
					continue
				}
				errv := rets[0][1]
				if !wantOK {
					if errv.K == KNil {
						mismatch = append(mismatch, fmt.Sprintf("n=%s (%d bytes): no error although the item exceeds 16,777,215 bytes", n, n.Int64()*w))
					}
					continue
				}
				if errv.K != KNil {
					mismatch = append(mismatch, fmt.Sprintf("n=%s (%d bytes): an error is returned for a legal size", n, n.Int64()*w))
					continue
				}
				got, ok := sliceBytes(in, rets[0][0])
				if !ok {
					undec = append(undec, fmt.Sprintf("n=%s: result bytes not determined (%s)", n, rets[0][0]))
					continue
				}
				if string(got) != string(want) {
					mismatch = append(mismatch, fmt.Sprintf("n=%s: header % X, E5 requires % X", n, got, want))
				}
			}
			if !newCut {
				break
			}
		}
		pos := p.Pos(fn.Pos())
		switch {
		case len(mismatch) > 0:
			r.bad(rule, key, pos, strings.Join(firstN(mismatch, 4), "; "))
		case len(undec) > 0:
			r.unk(rule, key, pos, strings.Join(firstN(undec, 3), "; "))
		default:
			r.ok(rule, key, pos, fmt.Sprintf("format byte %#o<<2|#len and minimal big-endian length agree with E5 on %d representative sizes (cells cut at 255|256, 65535|65536, 16777215|16777216 bytes and at every constant the code compares with)", f.Code, tuples))
		}
	}
	r.Floor(rule, 14)
}

var p0Sizes = types.SizesFor("gc", "amd64")

// nodeEnv binds a node receiver so that it has no variables and the given
// number of values.
func nodeEnv(in *Interp, f itemFormat, nvalues int64, nvars int64) {
	in.PathBind["len(p0.variables)"] = int64Val(nvars)
	if f.ByteSz != 0 {
		in.PathBind["p0.byteSize"] = int64Val(int64(f.ByteSz))
	}
	if f.Node == "ASCIINode" {
		in.PathBind["p0.isValue"] = boolVal(nvars == 0)
		if nvalues == 0 {
			in.PathBind["p0.value"] = strVal("")
		}
	} else {
		in.PathBind["p0.values"] = Val{K: KSlice, S: "p0.values", Len: int(nvalues)}
	}
}

// R1-encode: every node's ToBytes asks for the header of its own E5 format,
// with its element count, and an empty node encodes to exactly that header.
func ruleEncodeTables(p *Prog, r *Report) {
	const rule = "R1-encode"
	hb := p.Func("ast", "getHeaderBytes")
	for _, f := range e5Formats {
		fn := p.MustFunc(r, "ast", "(*"+f.Node+").ToBytes")
		if fn == nil {
			continue
		}
		key := fmt.Sprintf("%s:ast.(*%s).ToBytes:%s", rule, f.Node, f.Key)
		pos := p.Pos(fn.Pos())
		// (a) empty node -> exactly the E5 header of an empty item
		in := NewInterp(p)
		nodeEnv(in, f, 0, 0)
		out := in.Run(fn, defaultArgs(fn), nil)
		rets := out.Frame.ReturnVals()
		want, _ := e5Header(f.Code, 0)
		if len(rets) != 1 || len(in.Stuck) > 0 {
			r.unk(rule, key+":empty", pos, fmt.Sprintf("encoding of an empty %s is not determined (%d returns reachable)", f.SML, len(rets)))
		} else if got, ok := sliceBytes(in, rets[0][0]); !ok {
			r.unk(rule, key+":empty", pos, "bytes of an empty item not determined: "+rets[0][0].String())
		} else if string(got) != string(want) {
			r.bad(rule, key+":empty", pos, fmt.Sprintf("an empty %s item encodes to % X, E5 requires % X (format code %#o)", f.SML, got, want, f.Code))
		} else {
			r.ok(rule, key+":empty", pos, fmt.Sprintf("an empty %s item encodes to % X", f.SML, got))
		}
		// (b) the header is requested for the element count
		if hb == nil {
			if d, decided, good := headerThroughToBytes(p, f); decided {
				if good {
					r.ok(rule, key+":call", pos, d)
				} else {
					r.bad(rule, key+":call", pos, d)
				}
				continue
			}
		}
		in2 := NewInterp(p)
		in2.Symbolic = true
		nodeEnv(in2, f, -1, 0)
		delete(in2.PathBind, "p0.value")
		out2 := in2.Run(fn, defaultArgs(fn), nil)
		found := false
		for _, b := range fn.Blocks {
			for _, instr := range b.Instrs {
				c, ok := instr.(*ssa.Call)
				if !ok || hb == nil || c.Common().StaticCallee() != hb || !out2.Frame.Reached(c) {
					continue
				}
				found = true
				typ := out2.Frame.ValueOf(c.Common().Args[0])
				size := out2.Frame.ValueOf(c.Common().Args[1])
				wantSize := "len(p0.values)"
				if f.Node == "ASCIINode" {
					wantSize = "len(p0.value)"
				}
				st, _ := termOf(size)
				if typ.K != KStr || typ.S != f.Key {
					r.bad(rule, key+":typ", p.Pos(c.Pos()), fmt.Sprintf("%s asks for the header of type %s, its E5 format is %q", FnName(fn), typ, f.Key))
				} else if st != wantSize {
					r.bad(rule, key+":size", p.Pos(c.Pos()), fmt.Sprintf("%s asks for a header of size %s instead of its element count %s", FnName(fn), size, wantSize))
				} else {
					r.ok(rule, key+":call", p.Pos(c.Pos()), fmt.Sprintf("header requested as getHeaderBytes(%q, %s)", f.Key, wantSize))
				}
			}
		}
		if !found {
			// the header is requested by a helper: read it off the encoding itself
			if d, decided, good := headerThroughToBytes(p, f); decided {
				if good {
					r.ok(rule, key+":call", pos, d)
				} else {
					r.bad(rule, key+":call", pos, d)
				}
				continue
			}
			r.unk(rule, key+":call", pos, "no reachable call of getHeaderBytes in "+FnName(fn)+", and the header could not be read off the encoding by evaluation")
		}
	}
	r.Floor(rule, 28)
}

// ---------------------------------------------------------------------------
// R15 tobytes-guard — incomplete things encode to nothing.

func allReturnsEmpty(out Outcome) (bool, string) {
	rets := out.Frame.ReturnVals()
	if len(rets) == 0 {
		return false, "no return reachable"
	}
	for _, rv := range rets {
		if len(rv) != 1 || rv[0].K != KSlice || rv[0].Len != 0 {
			return false, "a reachable return yields " + rv[0].String()
		}
	}
	return true, ""
}

func someReturnNonEmpty(out Outcome) bool {
	for _, rv := range out.Frame.ReturnVals() {
		if len(rv) == 1 && !(rv[0].K == KSlice && rv[0].Len == 0) {
			return true
		}
	}
	return false
}

func isInvokeOf(v ssa.Value, method string) bool {
	c, ok := v.(*ssa.Call)
	return ok && c.Common().IsInvoke() && c.Common().Method.Name() == method
}

func ruleToBytesGuard(p *Prog, r *Report) {
	const rule = "R15-tobytes"
	seenNode := map[string]bool{}
	for _, f := range e5Formats {
		if seenNode[f.Node] {
			continue
		}
		seenNode[f.Node] = true
		fn := p.MustFunc(r, "ast", "(*"+f.Node+").ToBytes")
		if fn == nil {
			continue
		}
		key := fmt.Sprintf("%s:ast.(*%s).ToBytes", rule, f.Node)
		pos := p.Pos(fn.Pos())
		bad := ""
		for _, nv := range []int64{1, 2, 1000} {
			in := NewInterp(p)
			nodeEnv(in, f, -1, nv)
			delete(in.PathBind, "p0.value")
			out := in.Run(fn, defaultArgs(fn), nil)
			if ok, why := allReturnsEmpty(out); !ok {
				bad = fmt.Sprintf("with %d unfilled variable(s): %s", nv, why)
			}
		}
		in := NewInterp(p)
		nodeEnv(in, f, -1, 0)
		delete(in.PathBind, "p0.value")
		out := in.Run(fn, defaultArgs(fn), nil)
		if bad != "" {
			r.bad(rule, key+":variables", pos, FnName(fn)+" can return bytes for a node that still has variables — "+bad)
		} else if !someReturnNonEmpty(out) {
			r.bad(rule, key+":variables", pos, FnName(fn)+" never returns bytes, even for a node without variables")
		} else {
			r.ok(rule, key+":variables", pos, "returns the empty slice whenever the node reports variables, and bytes otherwise")
		}
		if f.Node == "ListNode" {
			// a child that encodes to nothing makes the list encode to nothing
			in := NewInterp(p)
			nodeEnv(in, f, -1, 0)
			in.Bind = func(v ssa.Value, fr *frame) (Val, bool) {
				if isInvokeOf(v, "ToBytes") {
					return Val{K: KSlice, S: "child", Len: 0}, true
				}
				return Val{}, false
			}
			// with exactly one child, and that child encoding to nothing, the
			// loop body is entered and every reachable return must be empty
			in2 := NewInterp(p)
			nodeEnv(in2, f, 1, 0)
			in2.Bind = in.Bind
			out2 := in2.Run(fn, defaultArgs(fn), nil)
			if ok, why := allReturnsEmpty(out2); ok {
				r.ok(rule, key+":child-empty", pos, "a child encoding to nothing makes the list return the empty slice")
			} else {
				r.bad(rule, key+":child-empty", pos, "a list whose child encodes to nothing (an incomplete child) still returns bytes: "+why)
			}
		}
	}
	// DataMessage: three conjuncts
	fn := p.MustFunc(r, "ast", "(*DataMessage).ToBytes")
	if fn == nil {
		return
	}
	pos := p.Pos(fn.Pos())
	type cfg struct {
		name           string
		wait, nvar, id int64
		empty          bool
	}
	cfgs := []cfg{
		{"optional wait bit", 2, 0, 7, true},
		{"unfilled variables", 1, 1, 7, true},
		{"unfilled variables (wait bit 0)", 0, 3, 0, true},
		{"no session id", 0, 0, -1, true},
		{"no session id (W)", 1, 0, -1, true},
		{"complete (W=0)", 0, 0, 0, false},
		{"complete (W=1)", 1, 0, 65535, false},
	}
	for _, c := range cfgs {
		c := c
		in := NewInterp(p)
		in.PathBind["p0.waitBit"] = int64Val(c.wait)
		in.PathBind["p0.sessionID"] = int64Val(c.id)
		in.Bind = func(v ssa.Value, fr *frame) (Val, bool) {
			if isInvokeOf(v, "Variables") {
				return Val{K: KSlice, S: "vars", Len: int(c.nvar)}, true
			}
			return Val{}, false
		}
		out := in.Run(fn, defaultArgs(fn), nil)
		key := rule + ":ast.(*DataMessage).ToBytes:" + c.name
		if c.empty {
			if ok, why := allReturnsEmpty(out); ok {
				r.ok(rule, key, pos, "an incomplete message ("+c.name+") encodes to the empty slice")
			} else {
				r.bad(rule, key, pos, "a message that is not complete ("+c.name+") can encode to bytes: "+why)
			}
		} else {
			if someReturnNonEmpty(out) && !func() bool { ok, _ := allReturnsEmpty(out); return ok }() {
				r.ok(rule, key, pos, "a complete message encodes to bytes")
			} else {
				r.bad(rule, key, pos, "a complete message ("+c.name+") encodes to nothing")
			}
		}
	}
	r.Floor(rule, 15)
}

// inLoop reports whether b lies on a CFG cycle.
func inLoop(b *ssa.BasicBlock) bool {
	seen := map[*ssa.BasicBlock]bool{}
	var dfs func(x *ssa.BasicBlock) bool
	dfs = func(x *ssa.BasicBlock) bool {
		for _, s := range x.Succs {
			if s == b {
				return true
			}
			if !seen[s] {
				seen[s] = true
				if dfs(s) {
					return true
				}
			}
		}
		return false
	}
	return dfs(b)
}

var _ = regexp.MustCompile
var _ = sort.Strings

var headerViaMemo sync.Map // *Prog + format key -> [3]interface{}

// headerThroughToBytes: the node's encoder evaluated for element counts on
// both sides of every length-field boundary (byte lengths 255|256 and
// 65 535|65 536) and a few small ones, the elements unknown: the result must
// start with the E5 header of the format for count x width bytes, and its
// length, where known, must be header + payload.
func headerThroughToBytes(p *Prog, f itemFormat) (detail string, decided, good bool) {
	type memoKey struct {
		p *Prog
		k string
	}
	if v, ok := headerViaMemo.Load(memoKey{p, f.Key}); ok {
		m := v.([3]interface{})
		return m[0].(string), m[1].(bool), m[2].(bool)
	}
	defer func() { headerViaMemo.Store(memoKey{p, f.Key}, [3]interface{}{detail, decided, good}) }()
	fn := p.Func("ast", "(*"+f.Node+").ToBytes")
	if fn == nil {
		return "", false, false
	}
	w := int64(f.Width)
	seen := map[int64]bool{}
	var ns []int64
	add := func(n int64) {
		if n >= 0 && !seen[n] {
			seen[n] = true
			ns = append(ns, n)
		}
	}
	for _, n := range []int64{0, 1, 2, 3} {
		add(n)
	}
	for _, c := range []int64{255, 256, 65535, 65536} {
		add(c / w)
		add((c + w - 1) / w)
		add(c/w + 1)
	}
	add(70000 / w)
	var bad []string
	for _, n := range ns {
		in := NewInterp(p)
		nodeEnv(in, f, n, 0)
		in.MapKeys["p0.variables"] = nil
		if f.Node == "ASCIINode" {
			in.PathBind["p0.value"] = strVal(strings.Repeat("x", int(n)))
		}
		out := in.Run(fn, defaultArgs(fn), nil)
		if out.Frame == nil || len(in.Stuck) > 0 {
			return "", false, false
		}
		want, ok := e5Header(f.Code, n*w)
		if !ok {
			continue
		}
		nFull := 0
		for _, rv := range out.Frame.ReturnVals() {
			if len(rv) != 1 || rv[0].K != KSlice {
				return "", false, false
			}
			if rv[0].Len == 0 && n > 0 && f.Node == "ListNode" {
				continue // a child that does not encode: the list does not either
			}
			nFull++
			var got []byte
			for i := range want {
				v, ok := in.HeapAt(fmt.Sprintf("%s[%d]", rv[0].S, rv[0].Off+i))
				if !ok || v.K != KInt || !v.I.IsInt64() {
					return "", false, false
				}
				got = append(got, byte(v.I.Int64()))
			}
			if string(got) != string(want) {
				bad = append(bad, fmt.Sprintf("%d elements: the encoding starts with % X, E5 requires the header % X", n, got, want))
			} else if f.Node != "ListNode" && rv[0].Len >= 0 && int64(rv[0].Len) != int64(len(want))+n*w {
				bad = append(bad, fmt.Sprintf("%d elements: the encoding has %d bytes, header and payload make %d", n, rv[0].Len, int64(len(want))+n*w))
			}
		}
		if nFull == 0 {
			return "", false, false
		}
	}
	if len(bad) > 0 {
		return strings.Join(firstN(bad, 3), "; "), true, false
	}
	return fmt.Sprintf("the encoder evaluated for %d element counts (0-3, and both sides of the byte lengths 255|256 and 65 535|65 536) with unknown elements: the result starts with the E5 header of %s for count x %d bytes", len(ns), f.SML, w), true, true
}
