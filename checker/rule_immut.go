package main

import (
	"fmt"
	"go/token"
	"go/types"
	"sort"
	"strings"

	"golang.org/x/tools/go/ssa"
)

// R12 immut — nothing writes an existing object; nothing leaks a handle.
//
// A type-directed effect analysis over the SSA of all three packages.
//   I1  a field of an immutable struct is stored only while the object is a
//       fresh allocation of the storing function;
//   I2  a slice or map loaded from a field of an immutable object ("interior")
//       is never written through, never handed to something that may write
//       it, never returned by an exported function and never stored anywhere
//       but into a field of a fresh immutable object;
//   I3  a slice or map parameter of an exported function ("caller-owned") is
//       treated the same way, and additionally never stored into an immutable
//       object;
//   I5  no package-level variables, no goroutines, no sync/unsafe/reflect;
//       the mutable helper structs are unexported and never reachable from an
//       immutable object or an exported result.
// Labels are propagated through slices, phis, interfaces, calls (arguments to
// parameters, results back), closures and fields of the mutable helper
// structs until nothing changes.

type label int

const (
	lblNone     label = 0
	lblInterior label = 1
	lblCaller   label = 2
	lblShared   label = 3
)

func (l label) String() string {
	switch l {
	case lblInterior:
		return "a slice/map that belongs to an existing item or message"
	case lblCaller:
		return "a slice/map owned by the caller"
	case lblShared:
		return "package-level storage shared by all calls"
	}
	return ""
}

type immut struct {
	p         *Prog
	r         *Report
	immutable map[*types.Named]bool
	mutable   map[*types.Named]bool
	lbl       map[ssa.Value]label
	fieldLbl  map[*types.Var]label // fields of mutable structs
	holds     map[ssa.Value]label  // fresh slices whose elements are labelled values
	origin    map[ssa.Value]string
	nObl      map[string]int
}

func isRefType(t types.Type) bool {
	switch t.Underlying().(type) {
	case *types.Slice, *types.Map:
		return true
	}
	return false
}

func namedStruct(t types.Type) *types.Named {
	if p, ok := t.Underlying().(*types.Pointer); ok {
		t = p.Elem()
	}
	n, ok := t.(*types.Named)
	if !ok {
		return nil
	}
	if _, ok := n.Underlying().(*types.Struct); !ok {
		return nil
	}
	return n
}

// rootAlloc follows FieldAddr chains (embedded structs) to the base pointer.
func rootOf(v ssa.Value) ssa.Value {
	for {
		fa, ok := v.(*ssa.FieldAddr)
		if !ok {
			return v
		}
		v = fa.X
	}
}

func isFreshAlloc(v ssa.Value, fn *ssa.Function) bool {
	if al, ok := v.(*ssa.Alloc); ok {
		return al.Parent() == fn
	}
	// the result of a helper that hands out an object it has just allocated
	// and kept no other reference to is as fresh as an allocation made here
	if c, ok := v.(*ssa.Call); ok && c.Parent() == fn {
		if g := c.Common().StaticCallee(); g != nil && InModule(g) && returnsFresh(g, 0) {
			return true
		}
	}
	return false
}

// returnsFresh reports whether every return of g yields (as its only result)
// an object allocated in g - or handed out fresh by another such helper - to
// which g keeps no other reference: the allocation is only written through,
// read and returned.
func returnsFresh(g *ssa.Function, depth int) bool {
	if g.Blocks == nil || depth > 2 || g.Signature.Results().Len() != 1 {
		return false
	}
	found := false
	for _, b := range g.Blocks {
		for _, instr := range b.Instrs {
			ret, ok := instr.(*ssa.Return)
			if !ok {
				continue
			}
			found = true
			switch x := ret.Results[0].(type) {
			case *ssa.Alloc:
				if x.Parent() != g || !onlyLocalUse(x) {
					return false
				}
			case *ssa.Call:
				h := x.Common().StaticCallee()
				if h == nil || !InModule(h) || !returnsFresh(h, depth+1) || !onlyLocalUse(x) {
					return false
				}
			default:
				return false
			}
		}
	}
	return found
}

// onlyLocalUse: the pointer is used to address fields, as the target of a
// store, for loads, and as a returned value - never stored anywhere, passed
// on or merged with another pointer.
func onlyLocalUse(v ssa.Value) bool {
	refs := v.Referrers()
	if refs == nil {
		return true
	}
	for _, ref := range *refs {
		switch x := ref.(type) {
		case *ssa.DebugRef, *ssa.Return, *ssa.UnOp:
		case *ssa.FieldAddr:
			if x.X != v {
				return false
			}
		case *ssa.Store:
			if x.Addr != v || x.Val == v {
				return false
			}
		default:
			return false
		}
	}
	return true
}

var readOnlyPkgs = map[string]bool{"fmt": true, "strings": true, "strconv": true, "unicode": true, "unicode/utf8": true,
	"math": true, "regexp": true, "errors": true, "regexp/syntax": true}

func (im *immut) setLabel(v ssa.Value, l label, why string) bool {
	if v == nil || l == lblNone {
		return false
	}
	if !isRefType(v.Type()) && !types.IsInterface(v.Type()) {
		if _, isPtr := v.Type().Underlying().(*types.Pointer); !isPtr {
			return false
		}
	}
	if im.lbl[v] != lblNone {
		return false
	}
	im.lbl[v] = l
	im.origin[v] = why
	return true
}

func exported(fn *ssa.Function) bool {
	if fn.Parent() != nil || fn.Synthetic != "" {
		return false
	}
	if !token.IsExported(fn.Name()) {
		return false
	}
	if recv := fn.Signature.Recv(); recv != nil {
		n := namedStruct(recv.Type())
		if n == nil {
			if nn, ok := recv.Type().(*types.Named); ok {
				return token.IsExported(nn.Obj().Name()) || true
			}
			return true
		}
		// methods of unexported types are still reachable through interfaces (ItemNode)
		return true
	}
	return true
}

func ruleImmut(p *Prog, r *Report) {
	const rule = "R12-immut"
	im := &immut{p: p, r: r, immutable: map[*types.Named]bool{}, mutable: map[*types.Named]bool{},
		lbl: map[ssa.Value]label{}, fieldLbl: map[*types.Var]label{}, holds: map[ssa.Value]label{}, origin: map[ssa.Value]string{}, nObl: map[string]int{}}

	// classify the module's struct types: a struct is a mutable helper when a
	// field of it is stored outside a fresh allocation of the storing function
	all := map[*types.Named]bool{}
	for _, pk := range p.Pkgs {
		sc := pk.Types.Scope()
		for _, name := range sc.Names() {
			if tn, ok := sc.Lookup(name).(*types.TypeName); ok {
				if n, ok := tn.Type().(*types.Named); ok {
					if _, ok := n.Underlying().(*types.Struct); ok {
						all[n] = true
					}
				}
			}
		}
	}
	type viol struct{ key, pos, msg string }
	var i1 []viol
	nStores := 0
	for _, fn := range p.Funcs {
		for _, b := range fn.Blocks {
			for _, instr := range b.Instrs {
				st, ok := instr.(*ssa.Store)
				if !ok {
					continue
				}
				fa, ok := st.Addr.(*ssa.FieldAddr)
				if !ok {
					continue
				}
				n := namedStruct(rootOf(fa).Type())
				if n == nil || !all[n] {
					continue
				}
				nStores++
				if !isFreshAlloc(rootOf(fa), fn) {
					im.mutable[n] = true
				}
			}
		}
	}
	// The value types of the public API must be immutable: everything in
	// package ast that implements ItemNode or HSMSMessage, their embedded
	// structs, and the message types. Helper structs may be mutable only if
	// unexported.
	astPkg := p.Pkgs["ast"].Types
	var ifaces []*types.Interface
	for _, in := range []string{"ItemNode", "HSMSMessage"} {
		if o := astPkg.Scope().Lookup(in); o != nil {
			if it, ok := o.Type().Underlying().(*types.Interface); ok {
				ifaces = append(ifaces, it)
			}
		}
	}
	if len(ifaces) != 2 {
		r.unk(rule, "anchor:ast.ItemNode/HSMSMessage", "", "interfaces not found")
		return
	}
	var valueTypes []*types.Named
	for n := range all {
		if n.Obj().Pkg() != astPkg {
			continue
		}
		impl := false
		for _, it := range ifaces {
			if types.Implements(n, it) || types.Implements(types.NewPointer(n), it) {
				impl = true
			}
		}
		if impl {
			valueTypes = append(valueTypes, n)
		}
	}
	// embedded-by-value structs of value types
	for changed := true; changed; {
		changed = false
		for _, n := range valueTypes {
			st := n.Underlying().(*types.Struct)
			for i := 0; i < st.NumFields(); i++ {
				if fn, ok := st.Field(i).Type().(*types.Named); ok && all[fn] {
					found := false
					for _, v := range valueTypes {
						if v == fn {
							found = true
						}
					}
					if !found {
						valueTypes = append(valueTypes, fn)
						changed = true
					}
				}
			}
		}
	}
	sort.Slice(valueTypes, func(i, j int) bool { return valueTypes[i].Obj().Name() < valueTypes[j].Obj().Name() })
	for _, n := range valueTypes {
		im.immutable[n] = true
	}
	r.Note("%s: value types %d (%s); mutable helper structs: %s", rule, len(valueTypes), typeNames(valueTypes), typeNames(keysOf(im.mutable)))

	// I1: field stores of value types only on fresh allocations
	for _, fn := range p.Funcs {
		ord := 0
		for _, b := range fn.Blocks {
			for _, instr := range b.Instrs {
				st, ok := instr.(*ssa.Store)
				if !ok {
					continue
				}
				fa, ok := st.Addr.(*ssa.FieldAddr)
				if !ok {
					continue
				}
				n := namedStruct(rootOf(fa).Type())
				if n == nil || !im.immutable[n] {
					continue
				}
				if !isFreshAlloc(rootOf(fa), fn) {
					ord++
					fld := fieldOf(fa)
					i1 = append(i1, viol{fmt.Sprintf("%s:I1:%s:%s.%s#%d", rule, FnName(fn), n.Obj().Name(), fld.Name(), ord), p.Pos(st.Pos()),
						fmt.Sprintf("%s stores to field %s of a %s that already exists (not allocated in this function): items and messages must never change after construction", FnName(fn), fld.Name(), n.Obj().Name())})
				}
			}
		}
	}
	for _, v := range i1 {
		r.bad(rule, v.key, v.pos, v.msg)
	}
	for _, n := range valueTypes {
		bad := false
		for _, v := range i1 {
			if strings.Contains(v.key, ":"+n.Obj().Name()+".") {
				bad = true
			}
		}
		if !bad {
			r.ok(rule, fmt.Sprintf("%s:I1:type:%s", rule, n.Obj().Name()), "", "every store to a field of this type is into an object the storing function has just allocated")
		}
	}

	// seeds
	for _, fn := range p.Funcs {
		if exported(fn) {
			for i, prm := range fn.Params {
				if fn.Signature.Recv() != nil && i == 0 {
					continue
				}
				if isRefType(prm.Type()) {
					im.setLabel(prm, lblCaller, fmt.Sprintf("parameter %s of %s", prm.Name(), FnName(fn)))
				}
			}
		}
		for _, b := range fn.Blocks {
			for _, instr := range b.Instrs {
				switch x := instr.(type) {
				case *ssa.UnOp:
					if x.Op != token.MUL || !isRefType(x.Type()) {
						continue
					}
					if g, ok := x.X.(*ssa.Global); ok && g.Pkg != nil && InModule(fn) && strings.HasPrefix(g.Pkg.Pkg.Path(), modPath) {
						im.setLabel(x, lblShared, "package-level variable "+g.Name())
					}
					if fa, ok := x.X.(*ssa.FieldAddr); ok {
						if n := namedStruct(fa.X.Type()); n != nil && im.immutable[n] && !isFreshAlloc(rootOf(fa), fn) {
							im.setLabel(x, lblInterior, fmt.Sprintf("field %s of a %s", fieldOf(fa).Name(), n.Obj().Name()))
						}
					}
				case *ssa.Field:
					if isRefType(x.Type()) {
						if n := namedStruct(x.X.Type()); n != nil && im.immutable[n] {
							im.setLabel(x, lblInterior, fmt.Sprintf("field %s of a %s", fieldOf(x).Name(), n.Obj().Name()))
						}
					}
				}
			}
		}
	}
	// propagate
	for changed := true; changed; {
		changed = false
		for _, fn := range p.Funcs {
			for _, b := range fn.Blocks {
				for _, instr := range b.Instrs {
					if im.flowHolds(instr) {
						changed = true
					}
					switch x := instr.(type) {
					case *ssa.Slice:
						if l := im.lbl[x.X]; l != lblNone && isRefType(x.Type()) && im.setLabel(x, l, im.origin[x.X]) {
							changed = true
						}
					case *ssa.Phi:
						for _, e := range x.Edges {
							if l := im.lbl[e]; l != lblNone && im.setLabel(x, l, im.origin[e]) {
								changed = true
							}
						}
					case *ssa.ChangeType:
						if l := im.lbl[x.X]; l != lblNone && im.setLabel(x, l, im.origin[x.X]) {
							changed = true
						}
					case *ssa.MakeInterface:
						if l := im.lbl[x.X]; l != lblNone && im.setLabel(x, l, im.origin[x.X]) {
							changed = true
						}
					case *ssa.TypeAssert:
						if l := im.lbl[x.X]; l != lblNone && isRefType(x.AssertedType) && im.setLabel(x, l, im.origin[x.X]) {
							changed = true
						}
					case *ssa.UnOp:
						if x.Op == token.MUL {
							// an element read out of a holder of labelled values
							if ia, ok := x.X.(*ssa.IndexAddr); ok {
								if l := im.holds[ia.X]; l != lblNone && im.setLabel(x, l, im.origin[ia.X]) {
									changed = true
								}
							}
							if al, ok := x.X.(*ssa.Alloc); ok {
								if l := im.holds[al]; l != lblNone && im.holds[x] == lblNone {
									im.holds[x] = l
									im.origin[x] = im.origin[al]
									changed = true
								}
							}
							// load from a labelled local cell or a labelled field of a mutable struct
							if al, ok := x.X.(*ssa.Alloc); ok {
								if l := im.lbl[al]; l != lblNone && im.setLabel(x, l, im.origin[al]) {
									changed = true
								}
							}
							if fa, ok := x.X.(*ssa.FieldAddr); ok {
								if f := fieldOf(fa); f != nil {
									if l := im.fieldLbl[f]; l != lblNone && im.setLabel(x, l, "field "+f.Name()+" of a per-call helper struct holding it") {
										changed = true
									}
								}
							}
						}
					case *ssa.Store:
						l := im.lbl[x.Val]
						if l == lblNone {
							l = im.holds[x.Val]
						}
						if ia, ok := x.Addr.(*ssa.IndexAddr); ok && l != lblNone && im.freshContainer(ia.X) && im.holds[ia.X] == lblNone {
							// a new slice filled with labelled values: followed as a holder of them
							im.holds[ia.X] = l
							im.origin[ia.X] = im.origin[x.Val]
							changed = true
						}
						if al, ok := x.Addr.(*ssa.Alloc); ok && im.holds[x.Val] != lblNone && im.holds[al] == lblNone {
							im.holds[al] = im.holds[x.Val]
							im.origin[al] = im.origin[x.Val]
							changed = true
						}
						l = im.lbl[x.Val]
						if l == lblNone {
							continue
						}
						switch a := x.Addr.(type) {
						case *ssa.Alloc:
							if im.lbl[a] == lblNone {
								im.lbl[a] = l
								im.origin[a] = im.origin[x.Val]
								changed = true
							}
						case *ssa.FieldAddr:
							n := namedStruct(rootOf(a).Type())
							if n != nil && !im.immutable[n] {
								if f := fieldOf(a); f != nil && im.fieldLbl[f] == lblNone {
									im.fieldLbl[f] = l
									changed = true
								}
							}
						}
					case *ssa.MakeClosure:
						cl := x.Fn.(*ssa.Function)
						for i, bnd := range x.Bindings {
							if l := im.lbl[bnd]; l != lblNone && i < len(cl.FreeVars) {
								if im.lbl[cl.FreeVars[i]] == lblNone {
									im.lbl[cl.FreeVars[i]] = l
									im.origin[cl.FreeVars[i]] = im.origin[bnd]
									changed = true
								}
							}
						}
					case *ssa.Call:
						for _, callee := range p.Callees(x) {
							if !InModule(callee) || callee.Blocks == nil {
								continue
							}
							args := x.Common().Args
							off := 0
							if x.Common().IsInvoke() {
								off = 1
							}
							for i, a := range args {
								if l := im.lbl[a]; l != lblNone && i+off < len(callee.Params) {
									if im.setLabel(callee.Params[i+off], l, im.origin[a]) {
										changed = true
									}
								}
							}
							for _, cb := range callee.Blocks {
								if ret, ok := cb.Instrs[len(cb.Instrs)-1].(*ssa.Return); ok {
									for ri, rv := range ret.Results {
										if l := im.lbl[rv]; l != lblNone {
											if len(ret.Results) == 1 {
												if im.setLabel(x, l, im.origin[rv]) {
													changed = true
												}
											} else if refs := x.Referrers(); refs != nil {
												for _, ref := range *refs {
													if ex, ok := ref.(*ssa.Extract); ok && ex.Index == ri && im.setLabel(ex, l, im.origin[rv]) {
														changed = true
													}
												}
											}
										}
									}
								}
							}
						}
					}
				}
			}
		}
	}
	// uses
	nLabelled := 0
	type site struct{ key, pos, msg string }
	var bads []site
	addBad := func(fn *ssa.Function, kind string, pos token.Pos, v ssa.Value, msg string) {
		im.nObl[FnName(fn)+kind]++
		bads = append(bads, site{fmt.Sprintf("%s:I2:%s:%s#%d", rule, FnName(fn), kind, im.nObl[FnName(fn)+kind]), p.Pos(pos),
			fmt.Sprintf("%s: %s (%s — %s)", FnName(fn), msg, im.lbl[v], im.origin[v])})
	}
	addBadH := func(fn *ssa.Function, kind string, pos token.Pos, v ssa.Value, msg string) {
		im.nObl[FnName(fn)+kind]++
		bads = append(bads, site{fmt.Sprintf("%s:I2:%s:%s#%d", rule, FnName(fn), kind, im.nObl[FnName(fn)+kind]), p.Pos(pos),
			fmt.Sprintf("%s: %s %s (%s)", FnName(fn), msg, im.holds[v], im.origin[v])})
	}
	for _, fn := range p.Funcs {
		for _, b := range fn.Blocks {
			for _, instr := range b.Instrs {
				switch x := instr.(type) {
				case *ssa.Store:
					if ia, ok := x.Addr.(*ssa.IndexAddr); ok && im.lbl[ia.X] != lblNone {
						addBad(fn, "elem-store", x.Pos(), ia.X, "writes an element of")
					}
					if l := im.holds[x.Val]; l != lblNone {
						switch a := x.Addr.(type) {
						case *ssa.Alloc:
						case *ssa.IndexAddr:
							if !im.freshContainer(a.X) {
								addBadH(fn, "store-into-slice", x.Pos(), x.Val, "stores a new slice holding it as an element of another slice")
							}
						default:
							addBadH(fn, "capture", x.Pos(), x.Val, "stores a new slice holding it into a field or variable")
						}
					}
					if l := im.lbl[x.Val]; l != lblNone {
						switch a := x.Addr.(type) {
						case *ssa.Alloc:
						case *ssa.FieldAddr:
							n := namedStruct(rootOf(a).Type())
							if n != nil && im.immutable[n] {
								if !isFreshAlloc(rootOf(a), fn) {
									// already reported by I1
								} else if l == lblCaller {
									addBad(fn, "capture", x.Pos(), x.Val, fmt.Sprintf("stores it into field %s of a new %s without copying", fieldOf(a).Name(), n.Obj().Name()))
								}
							}
						case *ssa.Global:
							addBad(fn, "global-store", x.Pos(), x.Val, "stores it into a package-level variable")
						case *ssa.IndexAddr:
							if im.freshContainer(a.X) {
								break // the new slice is followed as a holder of it
							}
							addBad(fn, "store-into-slice", x.Pos(), x.Val, "stores it as an element of another slice")
						default:
							addBad(fn, "store", x.Pos(), x.Val, "stores it through a pointer of unknown provenance")
						}
					}
				case *ssa.MapUpdate:
					if im.lbl[x.Map] != lblNone {
						addBad(fn, "map-update", x.Pos(), x.Map, "writes an entry of")
					}
				case *ssa.Return:
					if exported(fn) {
						for _, rv := range x.Results {
							if im.lbl[rv] != lblNone && isRefType(rv.Type()) {
								addBad(fn, "return", x.Pos(), rv, "returns, from an exported function,")
							}
							if im.holds[rv] != lblNone {
								addBadH(fn, "return", x.Pos(), rv, "returns, from an exported function, a new slice holding")
							}
						}
					}
				case *ssa.Call:
					com := x.Common()
					if bi, ok := com.Value.(*ssa.Builtin); ok {
						switch bi.Name() {
						case "append":
							if im.lbl[com.Args[0]] != lblNone {
								addBad(fn, "append", x.Pos(), com.Args[0], "appends to (which may write into its spare capacity)")
							}
						case "copy":
							if im.lbl[com.Args[0]] != lblNone {
								addBad(fn, "copy-into", x.Pos(), com.Args[0], "copies into")
							}
						case "delete", "clear":
							if im.lbl[com.Args[0]] != lblNone {
								addBad(fn, bi.Name(), x.Pos(), com.Args[0], bi.Name()+"s entries of")
							}
						}
						continue
					}
					callees := p.Callees(x)
					for ai, a := range com.Args {
						if im.holds[a] != lblNone {
							for _, c := range callees {
								if !InModule(c) && c.Synthetic == "" {
									addBadH(fn, "extern:"+FnName(c), x.Pos(), a, fmt.Sprintf("passes (argument %d) to %s a new slice holding", ai, FnName(c)))
								}
							}
							if len(callees) == 0 {
								addBadH(fn, "unknown-call", x.Pos(), a, "passes to a call whose target is unknown a new slice holding")
							}
						}
						if im.lbl[a] == lblNone {
							continue
						}
						if len(callees) == 0 {
							addBad(fn, "unknown-call", x.Pos(), a, "passes to a call whose target is unknown")
							continue
						}
						for _, c := range callees {
							if InModule(c) || c.Synthetic != "" {
								continue // module code, or a compiler-made wrapper/thunk that only forwards
							}
							path := ""
							if c.Pkg != nil {
								path = c.Pkg.Pkg.Path()
							}
							okExt := readOnlyPkgs[path] || (path == "encoding/binary" && strings.HasPrefix(c.Name(), "Uint"))
							if !okExt {
								addBad(fn, "extern:"+path+"."+c.Name(), x.Pos(), a, fmt.Sprintf("passes (argument %d) to %s.%s, which is not known to leave its argument unmodified,", ai, path, c.Name()))
							}
						}
					}
				case *ssa.Go:
					// reported by I5
				}
			}
		}
	}
	for v := range im.lbl {
		if im.lbl[v] != lblNone {
			nLabelled++
		}
	}
	for _, s := range bads {
		r.bad(rule, s.key, s.pos, s.msg)
	}
	// one obligation per function that handles labelled values and is clean
	perFn := map[string]int{}
	for v, l := range im.lbl {
		if l != lblNone && v.Parent() != nil {
			perFn[FnName(v.Parent())]++
		}
	}
	var fns []string
	for f := range perFn {
		fns = append(fns, f)
	}
	sort.Strings(fns)
	for _, f := range fns {
		dirty := false
		for _, s := range bads {
			if strings.Contains(s.key, ":"+f+":") {
				dirty = true
			}
		}
		if !dirty {
			r.ok(rule, fmt.Sprintf("%s:I2:%s:clean", rule, f), "", fmt.Sprintf("%d values reachable from existing objects or caller-owned arguments are only read, re-sliced, or shared into new immutable objects", perFn[f]))
		}
	}
	r.Note("%s: %d field stores examined, %d labelled values, %d functions handle labelled values", rule, nStores, nLabelled, len(fns))
	r.Floor(rule, 30)

	// I5: shared mutable state
	for name, pk := range p.SPkgs {
		for mname, m := range pk.Members {
			if g, ok := m.(*ssa.Global); ok && !strings.HasPrefix(mname, "init$") {
				key := fmt.Sprintf("%s:I5:global:%s.%s", rule, name, mname)
				holdsMutable := ""
				for n := range im.mutable {
					if mentions(g.Type().(*types.Pointer).Elem(), n) {
						holdsMutable = n.Obj().Name()
					}
				}
				ro, why := p.globalReadOnly(g)
				switch {
				case holdsMutable != "" && !ro:
					r.bad(rule, key, p.Pos(g.Pos()), fmt.Sprintf("package-level variable %s.%s holds the mutable helper struct %s and is not only read after initialisation (%s): per-call state shared by all calls and goroutines", name, mname, holdsMutable, why))
				case !ro:
					r.bad(rule, key, p.Pos(g.Pos()), fmt.Sprintf("package-level variable %s.%s is not only read after initialisation (%s): state shared by all calls and goroutines", name, mname, why))
				case isRefType(g.Type().(*types.Pointer).Elem()):
					r.ok(rule, key, p.Pos(g.Pos()), "package-level table: assigned only by the package initialiser; its elements, windows and fields are only read, also through the module functions they are passed to")
				default:
					r.ok(rule, key, p.Pos(g.Pos()), "package-level variable is never written after initialisation, neither directly nor through what it holds")
				}
			}
		}
	}
	gos := findGoStmts(p.Funcs)
	for _, f := range gos {
		r.bad(rule, rule+":I5:go:"+f.key, p.Pos(f.pos), f.what)
	}
	if len(gos) == 0 {
		r.ok(rule, rule+":I5:go:none", "", "no go statement in the module: every call runs on its caller's goroutine")
	}
	fixtureMustFire(p, r, rule, "gostmt", findGoStmts)
	for name, pk := range p.Pkgs {
		for _, imp := range pk.Types.Imports() {
			switch imp.Path() {
			case "sync", "sync/atomic", "unsafe", "reflect":
				r.bad(rule, fmt.Sprintf("%s:I5:import:%s:%s", rule, name, imp.Path()), "", fmt.Sprintf("package %s imports %s: shared mutable state or type-system escape the analysis does not model", name, imp.Path()))
			}
		}
		r.ok(rule, fmt.Sprintf("%s:I5:imports:%s", rule, name), "", "does not import sync, sync/atomic, unsafe or reflect")
	}
	// mutable helper structs stay private
	for n := range im.mutable {
		key := fmt.Sprintf("%s:I5:mutable-struct:%s.%s", rule, n.Obj().Pkg().Name(), n.Obj().Name())
		var probs []string
		if n.Obj().Exported() {
			probs = append(probs, "is exported")
		}
		if im.immutable[n] {
			continue // reported by I1
		}
		for _, vt := range valueTypes {
			st := vt.Underlying().(*types.Struct)
			for i := 0; i < st.NumFields(); i++ {
				if mentions(st.Field(i).Type(), n) {
					probs = append(probs, "is reachable from field "+st.Field(i).Name()+" of "+vt.Obj().Name())
				}
			}
		}
		for _, fn := range p.Funcs {
			if exported(fn) {
				res := fn.Signature.Results()
				for i := 0; i < res.Len(); i++ {
					if mentions(res.At(i).Type(), n) {
						probs = append(probs, "is returned by "+FnName(fn))
					}
				}
			}
		}
		if len(probs) > 0 {
			r.bad(rule, key, "", fmt.Sprintf("mutable struct %s %s", n.Obj().Name(), strings.Join(uniq(probs), ", ")))
		} else {
			r.ok(rule, key, "", "mutable helper struct is unexported, not part of any item or message and not returned by any exported function: it lives within one call")
		}
	}
}

func mentions(t types.Type, n *types.Named) bool {
	switch x := t.(type) {
	case *types.Named:
		return x == n
	case *types.Pointer:
		return mentions(x.Elem(), n)
	case *types.Slice:
		return mentions(x.Elem(), n)
	case *types.Map:
		return mentions(x.Elem(), n) || mentions(x.Key(), n)
	case *types.Array:
		return mentions(x.Elem(), n)
	}
	return false
}

func typeNames(ns []*types.Named) string {
	var s []string
	for _, n := range ns {
		s = append(s, n.Obj().Name())
	}
	sort.Strings(s)
	return strings.Join(s, ",")
}

func keysOf(m map[*types.Named]bool) []*types.Named {
	var out []*types.Named
	for k := range m {
		out = append(out, k)
	}
	return out
}

func findGoStmts(funcs []*ssa.Function) []finding {
	var out []finding
	for _, fn := range funcs {
		k := 0
		for _, b := range fn.Blocks {
			for _, instr := range b.Instrs {
				if g, ok := instr.(*ssa.Go); ok {
					out = append(out, finding{fn, g.Pos(), "a goroutine is started: results may depend on scheduling and objects are shared across goroutines", fmt.Sprintf("%s#%d", FnName(fn), k)})
					k++
				}
			}
		}
	}
	return out
}

// freshContainer: a slice made in this very function (or already followed as
// a holder): storing a labelled value into it does not touch existing storage.
func (im *immut) freshContainer(v ssa.Value) bool {
	if im.holds[v] != lblNone {
		return true
	}
	switch x := v.(type) {
	case *ssa.MakeSlice:
		return true
	case *ssa.Slice:
		if al, ok := x.X.(*ssa.Alloc); ok {
			_, isArr := al.Type().(*types.Pointer).Elem().Underlying().(*types.Array)
			return isArr
		}
	case *ssa.Alloc:
		_, isArr := x.Type().(*types.Pointer).Elem().Underlying().(*types.Array)
		return isArr
	}
	return false
}

// flowHolds carries the holder mark along the value flow: windows, phis,
// conversions, interface boxing, arguments to parameters, results back.
func (im *immut) flowHolds(instr ssa.Instruction) bool {
	set := func(v ssa.Value, from ssa.Value) bool {
		if l := im.holds[from]; l != lblNone && im.holds[v] == lblNone {
			im.holds[v] = l
			im.origin[v] = im.origin[from]
			return true
		}
		return false
	}
	changed := false
	switch x := instr.(type) {
	case *ssa.Slice:
		changed = set(x, x.X)
	case *ssa.Phi:
		for _, e := range x.Edges {
			if set(x, e) {
				changed = true
			}
		}
	case *ssa.ChangeType:
		changed = set(x, x.X)
	case *ssa.MakeInterface:
		changed = set(x, x.X)
	case *ssa.TypeAssert:
		changed = set(x, x.X)
	case *ssa.Call:
		if bi, ok := x.Common().Value.(*ssa.Builtin); ok {
			if bi.Name() == "append" {
				changed = set(x, x.Common().Args[0])
				if len(x.Common().Args) > 1 && set(x, x.Common().Args[1]) {
					changed = true
				}
			}
			return changed
		}
		for _, callee := range im.p.Callees(x) {
			if !InModule(callee) || callee.Blocks == nil {
				continue
			}
			off := 0
			if x.Common().IsInvoke() {
				off = 1
			}
			for i, a := range x.Common().Args {
				if i+off < len(callee.Params) && set(callee.Params[i+off], a) {
					changed = true
				}
			}
			for _, cb := range callee.Blocks {
				ret, ok := cb.Instrs[len(cb.Instrs)-1].(*ssa.Return)
				if !ok {
					continue
				}
				for ri, rv := range ret.Results {
					if im.holds[rv] == lblNone {
						continue
					}
					if len(ret.Results) == 1 {
						if set(x, rv) {
							changed = true
						}
					} else if refs := x.Referrers(); refs != nil {
						for _, ref := range *refs {
							if ex, ok := ref.(*ssa.Extract); ok && ex.Index == ri && set(ex, rv) {
								changed = true
							}
						}
					}
				}
			}
		}
	}
	return changed
}
